(* C17 lemmas, numeric half: range, argument conversions, type tests, abs/int/str/round, default. *)
From Coq Require Import String.
From TeraV Require Import Model.Value Model.StrOps Model.Builtins Spec.BuiltinLaws Gen.Tables.
Open Scope Z_scope.
Set Default Timeout 600.

(* ------------------------------------------------------------------ basics *)

Lemma in_i128_iff z : in_i128 z = true <-> i128_min <= z <= i128_max.
Proof. unfold in_i128. rewrite andb_true_iff, !Z.leb_le. tauto. Qed.

Lemma in_i128_false z : in_i128 z = false <-> ~ (i128_min <= z <= i128_max).
Proof. rewrite <- in_i128_iff. destruct (in_i128 z); split; congruence || tauto. Qed.

Lemma i128_min_val : i128_min = I128_MIN. Proof. reflexivity. Qed.
Lemma i128_max_val : i128_max = I128_MAX. Proof. reflexivity. Qed.

Lemma fits_iff z : fits_i128 z <-> in_i128 z = true.
Proof. rewrite in_i128_iff. unfold fits_i128. rewrite i128_min_val, i128_max_val. tauto. Qed.

(* ------------------------------------------------------------------ range *)

(* the count really is the number of terms before `end_` *)
Lemma range_count_pos start end_ step i :
  0 < step -> 0 <= i -> (start + i * step < end_ <-> i < range_count start end_ step).
Proof.
  intros Hs Hi. unfold range_count.
  destruct (0 <? step) eqn:E; [|apply Z.ltb_ge in E; lia].
  destruct (start <? end_) eqn:E2.
  - apply Z.ltb_lt in E2.
    set (t := end_ - start + step - 1).
    assert (Hq : step * (t / step) <= t) by (apply Z.mul_div_le; lia).
    assert (Hq2 : t < step * Z.succ (t / step)) by (apply Z.mul_succ_div_gt; lia).
    subst t. split; intro H; nia.
  - apply Z.ltb_ge in E2. split; intro H; nia.
Qed.

Lemma range_count_neg start end_ step i :
  step < 0 -> 0 <= i -> (end_ < start + i * step <-> i < range_count start end_ step).
Proof.
  intros Hs Hi. unfold range_count.
  destruct (0 <? step) eqn:E; [apply Z.ltb_lt in E; lia|].
  destruct (step <? 0) eqn:E1; [|apply Z.ltb_ge in E1; lia].
  destruct (end_ <? start) eqn:E2.
  - apply Z.ltb_lt in E2.
    set (t := start - end_ + - step - 1).
    assert (Hq : (- step) * (t / (- step)) <= t) by (apply Z.mul_div_le; lia).
    assert (Hq2 : t < (- step) * Z.succ (t / (- step))) by (apply Z.mul_succ_div_gt; lia).
    subst t. split; intro H; nia.
  - apply Z.ltb_ge in E2. split; intro H; nia.
Qed.

Lemma range_count_nonneg start end_ step : 0 <= range_count start end_ step.
Proof.
  unfold range_count.
  destruct (0 <? step) eqn:E.
  - apply Z.ltb_lt in E. destruct (start <? end_) eqn:E2; [|lia].
    apply Z.ltb_lt in E2. apply Z.div_pos; lia.
  - destruct (step <? 0) eqn:E1; [|lia]. apply Z.ltb_lt in E1.
    destruct (end_ <? start) eqn:E2; [|lia]. apply Z.ltb_lt in E2. apply Z.div_pos; lia.
Qed.

(* the inputs on which the checked arithmetic of `range` gives up although the progression is
   representable (the known class) *)
Definition range_overflow_class (start end_ step : Z) : Prop :=
  (0 < step /\ start <= end_ /\ ~ (end_ - start + (step - 1) <= i128_max)) \/
  (step < 0 /\ end_ < start /\ (step = i128_min \/ ~ (start - end_ + (- step - 1) <= i128_max))).

Lemma classic_overflow_dec s e st : range_overflow_class s e st \/ ~ range_overflow_class s e st.
Proof. unfold range_overflow_class. lia. Qed.

Lemma quot_div_nonneg a b : 0 <= a -> 0 < b -> Z.quot a b = a / b.
Proof. intros. apply Z.quot_div_nonneg; lia. Qed.

Lemma range_len_ok start end_ step :
  fits_i128 start -> fits_i128 end_ -> fits_i128 step ->
  step <> 0 -> ~ (end_ < start /\ 0 < step) ->
  ~ range_overflow_class start end_ step ->
  range_len start end_ step = BOk (range_count start end_ step).
Proof.
  intros H1 H2 H3 Hz Hbad Hcl.
  apply fits_iff, in_i128_iff in H1. apply fits_iff, in_i128_iff in H2. apply fits_iff, in_i128_iff in H3.
  unfold range_overflow_class in Hcl.
  assert (Hmin : i128_min = - (i128_max + 1)) by reflexivity.
  unfold range_len, range_count.
  destruct ((end_ <? start) && (0 <? step)) eqn:E0.
  { apply andb_true_iff in E0. rewrite Z.ltb_lt, Z.ltb_lt in E0. tauto. }
  destruct (step =? 0) eqn:E1; [apply Z.eqb_eq in E1; lia|]. clear E1.
  destruct (0 <? step) eqn:E2.
  - apply Z.ltb_lt in E2.
    assert (Hle : start <= end_) by (destruct (Z_lt_le_dec end_ start); [exfalso; apply Hbad; lia|lia]).
    assert (Hs : in_i128 (end_ - start) = true) by (apply in_i128_iff; lia).
    rewrite Hs. cbn [negb].
    assert (Ht : in_i128 (end_ - start + (step - 1)) = true) by (apply in_i128_iff; lia).
    rewrite Ht. cbn [negb].
    destruct (start <? end_) eqn:E3.
    + rewrite quot_div_nonneg by lia. f_equal. f_equal. lia.
    + apply Z.ltb_ge in E3. assert (end_ = start) by lia. subst end_.
      rewrite quot_div_nonneg by lia. f_equal.
      replace (start - start + (step - 1)) with (step - 1) by lia. apply Z.div_small. lia.
  - apply Z.ltb_ge in E2. assert (Hneg : step < 0) by lia.
    destruct (step <? 0) eqn:E4; [|apply Z.ltb_ge in E4; lia].
    destruct (start <=? end_) eqn:E5.
    + apply Z.leb_le in E5. destruct (end_ <? start) eqn:E6; [apply Z.ltb_lt in E6; lia|reflexivity].
    + apply Z.leb_gt in E5. destruct (end_ <? start) eqn:E6; [|apply Z.ltb_ge in E6; lia].
      assert (Hst : in_i128 (- step) = true) by (apply in_i128_iff; lia).
      rewrite Hst. cbn [negb].
      assert (Hs : in_i128 (start - end_) = true) by (apply in_i128_iff; lia).
      rewrite Hs. cbn [negb].
      assert (Ht : in_i128 (start - end_ + (- step - 1)) = true) by (apply in_i128_iff; lia).
      rewrite Ht. cbn [negb].
      rewrite quot_div_nonneg by lia. f_equal. f_equal. lia.
Qed.

(* inside the known class the length computation reports an overflow *)
Lemma range_len_class_err start end_ step n :
  fits_i128 start -> fits_i128 end_ -> fits_i128 step ->
  range_overflow_class start end_ step -> range_len start end_ step <> BOk n.
Proof.
  intros H1 H2 H3 Hc H.
  apply fits_iff, in_i128_iff in H1. apply fits_iff, in_i128_iff in H2. apply fits_iff, in_i128_iff in H3.
  unfold range_len in H.
  destruct ((end_ <? start) && (0 <? step)); [discriminate|].
  destruct (step =? 0); [discriminate|].
  destruct Hc as [(A & B & C)|(A & B & C)].
  - assert (E : (0 <? step) = true) by (apply Z.ltb_lt; lia). rewrite E in H.
    destruct (in_i128 (end_ - start)) eqn:E1; [|discriminate]. cbn [negb] in H.
    destruct (in_i128 (end_ - start + (step - 1))) eqn:E2; [|discriminate].
    apply in_i128_iff in E2. lia.
  - assert (E : (0 <? step) = false) by (apply Z.ltb_ge; lia). rewrite E in H.
    assert (E' : (start <=? end_) = false) by (apply Z.leb_gt; lia). rewrite E' in H.
    destruct (in_i128 (- step)) eqn:E0; [|discriminate]. cbn [negb] in H.
    destruct (in_i128 (start - end_)) eqn:E1; [|discriminate]. cbn [negb] in H.
    destruct (in_i128 (start - end_ + (- step - 1))) eqn:E2; [|discriminate].
    apply in_i128_iff in E0. apply in_i128_iff in E2.
    assert (Hmin : i128_min = - (i128_max + 1)) by reflexivity.
    destruct C as [C|C]; lia.
Qed.

(* whenever a length is computed it is the documented count *)
Lemma range_len_sound start end_ step n :
  fits_i128 start -> fits_i128 end_ -> fits_i128 step ->
  range_len start end_ step = BOk n ->
  n = range_count start end_ step /\ ~ range_overflow_class start end_ step.
Proof.
  intros H1 H2 H3 H.
  destruct (Z.eq_dec step 0) as [->|Hz].
  { unfold range_len in H. rewrite andb_false_r in H. cbn in H. discriminate. }
  assert (Hbad : ~ (end_ < start /\ 0 < step)).
  { intros [A B]. unfold range_len in H.
    apply Z.ltb_lt in A. apply Z.ltb_lt in B. rewrite A, B in H. discriminate. }
  destruct (classic_overflow_dec start end_ step) as [Hc|Hc].
  { exfalso. exact (range_len_class_err _ _ _ _ H1 H2 H3 Hc H). }
  rewrite (range_len_ok _ _ _ H1 H2 H3 Hz Hbad Hc) in H. split; congruence.
Qed.

(* the element loop: as long as every product and sum stays inside i128 it yields the progression *)
Lemma range_values_ok n : forall i start step,
  0 <= i ->
  (forall j, i <= j < i + Z.of_nat n -> in_i128 (j * step) = true /\ in_i128 (start + j * step) = true) ->
  range_values n i start step = Some (map (fun k => start + (i + Z.of_nat k) * step) (seq 0 n)).
Proof.
  induction n as [|n IH]; intros i start step Hi H; [reflexivity|].
  cbn [range_values].
  destruct (H i ltac:(lia)) as [A B]. rewrite A, B. cbn [andb].
  rewrite (IH (i + 1) start step ltac:(lia)).
  2:{ intros j Hj. apply H. lia. }
  cbn [seq map]. f_equal. f_equal.
  - f_equal. lia.
  - rewrite <- seq_shift, map_map. apply map_ext. intro k. f_equal. f_equal. lia.
Qed.

Lemma progression_alt start step n :
  map (fun k => start + (0 + Z.of_nat k) * step) (seq 0 n) = progression start step n.
Proof. unfold progression. apply map_ext. intro. reflexivity. Qed.

(* no intermediate value of the loop leaves i128: terms lie between start and end_ *)
Lemma range_terms_fit start end_ step j :
  fits_i128 start -> fits_i128 end_ -> fits_i128 step -> step <> 0 ->
  ~ range_overflow_class start end_ step ->
  0 <= j < range_count start end_ step ->
  in_i128 (j * step) = true /\ in_i128 (start + j * step) = true.
Proof.
  intros H1 H2 H3 Hz Hc Hj. unfold range_overflow_class in Hc.
  apply fits_iff, in_i128_iff in H1. apply fits_iff, in_i128_iff in H2. apply fits_iff, in_i128_iff in H3.
  assert (Hmin : i128_min = - (i128_max + 1)) by reflexivity.
  rewrite !in_i128_iff.
  destruct (Z_lt_le_dec 0 step) as [Hp|Hn].
  - assert (Hlt : start + j * step < end_) by (apply range_count_pos; lia).
    assert (0 <= j * step) by nia.
    assert (start <= end_) by lia. lia.
  - assert (Hneg : step < 0) by lia.
    assert (Hlt : end_ < start + j * step) by (apply range_count_neg; lia).
    assert (j * step <= 0) by nia.
    assert (end_ < start) by lia. lia.
Qed.

Lemma range_values_progression start end_ step :
  fits_i128 start -> fits_i128 end_ -> fits_i128 step -> step <> 0 ->
  ~ range_overflow_class start end_ step ->
  range_values (Z.to_nat (range_count start end_ step)) 0 start step =
  Some (progression start step (Z.to_nat (range_count start end_ step))).
Proof.
  intros H1 H2 H3 Hz Hc. rewrite <- progression_alt. apply range_values_ok; [lia|].
  intros j Hj. apply (range_terms_fit start end_ step j H1 H2 H3 Hz Hc).
  pose proof (range_count_nonneg start end_ step). lia.
Qed.

Lemma range_core_spec start end_ step :
  fits_i128 start -> fits_i128 end_ -> fits_i128 step ->
  ~ range_overflow_class start end_ step ->
  range_core start end_ step =
    if (step =? 0) || ((end_ <? start) && (0 <? step)) then BErr EOther
    else if max_range_len <? range_count start end_ step then BErr EOther
    else BOk (VArr (map (VInt I128) (progression start step (Z.to_nat (range_count start end_ step))))).
Proof.
  intros H1 H2 H3 Hc. unfold range_core.
  destruct (step =? 0) eqn:E0.
  { apply Z.eqb_eq in E0. subst step. cbn [orb]. unfold range_len.
    rewrite andb_false_r. reflexivity. }
  apply Z.eqb_neq in E0. cbn [orb].
  destruct ((end_ <? start) && (0 <? step)) eqn:E1.
  { unfold range_len. rewrite E1. reflexivity. }
  rewrite range_len_ok; try assumption.
  2:{ intros [A B]. apply Z.ltb_lt in A. apply Z.ltb_lt in B. rewrite A, B in E1. discriminate. }
  cbn [bbind].
  destruct (max_range_len <? range_count start end_ step); [reflexivity|].
  rewrite range_values_progression by assumption. reflexivity.
Qed.

(* even inside the known class nothing overflows silently or panics: the answer is an error *)
Lemma range_core_never_panics start end_ step :
  fits_i128 start -> fits_i128 end_ -> fits_i128 step ->
  range_core start end_ step <> BErr EPanic.
Proof.
  intros H1 H2 H3. unfold range_core.
  destruct (range_len start end_ step) as [n|e] eqn:E.
  2:{ cbn [bbind]. unfold range_len in E.
      repeat match type of E with
             | (if ?c then _ else _) = _ => destruct c
             | (let _ := _ in _) = _ => cbv zeta in E
             end; congruence. }
  cbn [bbind]. destruct (max_range_len <? n); [congruence|].
  destruct (range_len_sound _ _ _ _ H1 H2 H3 E) as [-> Hc].
  destruct (Z.eq_dec step 0) as [->|Hz].
  { unfold range_len in E. rewrite andb_false_r in E. cbn in E. discriminate. }
  rewrite range_values_progression by assumption. congruence.
Qed.

(* a representable two-element progression that the code refuses *)
Lemma range_overflow_witness :
  exists start end_ step,
    fits_i128 start /\ fits_i128 end_ /\ fits_i128 step /\
    range_overflow_class start end_ step /\
    range_count start end_ step = 2 /\
    Forall fits_i128 (progression start step 2) /\
    range_core start end_ step = BErr EOther.
Proof.
  exists (-2), i128_max, i128_max.
  assert (F : forall z, in_i128 z = true -> fits_i128 z) by (intros; apply fits_iff; assumption).
  split; [apply F; vm_compute; reflexivity|].
  split; [apply F; vm_compute; reflexivity|].
  split; [apply F; vm_compute; reflexivity|].
  split.
  { left. split; [vm_compute; reflexivity|]. split; [vm_compute; congruence|].
    intro H. vm_compute in H. apply H. reflexivity. }
  split; [vm_compute; reflexivity|].
  split.
  { constructor; [apply F; vm_compute; reflexivity|].
    constructor; [apply F; vm_compute; reflexivity|]. constructor. }
  vm_compute. reflexivity.
Qed.

(* ------------------------------------------------------------------ argument conversions *)

(* exact integer value of a float, stated on mantissa and exponent *)
Definition sf_exact_int (f : spec_float) (z : Z) : Prop :=
  match f with
  | S754_zero _ => z = 0
  | S754_finite s m e =>
      let x := if s then - Z.pos m else Z.pos m in
      if 0 <=? e then z = x * 2 ^ e else z * 2 ^ (- e) = x
  | _ => False
  end.

Lemma sf_int_exact f z : sf_int f = FInt z <-> sf_exact_int f z.
Proof.
  destruct f as [s|s| |s m e]; unfold sf_int, sf_exact_int; cbv zeta.
  - split; [intro H; injection H; lia|intros ->; reflexivity].
  - split; [discriminate|tauto].
  - split; [discriminate|tauto].
  - remember (Z.pos m) as M eqn:HM. assert (HMpos : 0 < M) by lia. clear HM.
    destruct (0 <=? e) eqn:E.
    + remember (2 ^ e) as k eqn:Hk. clear Hk.
      split.
      * intro H. injection H as <-. destruct s; ring.
      * intros ->. f_equal. destruct s; ring.
    + apply Z.leb_gt in E.
      assert (Hk : 0 < 2 ^ (- e)) by (apply Z.pow_pos_nonneg; lia).
      remember (2 ^ (- e)) as k eqn:Hkk. clear Hkk.
      destruct (M mod k =? 0) eqn:E2.
      * apply Z.eqb_eq in E2.
        pose proof (Z.div_mod M k ltac:(lia)) as Hd.
        split.
        -- intro H. injection H as <-. destruct s; nia.
        -- intro H. f_equal.
           assert (Hq : M / k = if s then - z else z).
           { destruct s; symmetry; apply Z.div_unique_exact; lia. }
           destruct s; lia.
      * apply Z.eqb_neq in E2. split; [discriminate|].
        intro H. exfalso. apply E2.
        destruct s.
        -- replace M with ((- z) * k) by lia. apply Z.mod_mul. lia.
        -- rewrite <- H. apply Z.mod_mul. lia.
Qed.

Lemma in_ity_iff t z : in_ity t z = true <-> ity_min t <= z <= ity_max t.
Proof. unfold in_ity. rewrite andb_true_iff, !Z.leb_le. tauto. Qed.

(* integer targets: accepted exactly when the value is an integer (of any representation, or an
   integral float below 2^127 in magnitude) that fits the target *)
Lemma arg_int_ok t v z :
  arg_int t v = BOk z <->
  (exists r, v = VInt r z /\ ity_min t <= z <= ity_max t) \/
  (exists f, v = VFloat f /\ sf_exact_int f z /\ ity_min t <= z <= ity_max t /\ i128_min <= z < two127).
Proof.
  destruct v; cbn [arg_int]; try (split; [discriminate|intros [(r' & H & _)|(f' & H & _)]; discriminate]).
  - destruct (in_ity t z0) eqn:E.
    + split.
      * intro H. injection H as <-. left. exists r. split; [reflexivity|]. apply in_ity_iff. assumption.
      * intros [(r' & H & _)|(f' & H & _)]; [|discriminate]. injection H as _ ->. reflexivity.
    + split; [discriminate|].
      intros [(r' & H & Hr)|(f' & H & _)]; [|discriminate]. injection H as _ ->.
      apply in_ity_iff in Hr. congruence.
  - destruct (sf_int f) as [z0| |] eqn:E.
    + destruct ((i128_min <=? z0) && (z0 <? two127) && in_ity t z0) eqn:E2.
      * apply andb_true_iff in E2 as [E2 E3]. apply andb_true_iff in E2 as [E2 E4].
        apply Z.leb_le in E2. apply Z.ltb_lt in E4. apply in_ity_iff in E3.
        split.
        -- intro H. injection H as <-. right. exists f. apply sf_int_exact in E. tauto.
        -- intros [(r' & H & _)|(f' & H & Hx & _)]; [discriminate|]. injection H as <-.
           apply sf_int_exact in Hx. congruence.
      * split; [discriminate|].
        intros [(r' & H & _)|(f' & H & Hx & Hr & Hb)]; [discriminate|]. injection H as <-.
        apply sf_int_exact in Hx. rewrite Hx in E. injection E as <-.
        apply in_ity_iff in Hr. rewrite Hr in E2.
        assert (A : (i128_min <=? z) = true) by (apply Z.leb_le; lia).
        assert (B : (z <? two127) = true) by (apply Z.ltb_lt; lia).
        rewrite A, B in E2. discriminate.
    + split; [discriminate|].
      intros [(r' & H & _)|(f' & H & Hx & _)]; [discriminate|]. injection H as <-.
      apply sf_int_exact in Hx. congruence.
    + split; [discriminate|].
      intros [(r' & H & _)|(f' & H & Hx & _)]; [discriminate|]. injection H as <-.
      apply sf_int_exact in Hx. congruence.
Qed.

(* wrong kind <-> InvalidArgument: not a number, or a float that is NaN or has a fractional part *)
Lemma arg_int_invalid t v :
  arg_int t v = BErr EInvalidArg <->
  match v with
  | VInt _ _ => False
  | VFloat f => sf_int f = FNotInt
  | _ => True
  end.
Proof.
  destruct v; cbn [arg_int]; try tauto.
  - destruct (in_ity t z); split; (discriminate || tauto).
  - destruct (sf_int f) as [z0| |].
    + destruct ((i128_min <=? z0) && (z0 <? two127) && in_ity t z0); split; discriminate.
    + split; discriminate.
    + tauto.
Qed.

(* right kind, does not fit <-> OutOfRange *)
Lemma arg_int_out_of_range t v :
  arg_int t v = BErr EOutOfRange <->
  match v with
  | VInt _ z => ~ (ity_min t <= z <= ity_max t)
  | VFloat f =>
      match sf_int f with
      | FInt z => ~ (ity_min t <= z <= ity_max t /\ i128_min <= z < two127)
      | FInf => True
      | FNotInt => False
      end
  | _ => False
  end.
Proof.
  destruct v; cbn [arg_int]; try (split; [discriminate|tauto]).
  - destruct (in_ity t z) eqn:E.
    + apply in_ity_iff in E. split; [discriminate|tauto].
    + split; [|reflexivity]. intros _ H. apply in_ity_iff in H. congruence.
  - destruct (sf_int f) as [z0| |].
    + destruct ((i128_min <=? z0) && (z0 <? two127) && in_ity t z0) eqn:E2.
      * apply andb_true_iff in E2 as [E2 E3]. apply andb_true_iff in E2 as [E2 E4].
        apply Z.leb_le in E2. apply Z.ltb_lt in E4. apply in_ity_iff in E3.
        split; [discriminate|tauto].
      * split; [|reflexivity]. intros _ [Hr Hb]. apply in_ity_iff in Hr. rewrite Hr in E2.
        assert (A : (i128_min <=? z0) = true) by (apply Z.leb_le; lia).
        assert (B : (z0 <? two127) = true) by (apply Z.ltb_lt; lia).
        rewrite A, B in E2. discriminate.
    + tauto.
    + split; [discriminate|tauto].
Qed.

Lemma arg_int_never_other t v : arg_int t v <> BErr EMissingArg /\ arg_int t v <> BErr EOther /\ arg_int t v <> BErr EPanic.
Proof.
  destruct v; cbn [arg_int]; repeat split; try discriminate;
    try (destruct (in_ity t z); discriminate);
    destruct (sf_int f) as [z0| |]; try discriminate;
    destruct ((i128_min <=? z0) && (z0 <? two127) && in_ity t z0); discriminate.
Qed.

Lemma arg_simple_table v :
  (arg_bool v = match v with VBool b => BOk b | _ => BErr EInvalidArg end) /\
  (arg_str v = match v with VStr s _ => BOk s | _ => BErr EInvalidArg end) /\
  (arg_array v = match v with VArr l => BOk l | _ => BErr EInvalidArg end) /\
  (arg_map v = match v with VMap m => BOk m | _ => BErr EInvalidArg end) /\
  (arg_value v = BOk v) /\
  (match arg_f64 v with BOk _ => is_number v = true | BErr e => e = EInvalidArg /\ is_number v = false end) /\
  (match arg_number v with
   | BOk (NInt z) => exists r, v = VInt r z /\ i128_min <= z <= i128_max
   | BOk (NFloat f) => v = VFloat f
   | BErr EInvalidArg => is_number v = false
   | BErr EOther => exists z, v = VInt U128 z /\ ~ (i128_min <= z <= i128_max) \/ exists r z, v = VInt r z /\ ~ (i128_min <= z <= i128_max)
   | BErr _ => False
   end).
Proof.
  repeat split; destruct v; try reflexivity; cbn; try tauto.
  destruct (in_i128 z) eqn:E.
  - exists r. split; [reflexivity|]. apply in_i128_iff. assumption.
  - exists z. right. exists r, z. split; [reflexivity|]. apply in_i128_false. assumption.
Qed.

(* Kwargs::get / must_get *)
Lemma kw_get_spec {A} (conv : value -> bres A) k kw :
  kw_get conv k kw = match kw_find (s2l k) kw with
                     | None => BOk None
                     | Some v => match conv v with BOk a => BOk (Some a) | BErr e => BErr e end
                     end.
Proof. unfold kw_get. destruct (kw_find (s2l k) kw); [|reflexivity]. destruct (conv v); reflexivity. Qed.

Lemma kw_must_spec {A} (conv : value -> bres A) k kw :
  kw_must conv k kw = match kw_find (s2l k) kw with
                      | None => BErr EMissingArg
                      | Some v => conv v
                      end.
Proof.
  unfold kw_must. rewrite kw_get_spec. destruct (kw_find (s2l k) kw); [|reflexivity].
  destruct (conv v); reflexivity.
Qed.

(* ------------------------------------------------------------------ type tests *)

Definition b2n (b : bool) : nat := if b then 1%nat else 0%nat.

Lemma type_tests_partition v :
  xorb (is_integer v) (is_float v) = is_number v /\
  is_defined v = negb (is_undefined v) /\
  (b2n (is_undefined v) + b2n (is_none v) + b2n (is_bool v) + b2n (is_number v) + b2n (is_string v)
   + b2n (is_array v) + b2n (is_map v) + b2n (is_bytes v) = 1)%nat /\
  is_iterable v = (is_string v || is_array v || is_map v || is_bytes v) /\
  (is_integer v = true -> is_number v = true) /\ (is_float v = true -> is_number v = true) /\
  (is_integer v && is_float v = false).
Proof. destruct v; repeat split; try reflexivity; cbn; congruence. Qed.

Lemma rem2_even z : (Z.rem z 2 =? 0) = Z.even z.
Proof.
  destruct (Z.even z) eqn:E.
  - apply Z.eqb_eq. apply Z.rem_mod_eq_0; [lia|]. rewrite Zmod_even, E. reflexivity.
  - apply Z.eqb_neq. intro H. apply Z.rem_mod_eq_0 in H; [|lia].
    rewrite Zmod_even in H. rewrite E in H. discriminate.
Qed.

Lemma odd_even_spec kw r z :
  i128_min <= z <= i128_max ->
  t_odd kw (VInt r z) = BOk (VBool (Z.odd z)) /\ t_even kw (VInt r z) = BOk (VBool (Z.even z)).
Proof.
  intro H. apply in_i128_iff in H. unfold t_odd, t_even, arg_number. rewrite H. cbn [bbind vb].
  rewrite rem2_even, Z.negb_even. split; reflexivity.
Qed.

(* divisible_by: true exactly when the divisor is not zero and divides the receiver *)
Lemma divisible_by_spec kw r z d :
  i128_min <= z <= i128_max ->
  kw_find (s2l "divisor") kw = Some (VInt I128 d) -> i128_min <= d <= i128_max ->
  t_divisible_by kw (VInt r z) = BOk (VBool (negb (d =? 0) && (z mod d =? 0))).
Proof.
  intros Hz Hk Hd. unfold t_divisible_by, arg_number.
  apply in_i128_iff in Hz. rewrite Hz. cbn [bbind].
  rewrite kw_must_spec, Hk. cbn [arg_int].
  assert (E : in_ity TI128 d = true) by (apply in_ity_iff; exact Hd).
  rewrite E. cbn [bbind].
  destruct (d =? 0) eqn:E0; [reflexivity|]. cbn [negb andb].
  destruct ((z =? i128_min) && (d =? -1)) eqn:E1; [|reflexivity].
  apply andb_true_iff in E1 as [A B]. apply Z.eqb_eq in A. apply Z.eqb_eq in B. subst.
  reflexivity.
Qed.

(* ------------------------------------------------------------------ default *)

Lemma default_spec kw v d :
  kw_find (s2l "value") kw = Some d ->
  (kw_find (s2l "boolean") kw = None \/ kw_find (s2l "boolean") kw = Some (VBool false) ->
     f_default kw v = BOk (match v with VUndef => d | _ => v end)) /\
  (kw_find (s2l "boolean") kw = Some (VBool true) ->
     f_default kw v = BOk (if is_truthy v then v else d)).
Proof.
  intro Hd. unfold f_default. rewrite kw_must_spec, Hd. cbn [arg_value bbind].
  rewrite kw_get_spec. split.
  - intros [H|H]; rewrite H; cbn [arg_bool bbind opt_or]; destruct v; reflexivity.
  - intro H. rewrite H. cbn [arg_bool bbind opt_or]. destruct (is_truthy v); reflexivity.
Qed.

Lemma default_errors kw v :
  (kw_find (s2l "value") kw = None -> f_default kw v = BErr EMissingArg) /\
  (forall d b, kw_find (s2l "value") kw = Some d -> kw_find (s2l "boolean") kw = Some b ->
               is_bool b = false -> f_default kw v = BErr EInvalidArg).
Proof.
  unfold f_default. split.
  - intro H. rewrite kw_must_spec, H. reflexivity.
  - intros d b Hd Hb Hn. rewrite kw_must_spec, Hd. cbn [arg_value bbind].
    rewrite kw_get_spec, Hb. destruct b; try discriminate; reflexivity.
Qed.

(* ------------------------------------------------------------------ abs, int on integers *)

Lemma rep_ok_iff r z :
  rep_ok r z = true <->
  match r with
  | U64 => 0 <= z < two64 | I64 => - two63 <= z < two63
  | U128 => 0 <= z <= u128_max | I128 => i128_min <= z <= i128_max
  end.
Proof.
  destruct r; cbn [rep_ok]; unfold in_u64, in_i64, in_u128, in_i128;
    rewrite andb_true_iff, ?Z.leb_le, ?Z.ltb_lt; tauto.
Qed.

(* abs: the exact absolute value in a representation that holds it, or an error exactly when it
   does not fit any signed/unsigned 128-bit representation of the input's signedness
   (|i128::MIN|) — never a wrapped value *)
Lemma abs_int_spec kw r z :
  rep_ok r z = true ->
  match f_abs kw (VInt r z) with
  | BOk (VInt r' z') => z' = Z.abs z /\ rep_ok r' z' = true
  | BErr e => e = EOther /\ r = I128 /\ z = i128_min
  | _ => False
  end.
Proof.
  intro H. apply rep_ok_iff in H. destruct r; cbn [f_abs].
  - split; [lia|apply rep_ok_iff; lia].
  - destruct (z =? - two63) eqn:E.
    + apply Z.eqb_eq in E. subst. split; [reflexivity|reflexivity].
    + apply Z.eqb_neq in E. split; [reflexivity|]. apply rep_ok_iff.
      unfold two63 in *. lia.
  - split; [lia|apply rep_ok_iff; lia].
  - destruct (z =? i128_min) eqn:E.
    + apply Z.eqb_eq in E. tauto.
    + apply Z.eqb_neq in E. split; [reflexivity|]. apply rep_ok_iff.
      unfold i128_min, i128_max, two127 in *. lia.
Qed.

Lemma abs_other_kinds kw v :
  is_number v = false -> f_abs kw v = BErr EOther.
Proof. destruct v; cbn; congruence. Qed.

(* int on an integer: the same mathematical value, in a representation that holds it *)
Lemma int_of_int_spec r z :
  rep_ok r z = true ->
  exists r', f_int [] (VInt r z) = Some (BOk (VInt r' z)) /\ rep_ok r' z = true.
Proof.
  intro H. destruct r; cbn.
  - exists U64. split; [reflexivity|assumption].
  - exists I128. split; [reflexivity|]. apply rep_ok_iff in H. apply rep_ok_iff.
    unfold i128_min, i128_max, two127, two63 in *. lia.
  - exists U128. split; [reflexivity|assumption].
  - exists I128. split; [reflexivity|assumption].
Qed.

(* int on a float: its exact value when it is an integer inside i128, otherwise an error *)
Lemma int_of_float_spec f :
  f_int [] (VFloat f) =
    Some (match sf_int f with
          | FInt z => if (i128_min <=? z) && (z <? two127) then BOk (VInt I128 z) else BErr EOther
          | _ => BErr EOther
          end).
Proof.
  unfold f_int. rewrite kw_get_spec. cbn [kw_find opt_or].
  change (negb ((2 <=? 10) && (10 <=? 36))) with false. cbv iota.
  unfold float_as_integer. destruct (sf_int f) as [z| |]; try reflexivity.
  destruct ((i128_min <=? z) && (z <? two127)); reflexivity.
Qed.

(* ------------------------------------------------------------------ decimal text *)

Lemma digit_val_digit d : 0 <= d < 10 -> digit_val (Z.to_N (48 + d)) = Some d.
Proof.
  intro H.
  assert (C : d = 0 \/ d = 1 \/ d = 2 \/ d = 3 \/ d = 4 \/ d = 5 \/ d = 6 \/ d = 7 \/ d = 8 \/ d = 9) by lia.
  repeat (destruct C as [->|C]; [reflexivity|]). subst. reflexivity.
Qed.

(* the digits produced for n, followed by acc, read back as n (Horner) *)
Lemma digits_fuel_parse fuel : forall n acc,
  0 <= n -> Z.log2 n < Z.of_nat fuel ->
  exists ds, digits_fuel fuel n acc = ds ++ acc /\ ds <> [] /\
    (forall c, In c ds -> (48 <= c <= 57)%N) /\
    forall a, exists k, 0 <= k /\ n < 10 ^ k /\
      parse_digits 10 (ds ++ acc) a = parse_digits 10 acc (a * 10 ^ k + n).
Proof.
  induction fuel as [|f IH]; intros n acc Hn Hf.
  { pose proof (Z.log2_nonneg n). lia. }
  cbn [digits_fuel].
  assert (Hm : 0 <= n mod 10 < 10) by (apply Z.mod_pos_bound; lia).
  set (d := Z.to_N (48 + n mod 10)).
  assert (Hd : (48 <= d <= 57)%N) by (subst d; lia).
  destruct (n <? 10) eqn:E.
  - apply Z.ltb_lt in E. exists [d]. split; [reflexivity|]. split; [discriminate|]. split.
    { intros c [<-|[]]. exact Hd. }
    intro a. exists 1. split; [lia|]. split; [lia|].
    cbn [app parse_digits]. subst d. rewrite digit_val_digit by lia.
    assert (E2 : (n mod 10 <? 10) = true) by (apply Z.ltb_lt; lia). rewrite E2.
    rewrite Z.mod_small by lia. rewrite Z.pow_1_r. reflexivity.
  - apply Z.ltb_ge in E.
    assert (Hq : 0 <= n / 10) by (apply Z.div_pos; lia).
    assert (Hlog : Z.log2 (n / 10) < Z.of_nat f).
    { assert (n / 10 <= n / 2) by (apply Z.div_le_compat_l; lia).
      assert (Z.log2 (n / 10) <= Z.log2 (n / 2)) by (apply Z.log2_le_mono; assumption).
      assert (Z.log2 (n / 2) = Z.log2 n - 1).
      { rewrite <- Z.div2_div. rewrite Z.div2_spec. rewrite Z.log2_shiftr by lia.
        pose proof (Z.log2_le_mono 2 n ltac:(lia)) as L. cbn in L. lia. }
      lia. }
    destruct (IH (n / 10) (d :: acc) Hq Hlog) as (ds & Hds & Hne & Hall & Hp).
    exists (ds ++ [d]). split; [rewrite Hds, <- app_assoc; reflexivity|].
    split; [destruct ds; discriminate|]. split.
    { intros c Hc. apply in_app_or in Hc as [Hc|[<-|[]]]; [apply Hall; assumption|exact Hd]. }
    intro a. destruct (Hp a) as (k & Hk0 & Hk & Hpk).
    exists (k + 1). split; [lia|]. split.
    { rewrite Z.pow_add_r, Z.pow_1_r by lia.
      pose proof (Z.div_mod n 10 ltac:(lia)). nia. }
    rewrite <- app_assoc. cbn [app]. rewrite Hpk.
    cbn [parse_digits]. subst d. rewrite digit_val_digit by lia.
    assert (E2 : (n mod 10 <? 10) = true) by (apply Z.ltb_lt; lia). rewrite E2.
    f_equal. rewrite Z.pow_add_r, Z.pow_1_r by lia.
    pose proof (Z.div_mod n 10 ltac:(lia)). nia.
Qed.

Lemma dec_nonneg_parse n :
  0 <= n ->
  exists c rest, dec_nonneg n = c :: rest /\ (48 <= c <= 57)%N /\
                 parse_digits 10 (c :: rest) 0 = Some n.
Proof.
  intro Hn. unfold dec_nonneg.
  destruct (digits_fuel_parse (S (Z.to_nat (Z.log2 n))) n [] Hn) as (ds & Hds & Hne & Hall & Hp).
  { pose proof (Z.log2_nonneg n). lia. }
  rewrite app_nil_r in Hds. rewrite Hds.
  destruct ds as [|c rest]; [congruence|].
  exists c, rest. split; [reflexivity|]. split; [apply Hall; left; reflexivity|].
  destruct (Hp 0) as (k & _ & _ & Hk). rewrite app_nil_r in Hk. rewrite Hk. reflexivity.
Qed.

(* printing then parsing an i128 gives it back: `str` and `int` agree with exact arithmetic *)
Lemma dec_roundtrip z :
  i128_min <= z <= i128_max -> from_str_radix 10 (dec_of_Z z) = Some z.
Proof.
  intro Hz. unfold dec_of_Z.
  destruct (z <? 0) eqn:E.
  - apply Z.ltb_lt in E.
    destruct (dec_nonneg_parse (- z) ltac:(lia)) as (c & rest & Hd & Hc & Hp).
    rewrite Hd. unfold from_str_radix.
    change (N.eqb 45 45) with true. cbv iota. rewrite Hp.
    rewrite Z.opp_involutive.
    assert (I : in_i128 z = true) by (apply in_i128_iff; exact Hz). rewrite I. reflexivity.
  - apply Z.ltb_ge in E.
    destruct (dec_nonneg_parse z E) as (c & rest & Hd & Hc & Hp).
    rewrite Hd. unfold from_str_radix.
    assert (E1 : N.eqb c 45 = false) by (apply N.eqb_neq; lia).
    assert (E2 : N.eqb c 43 = false) by (apply N.eqb_neq; lia).
    rewrite E1, E2. rewrite Hp.
    assert (I : in_i128 z = true) by (apply in_i128_iff; exact Hz). rewrite I. reflexivity.
Qed.

(* a decimal numeral outside i128 is refused, not wrapped *)
Lemma dec_out_of_range z :
  ~ (i128_min <= z <= i128_max) -> from_str_radix 10 (dec_of_Z z) = None.
Proof.
  intro Hz. unfold dec_of_Z.
  destruct (z <? 0) eqn:E.
  - apply Z.ltb_lt in E.
    destruct (dec_nonneg_parse (- z) ltac:(lia)) as (c & rest & Hd & Hc & Hp).
    rewrite Hd. unfold from_str_radix. change (N.eqb 45 45) with true. cbv iota. rewrite Hp.
    rewrite Z.opp_involutive.
    assert (I : in_i128 z = false) by (apply in_i128_false; exact Hz). rewrite I. reflexivity.
  - apply Z.ltb_ge in E.
    destruct (dec_nonneg_parse z E) as (c & rest & Hd & Hc & Hp).
    rewrite Hd. unfold from_str_radix.
    assert (E1 : N.eqb c 45 = false) by (apply N.eqb_neq; lia).
    assert (E2 : N.eqb c 43 = false) by (apply N.eqb_neq; lia).
    rewrite E1, E2. rewrite Hp.
    assert (I : in_i128 z = false) by (apply in_i128_false; exact Hz). rewrite I. reflexivity.
Qed.

Lemma str_of_int_spec kw r z : f_str kw (VInt r z) = Some (BOk (VStr (dec_of_Z z) false)).
Proof. reflexivity. Qed.

(* int on a string is i128::from_str_radix on the trimmed text (prefix removed for 2/8/16) *)
Lemma int_of_string_spec s b :
  f_int [] (VStr s b) =
    match from_str_radix 10 (trim_ws s) with
    | Some z => Some (BOk (VInt I128 z))
    | None => if has_dot (trim_ws s) then None else Some (BErr EOther)
    end.
Proof. reflexivity. Qed.

(* ------------------------------------------------------------------ round *)

(* the integer chosen by floor / ceil / round for the value x / k, k = 2^-e, x = +-m *)
Lemma round_int_spec (md : rmode) (s : bool) (m : positive) (e : Z) :
  e < 0 ->
  let k := 2 ^ (- e) in
  let x := if s then - Z.pos m else Z.pos m in
  let r := round_int md s m e in
  match md with
  | RFloor => k * r <= x < k * (r + 1)
  | RCeil => k * (r - 1) < x <= k * r
  | RRound => 2 * k * Z.abs r - k <= 2 * Z.pos m < 2 * k * Z.abs r + k /\ (r < 0 <-> (s = true /\ r <> 0))
  end.
Proof.
  intros He k x r.
  assert (Hk : 0 < k) by (apply Z.pow_pos_nonneg; lia).
  subst r. unfold round_int. fold k. fold x.
  destruct md.
  - set (a := (2 * Z.pos m + k) / (2 * k)).
    assert (H1 : (2 * k) * a <= 2 * Z.pos m + k) by (apply Z.mul_div_le; lia).
    assert (H2 : 2 * Z.pos m + k < (2 * k) * Z.succ a) by (apply Z.mul_succ_div_gt; lia).
    assert (Ha : 0 <= a) by (apply Z.div_pos; lia).
    destruct s.
    + rewrite Z.abs_opp, Z.abs_eq by lia. split; [nia|]. split; [intro; split; [reflexivity|lia]|lia].
    + rewrite Z.abs_eq by lia. split; [nia|]. split; [lia|intros [A _]; discriminate].
  - assert (H1 : k * ((- x) / k) <= - x) by (apply Z.mul_div_le; lia).
    assert (H2 : - x < k * Z.succ ((- x) / k)) by (apply Z.mul_succ_div_gt; lia).
    nia.
  - assert (H1 : k * (x / k) <= x) by (apply Z.mul_div_le; lia).
    assert (H2 : x < k * Z.succ (x / k)) by (apply Z.mul_succ_div_gt; lia).
    nia.
Qed.

(* round with a precision whose power of ten is not finite: a finite number comes back as NaN
   (10.0_f64.powi(400) is +inf; inf * 2.5 = inf; inf.round() / inf = NaN) *)
Lemma round_non_finite_witness :
  exists (pow10 : Z -> spec_float) kw v,
    pow10 400 = S754_infinity false /\
    v = VFloat (S754_finite false 5629499534213120 (-51)) /\
    f_round pow10 kw v = BOk (VFloat S754_nan).
Proof.
  exists (fun _ => S754_infinity false), [(s2l "precision", VInt U64 400)], (VFloat (S754_finite false 5629499534213120 (-51))).
  split; [reflexivity|]. split; [reflexivity|]. vm_compute. reflexivity.
Qed.
