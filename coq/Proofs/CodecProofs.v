(* Proofs for C20 (Model/Codec.v, Model/Utf8.v against Spec/Codec.v). *)
From TeraV Require Import Model.Value Model.Utf8 Gen.CodecTables Model.Codec Spec.Codec.
From Coq Require Import Lia ZArith NArith List Bool.
Import ListNotations.
Open Scope N_scope.

(* lia understands / and mod by a literal through the equations of Euclidean division *)
Ltac Zify.zify_post_hook ::= Z.to_euclidean_division_equations.

(* ------------------------------------------------------------------------------ finite sweeps *)

Definition below (n : nat) : list N := map N.of_nat (seq 0 n).

Lemma below_complete n d : d < N.of_nat n -> In d (below n).
Proof.
  intros H. unfold below. apply in_map_iff. exists (N.to_nat d). split.
  - apply N2Nat.id.
  - apply in_seq. lia.
Qed.

(* a boolean predicate checked on 0..n-1 by computation holds below n *)
Lemma sweep (P : N -> bool) (n : nat) :
  forallb P (below n) = true -> forall d, d < N.of_nat n -> P d = true.
Proof.
  intros H d Hd. rewrite forallb_forall in H. apply H. now apply below_complete.
Qed.

Definition bytes (l : list N) : Prop := Forall (fun b => b < 256) l.

Lemma option_map_some {A B} (f : A -> B) o x : o = Some x -> option_map f o = Some (f x).
Proof. intros ->. reflexivity. Qed.

(* ------------------------------------------------------------------------------ percent-encoding *)

Lemma unhex_hex_upper d : d < 16 -> unhex_digit (hex_upper d) = Some d.
Proof.
  intros H.
  pose proof (sweep (fun d => match unhex_digit (hex_upper d) with Some x => x =? d | None => false end)
                    16 ltac:(vm_compute; reflexivity) d H) as E.
  cbv beta in E. destruct (unhex_digit (hex_upper d)); [|discriminate].
  apply N.eqb_eq in E. now subst.
Qed.

Lemma is_hex_hex_upper d : d < 16 -> is_hex (hex_upper d) = true.
Proof. intros H. apply (sweep (fun d => is_hex (hex_upper d)) 16); [vm_compute; reflexivity | exact H]. Qed.

Lemma pct_decode_encoded b rest :
  b < 256 -> pct_decode (pct_encode_byte b ++ rest) = option_map (cons b) (pct_decode rest).
Proof.
  intros Hb. unfold pct_encode_byte. cbn [app pct_decode]. rewrite N.eqb_refl.
  rewrite !unhex_hex_upper by lia.
  replace (16 * (b / 16) + b mod 16) with b by lia. reflexivity.
Qed.

Lemma pct_roundtrip_gen ch l :
  should_percent_encode ch 37 = true -> bytes l -> pct_decode (pct_encode ch l) = Some l.
Proof.
  intros H37 Hl. induction Hl as [|b l Hb Hl IH]; [reflexivity|].
  unfold pct_encode in *. cbn [flat_map].
  destruct (should_percent_encode ch b) eqn:E.
  - rewrite pct_decode_encoded by assumption. now rewrite IH.
  - cbn [app pct_decode].
    destruct (b =? 37) eqn:E37.
    + apply N.eqb_eq in E37. subst b. congruence.
    + now rewrite IH.
Qed.

Lemma pct_shape_gen ch extra l :
  extra 37 = false ->
  (forall b, should_percent_encode ch b = false -> is_unreserved b || extra b = true) ->
  bytes l -> pct_shape extra (pct_encode ch l) = true.
Proof.
  intros Hx Hset Hl. induction Hl as [|b l Hb Hl IH]; [reflexivity|].
  unfold pct_encode in *. cbn [flat_map].
  destruct (should_percent_encode ch b) eqn:E.
  - unfold pct_encode_byte. cbn [app pct_shape]. rewrite N.eqb_refl. cbv iota.
    rewrite !is_hex_hex_upper by lia. cbn [andb]. exact IH.
  - cbn [app pct_shape].
    destruct (b =? 37) eqn:E37.
    + apply N.eqb_eq in E37. subst b. specialize (Hset _ E). rewrite Hx in Hset.
      vm_compute in Hset. discriminate.
    + rewrite (Hset _ E). now rewrite IH.
Qed.

(* facts read off the generated chains (re-proved whenever urlencode.rs changes) *)
Lemma urlencode_has_pct : should_percent_encode urlencode_chain 37 = true.
Proof. vm_compute. reflexivity. Qed.
Lemma urlencode_strict_has_pct : should_percent_encode urlencode_strict_chain 37 = true.
Proof. vm_compute. reflexivity. Qed.

Lemma non_ascii_encoded ch b : 128 <= b -> should_percent_encode ch b = true.
Proof.
  intros H. unfold should_percent_encode.
  replace (b <? 128) with false by (symmetry; apply N.ltb_ge; lia). reflexivity.
Qed.

Lemma ascii_sweep (P : N -> bool) ch :
  forallb (fun b => should_percent_encode ch b || P b) (below 128) = true ->
  forall b, should_percent_encode ch b = false -> P b = true.
Proof.
  intros Hs b H. destruct (N.ltb_spec b 128) as [Hlt|Hge].
  - pose proof (sweep _ 128 Hs b Hlt) as E. cbv beta in E. now rewrite H in E.
  - rewrite non_ascii_encoded in H by assumption. discriminate.
Qed.

Lemma urlencode_unencoded b :
  should_percent_encode urlencode_chain b = false -> is_unreserved b || (b =? 47) = true.
Proof. apply (ascii_sweep (fun b => is_unreserved b || (b =? 47))). vm_compute. reflexivity. Qed.

Lemma urlencode_strict_unencoded b :
  should_percent_encode urlencode_strict_chain b = false -> is_unreserved b || false = true.
Proof. apply (ascii_sweep (fun b => is_unreserved b || false)). vm_compute. reflexivity. Qed.

(* and nothing that may stay is escaped: the python-compatible set keeps exactly unreserved + "/",
   the strict set keeps exactly letters and digits *)
Lemma urlencode_keeps b :
  is_unreserved b || (b =? 47) = true -> should_percent_encode urlencode_chain b = false.
Proof.
  intros H. destruct (N.ltb_spec b 128) as [Hlt|Hge].
  - pose proof (sweep (fun b => negb (is_unreserved b || (b =? 47)) || negb (should_percent_encode urlencode_chain b))
                      128 ltac:(vm_compute; reflexivity) b Hlt) as E.
    cbv beta in E. rewrite H in E. cbn in E. now destruct (should_percent_encode urlencode_chain b).
  - exfalso. unfold is_unreserved, is_upper, is_lower, is_digit, in_range in H.
    repeat match type of H with context [?a <=? ?b] =>
      replace (a <=? b) with false in H by (symmetry; apply N.leb_gt; lia) end.
    repeat match type of H with context [?a =? ?b] =>
      replace (a =? b) with false in H by (symmetry; apply N.eqb_neq; lia) end.
    repeat rewrite ?andb_false_r, ?andb_false_l, ?orb_false_r in H. discriminate.
Qed.

Lemma urlencode_strict_keeps b :
  is_alnum b = true -> should_percent_encode urlencode_strict_chain b = false.
Proof.
  intros H. destruct (N.ltb_spec b 128) as [Hlt|Hge].
  - pose proof (sweep (fun b => negb (is_alnum b) || negb (should_percent_encode urlencode_strict_chain b))
                      128 ltac:(vm_compute; reflexivity) b Hlt) as E.
    cbv beta in E. rewrite H in E. cbn in E. now destruct (should_percent_encode urlencode_strict_chain b).
  - exfalso. unfold is_alnum, in_range in H.
    repeat match type of H with context [?a <=? ?b] =>
      replace (a <=? b) with false in H by (symmetry; apply N.leb_gt; lia) end.
    repeat rewrite ?andb_false_r, ?andb_false_l, ?orb_false_r in H. discriminate.
Qed.

(* ------------------------------------------------------------------------------ UTF-8 *)

Definition scalars (s : list N) : Prop := Forall (fun c => is_scalar c = true) s.

Ltac btrue t := replace t with true by (symmetry; first [apply N.ltb_lt | apply N.leb_le | apply N.eqb_eq]; lia).
Ltac bfalse t := replace t with false by (symmetry; first [apply N.ltb_ge | apply N.leb_gt | apply N.eqb_neq]; lia).
Ltac decide_tests := repeat match goal with
  | |- context [?a <? ?b] => first [btrue (a <? b) | bfalse (a <? b)]
  | |- context [?a <=? ?b] => first [btrue (a <=? b) | bfalse (a <=? b)]
  | |- context [?a =? ?b] => first [btrue (a =? b) | bfalse (a =? b)]
  end.

Lemma is_scalar_range c : is_scalar c = true -> c < 55296 \/ (57343 < c /\ c < 1114112).
Proof.
  unfold is_scalar. destruct (N.ltb_spec c 55296); [now left|].
  destruct (N.ltb_spec 57343 c), (N.ltb_spec c 1114112); cbn; try discriminate. right. lia.
Qed.

Lemma utf8_char_bytes c : c < 1114112 -> bytes (utf8_encode_char c).
Proof.
  intros H. unfold utf8_encode_char, bytes.
  destruct (N.ltb_spec c 128); [repeat constructor; lia|].
  destruct (N.ltb_spec c 2048); [repeat constructor; lia|].
  destruct (N.ltb_spec c 65536); repeat constructor; lia.
Qed.

Lemma utf8_encode_cons c s : utf8_encode (c :: s) = utf8_encode_char c ++ utf8_encode s.
Proof. reflexivity. Qed.

Lemma utf8_encode_bytes s : scalars s -> bytes (utf8_encode s).
Proof.
  intros H. induction H as [|c s Hc Hs IH]; [constructor|].
  rewrite utf8_encode_cons. apply Forall_app. split; [|exact IH].
  apply utf8_char_bytes. apply is_scalar_range in Hc. lia.
Qed.

Lemma utf8_char_roundtrip c rest :
  is_scalar c = true ->
  utf8_decode (utf8_encode_char c ++ rest) = option_map (cons c) (utf8_decode rest).
Proof.
  intros Hs. apply is_scalar_range in Hs. unfold utf8_encode_char.
  destruct (N.ltb_spec c 128) as [H1|H1].
  { cbn [app utf8_decode]. btrue (c <? 128). reflexivity. }
  destruct (N.ltb_spec c 2048) as [H2|H2].
  { assert (exists q r, c / 64 = q /\ c mod 64 = r /\ c = 64 * q + r /\ r < 64) as (q & r & -> & -> & E & Hr)
      by (eexists _, _; repeat split; lia).
    subst c. cbn [app utf8_decode]. unfold in_range, is_cont. decide_tests. cbn [andb].
    replace ((192 + q - 192) * 64 + (128 + r - 128)) with (64 * q + r) by lia. reflexivity. }
  destruct (N.ltb_spec c 65536) as [H3|H3].
  { assert (exists a b r, c / 4096 = a /\ (c / 64) mod 64 = b /\ c mod 64 = r /\
                          c = 4096 * a + 64 * b + r /\ b < 64 /\ r < 64)
      as (a & b & r & -> & -> & -> & E & Hb & Hr) by (eexists _, _, _; repeat split; lia).
    subst c. cbn [app utf8_decode]. unfold second3_ok, is_cont, in_range. decide_tests.
    destruct (N.eqb_spec (224 + a) 224) as [Ea|Ea]; [|destruct (N.eqb_spec (224 + a) 237) as [Eb|Eb]];
      decide_tests; cbn [andb];
      (replace ((224 + a - 224) * 4096 + (128 + b - 128) * 64 + (128 + r - 128)) with (4096 * a + 64 * b + r) by lia);
      reflexivity. }
  { assert (exists a b d r, c / 262144 = a /\ (c / 4096) mod 64 = b /\ (c / 64) mod 64 = d /\ c mod 64 = r /\
                          c = 262144 * a + 4096 * b + 64 * d + r /\ b < 64 /\ d < 64 /\ r < 64)
      as (a & b & d & r & -> & -> & -> & -> & E & Hb & Hd & Hr) by (eexists _, _, _, _; repeat split; lia).
    subst c. cbn [app utf8_decode]. unfold second4_ok, is_cont, in_range. decide_tests.
    destruct (N.eqb_spec (240 + a) 240) as [Ea|Ea]; [|destruct (N.eqb_spec (240 + a) 244) as [Eb|Eb]];
      decide_tests; cbn [andb];
      (replace ((240 + a - 240) * 262144 + (128 + b - 128) * 4096 + (128 + d - 128) * 64 + (128 + r - 128))
         with (262144 * a + 4096 * b + 64 * d + r) by lia);
      reflexivity. }
Qed.

Lemma utf8_roundtrip s : scalars s -> utf8_decode (utf8_encode s) = Some s.
Proof.
  intros H. induction H as [|c s Hc Hs IH]; [reflexivity|].
  rewrite utf8_encode_cons, utf8_char_roundtrip by assumption.
  now rewrite IH.
Qed.

Lemma utf8_encode_ascii s : Forall (fun c => c < 128) s -> utf8_encode s = s.
Proof.
  intros H. induction H as [|c s Hc Hs IH]; [reflexivity|].
  rewrite utf8_encode_cons. unfold utf8_encode_char.
  btrue (c <? 128). cbn [app]. now rewrite IH.
Qed.

(* filter level: urlencode / urlencode_strict of a string, percent-decoded, then UTF-8-decoded *)
Lemma pct_roundtrip_filters s :
  scalars s ->
  pct_decode (urlencode_filter s) = Some (utf8_encode s) /\
  pct_decode (urlencode_strict_filter s) = Some (utf8_encode s) /\
  utf8_decode (utf8_encode s) = Some s.
Proof.
  intros H. pose proof (utf8_encode_bytes s H) as Hb. repeat split.
  - apply pct_roundtrip_gen; [exact urlencode_has_pct | exact Hb].
  - apply pct_roundtrip_gen; [exact urlencode_strict_has_pct | exact Hb].
  - now apply utf8_roundtrip.
Qed.

Lemma pct_alphabet_filters s :
  scalars s ->
  pct_shape (fun c => c =? 47) (urlencode_filter s) = true /\
  pct_shape (fun _ => false) (urlencode_strict_filter s) = true.
Proof.
  intros H. pose proof (utf8_encode_bytes s H) as Hb. split.
  - apply pct_shape_gen; [reflexivity | exact urlencode_unencoded | exact Hb].
  - apply pct_shape_gen; [reflexivity | exact urlencode_strict_unencoded | exact Hb].
Qed.

(* ------------------------------------------------------------------------------ slug *)

Definition nodd (l : list N) : Prop := forall l1 l2, l <> l1 ++ 45 :: 45 :: l2.

Definition slug_inv (st : list N * bool) : Prop :=
  let '(acc, pd) := st in
  Forall (fun c => is_slug_char c = true) acc /\
  (pd = true <-> (acc = [] \/ exists t, acc = 45 :: t)) /\
  nodd acc /\
  last acc 0 <> 45.

Lemma nodd_cons x l : nodd l -> (x = 45 -> hd 0 l <> 45 \/ l = []) -> nodd (x :: l).
Proof.
  intros Hn Hx l1 l2 E. destruct l1 as [|y l1]; cbn in E.
  - injection E as -> ->. destruct (Hx eq_refl) as [H|H]; [now apply H | discriminate].
  - injection E as -> E. now apply (Hn l1 l2).
Qed.

Lemma last_cons_ne (x : N) l d : l <> [] -> last (x :: l) d = last l d.
Proof. destruct l; [congruence | reflexivity]. Qed.

Lemma slug_push_inv st x : slug_inv st -> slug_inv (slug_push st x).
Proof.
  destruct st as [acc pd]. intros (Hf & Hpd & Hn & Hl). unfold slug_push.
  assert (Hkeep : forall y, is_slug_char y = true -> y <> 45 -> slug_inv (y :: acc, false)).
  { intros y Hy Hne. repeat split.
    - constructor; assumption.
    - discriminate.
    - intros [E|[t E]]; [discriminate | injection E as E _; contradiction].
    - apply nodd_cons; [assumption | intros; contradiction].
    - destruct acc as [|a acc']; [exact Hne | rewrite last_cons_ne by discriminate; exact Hl]. }
  destruct (in_range 97 122 x || in_range 48 57 x) eqn:E1.
  { apply Hkeep.
    - unfold is_slug_char, is_lower, is_digit. rewrite orb_true_iff in E1. destruct E1 as [E|E]; rewrite E; rewrite ?orb_true_r; reflexivity.
    - intros ->. vm_compute in E1. discriminate. }
  destruct (in_range 65 90 x) eqn:E2.
  { unfold in_range in E2. apply andb_true_iff in E2. destruct E2 as [Ha Hb].
    apply N.leb_le in Ha, Hb. apply Hkeep.
    - unfold is_slug_char, is_lower, in_range.
      replace (97 <=? x - 65 + 97) with true by (symmetry; apply N.leb_le; lia).
      replace (x - 65 + 97 <=? 122) with true by (symmetry; apply N.leb_le; lia). reflexivity.
    - lia. }
  destruct pd.
  { repeat split; try assumption; apply Hpd. }
  { assert (Hne : acc <> [] /\ hd 0 acc <> 45).
    { split.
      - intros ->. destruct Hpd as [_ Hpd]. specialize (Hpd (or_introl eq_refl)). discriminate.
      - intros E. destruct acc as [|a acc']; [cbn in E; discriminate|]. cbn in E. subst a.
        destruct Hpd as [_ Hpd]. specialize (Hpd (or_intror (ex_intro _ acc' eq_refl))). discriminate. }
    destruct Hne as [Hne Hhd]. repeat split.
    - constructor; [reflexivity | assumption].
    - intros _. right. now exists acc.
    - apply nodd_cons; [assumption | intros _; now left].
    - rewrite last_cons_ne by assumption. exact Hl. }
Qed.

Lemma slug_fold_inv l st : slug_inv st -> slug_inv (fold_left slug_push l st).
Proof. revert st. induction l as [|x l IH]; intros st H; [exact H | cbn; apply IH, slug_push_inv, H]. Qed.

Lemma hd_rev (l : list N) d : hd d (rev l) = last l d.
Proof.
  induction l as [|x l IH]; [reflexivity|].
  cbn [rev]. destruct l as [|y l']; [reflexivity|].
  rewrite last_cons_ne by discriminate. rewrite <- IH. cbn [rev].
  destruct (rev l' ++ [y]) eqn:E; [destruct (rev l'); discriminate | reflexivity].
Qed.

Lemma last_rev (l : list N) d : last (rev l) d = hd d l.
Proof. rewrite <- (rev_involutive l) at 2. now rewrite hd_rev. Qed.

Lemma nodd_rev l : nodd l -> nodd (rev l).
Proof.
  intros H l1 l2 E. apply (f_equal (@rev N)) in E. rewrite rev_involutive in E.
  rewrite rev_app_distr in E. cbn [rev] in E. rewrite <- !app_assoc in E. cbn [app] in E.
  exact (H _ _ E).
Qed.

Lemma slug_alphabet_gen deu s :
  let out := slugify deu s in
  Forall (fun c => is_slug_char c = true) out /\ hd 0 out <> 45 /\ last out 0 <> 45 /\ nodd out.
Proof.
  unfold slugify.
  pose proof (slug_fold_inv (flat_map (slug_char_bytes deu) s) ([], true)) as H.
  destruct (fold_left slug_push (flat_map (slug_char_bytes deu) s) ([], true)) as [acc pd].
  assert (H0 : slug_inv ([], true)).
  { repeat split; try constructor; auto; try discriminate.
    intros l1 l2 E. destruct l1; discriminate. }
  specialize (H H0). destruct H as (Hf & Hpd & Hn & Hl). cbv zeta.
  assert (Hcase : (exists t, acc = 45 :: t /\ t <> [] /\ hd 0 t <> 45) \/ hd 0 acc <> 45).
  { destruct acc as [|a t]; [right; cbn; discriminate|].
    destruct (N.eq_dec a 45) as [->|Hne]; [left | right; exact Hne].
    exists t. split; [reflexivity|]. split.
    - intros ->. now apply Hl.
    - intros E. destruct t as [|b t']; [cbn in E; discriminate|]. cbn in E. subst b.
      now apply (Hn [] t'). }
  destruct Hcase as [(t & -> & Ht & Hh)|Hh].
  - repeat split.
    + apply Forall_rev. now inversion Hf.
    + rewrite hd_rev. rewrite last_cons_ne in Hl by assumption. exact Hl.
    + rewrite last_rev. exact Hh.
    + apply nodd_rev. intros l1 l2 E. apply (Hn (45 :: l1) l2). cbn. now f_equal.
  - assert (E : match acc with 45 :: t => t | _ => acc end = acc).
    { destruct acc as [|a t]; [reflexivity|]. cbn in Hh.
      destruct a as [|p]; [reflexivity|]. repeat (destruct p as [p|p|]; try reflexivity); now exfalso. }
    rewrite E. repeat split.
    + now apply Forall_rev.
    + rewrite hd_rev. exact Hl.
    + rewrite last_rev. exact Hh.
    + now apply nodd_rev.
Qed.

Lemma pct_sets_exact b :
  (should_percent_encode urlencode_chain b = false <-> is_unreserved b || (b =? 47) = true) /\
  (is_alnum b = true -> should_percent_encode urlencode_strict_chain b = false) /\
  (should_percent_encode urlencode_strict_chain b = false -> is_unreserved b || false = true).
Proof.
  split; [split; [apply urlencode_unencoded | apply urlencode_keeps]|].
  split; [apply urlencode_strict_keeps | apply urlencode_strict_unencoded].
Qed.
