(* Lemmas for C16: contracts of the collection filters of Model/CollFilters.v. *)
From Coq Require Import List ZArith NArith Bool Lia Permutation Sorted.
From TeraV Require Import Model.Value Gen.OrderTables Model.Order Model.CollFilters Proofs.OrderProofs.
Import ListNotations.
Open Scope Z_scope.

(* ================================================================== split / join *)
Lemma is_prefix_app p s : is_prefix p s = true -> s = p ++ skipn (length p) s.
Proof.
  revert s; induction p as [|a p IH]; intros s H; cbn in *; trivial.
  destruct s as [|b s]; try discriminate.
  apply andb_true_iff in H as [E H]. apply N.eqb_eq in E. subst. f_equal. apply IH; trivial.
Qed.

Lemma is_prefix_length p s : is_prefix p s = true -> (length p <= length s)%nat.
Proof.
  revert s; induction p as [|a p IH]; intros s H; cbn in *; try lia.
  destruct s as [|b s]; try discriminate. apply andb_true_iff in H as [_ H]. cbn. apply IH in H. lia.
Qed.

Lemma split_go_nonempty p s cur k : split_go p s cur k <> [].
Proof.
  revert cur k; induction s as [|c t IH]; intros cur k; cbn; try discriminate.
  destruct k; auto. destruct (is_prefix p (c :: t)); try discriminate. auto.
Qed.

Lemma join_cons sep x l : l <> [] -> join_strs sep (x :: l) = x ++ sep ++ join_strs sep l.
Proof. destruct l; [congruence | reflexivity]. Qed.

Lemma split_go_join p s : p <> [] -> forall cur k, (k <= length s)%nat ->
  join_strs p (split_go p s cur k) = rev cur ++ skipn k s.
Proof.
  intros Hp. induction s as [|c t IH]; intros cur k Hk; cbn in *.
  - assert (k = 0)%nat by lia. subst. cbn. rewrite app_nil_r. reflexivity.
  - destruct k as [|k].
    + destruct (is_prefix p (c :: t)) eqn:E.
      * rewrite join_cons by apply split_go_nonempty.
        pose proof (is_prefix_length _ _ E) as L. pose proof (is_prefix_app _ _ E) as A.
        destruct p as [|a p']; try congruence. cbn [length] in *.
        rewrite IH by (cbn in L; lia). cbn [rev app]. cbn. f_equal.
        rewrite Nat.sub_0_r. cbn in A. symmetry. exact A.
      * rewrite IH by lia. cbn. rewrite <- app_assoc. reflexivity.
    + rewrite IH by lia. reflexivity.
Qed.

Lemma join_empty_sep_chars (s : str) : join_strs [] (map (fun c => [c]) s ++ [[]]) = s.
Proof.
  induction s as [|c t IH]; [reflexivity|]. cbn [map app].
  rewrite join_cons by (destruct (map (fun c0 : N => [c0]) t); discriminate).
  cbn [app]. rewrite IH. reflexivity.
Qed.

Theorem split_join_id s p : join_strs p (str_split s p) = s.
Proof.
  destruct p as [|a p].
  - cbn [str_split]. rewrite join_cons.
    + cbn. apply join_empty_sep_chars.
    + destruct (map (fun c => [c]) s); discriminate.
  - unfold str_split. rewrite split_go_join; [reflexivity | discriminate | lia].
Qed.

(* through the filters: `s | split(pat=p) | join(sep=p)` is s as a normal string *)
Lemma strs_of_strs l : strs_of (map (fun x => VStr x false) l) = Some l.
Proof. induction l as [|x t IH]; cbn; trivial. rewrite IH. reflexivity. Qed.

Theorem filter_split_join s f p g :
  res_bind (filter_split (VStr s f) (VStr p g))
    (fun r => match r with VArr l => filter_join l (Some (VStr p g)) | _ => RErr ErrOther end)
  = ROk (VStr s false).
Proof. cbn. rewrite strs_of_strs, split_join_id. reflexivity. Qed.

(* ================================================================== reverse / first / last / nth / length *)
Theorem reverse_involutive :
  (forall l, res_bind (filter_reverse (VArr l)) filter_reverse = ROk (VArr l)) /\
  (forall s f, res_bind (filter_reverse (VStr s f)) filter_reverse = ROk (VStr s false)).
Proof. split; intros; cbn; rewrite rev_involutive; reflexivity. Qed.

Lemma filter_last_nth (l : list value) :
  filter_last l = match nth_error l (length l - 1) with Some x => x | None => VNone end.
Proof.
  unfold filter_last. induction l as [|x t IH]; cbn; trivial.
  destruct t as [|y t']; cbn; trivial. cbn in IH. rewrite Nat.sub_0_r in IH. exact IH.
Qed.

Lemma last_rev_first (l : list value) : filter_first (rev l) = filter_last l.
Proof.
  unfold filter_last. induction l as [|x t IH]; cbn; trivial.
  destruct t as [|y t']; cbn in *; trivial.
  destruct (rev t' ++ [y]) eqn:E; cbn in *.
  - destruct (rev t'); discriminate.
  - exact IH.
Qed.

(* lists are shorter than 2^64 (a Vec has fewer than 2^63 elements) *)
Theorem access_consistent (l : list value) : Z.of_nat (length l) < two64 ->
  filter_length (VArr l) = ROk (VInt U64 (Z.of_nat (length l))) /\
  filter_first l = match nth_error l 0 with Some x => x | None => VNone end /\
  filter_last l = match nth_error l (length l - 1) with Some x => x | None => VNone end /\
  (forall r z, in_u64 z = true ->
     filter_nth l (VInt r z) = ROk (match nth_error l (Z.to_nat z) with Some x => x | None => VNone end)) /\
  (forall r z, in_u64 z = false -> filter_nth l (VInt r z) = RErr ErrMsg) /\
  (forall r, filter_nth l (VInt r 0) = ROk (filter_first l)) /\
  (forall r, l <> [] -> filter_nth l (VInt r (Z.of_nat (length l - 1))) = ROk (filter_last l)) /\
  (forall r z, Z.of_nat (length l) <= z -> in_u64 z = true -> filter_nth l (VInt r z) = ROk VNone) /\
  filter_first (rev l) = filter_last l /\
  filter_reverse (VArr l) = ROk (VArr (rev l)) /\
  filter_length (VArr (rev l)) = filter_length (VArr l).
Proof.
  intros Hlen.
  split; [reflexivity|]. split; [destruct l; reflexivity|]. split; [apply filter_last_nth|].
  assert (Nth : forall r z, in_u64 z = true ->
     filter_nth l (VInt r z) = ROk (match nth_error l (Z.to_nat z) with Some x => x | None => VNone end)).
  { intros r z Hz. unfold filter_nth. cbn. rewrite Hz.
    destruct (z <? Z.of_nat (length l)) eqn:E; trivial. apply Z.ltb_ge in E.
    assert (Q : nth_error l (Z.to_nat z) = None) by (apply nth_error_None; lia). rewrite Q. reflexivity. }
  split; [exact Nth|].
  split; [intros r z Hz; unfold filter_nth; cbn; rewrite Hz; reflexivity|].
  split; [intros r; rewrite Nth by reflexivity; destruct l; reflexivity|].
  split.
  { intros r Hl. rewrite Nth.
    - rewrite Nat2Z.id, filter_last_nth. reflexivity.
    - unfold in_u64. apply andb_true_iff. split; [apply Z.leb_le | apply Z.ltb_lt]; lia. }
  split.
  { intros r z Hz Hu. rewrite Nth by assumption.
    assert (E : nth_error l (Z.to_nat z) = None) by (apply nth_error_None; lia).
    rewrite E. reflexivity. }
  split; [apply last_rev_first|]. split; [reflexivity|].
  cbn. rewrite rev_length. reflexivity.
Qed.

(* ================================================================== sort *)
Section SortLaws.
  Context {A : Type}.
  Variable key : A -> value.
  Definition kle (a b : A) : Prop := vle (key a) (key b).

  Lemma insert_by_perm x l : Permutation (insert_by key x l) (x :: l).
  Proof.
    induction l as [|y t IH]; cbn; trivial.
    destruct (vcmp (key x) (key y)); trivial. rewrite IH. apply perm_swap.
  Qed.

  Lemma sort_by_perm l : Permutation (sort_by key l) l.
  Proof.
    induction l as [|x t IH]; cbn; trivial. rewrite insert_by_perm. constructor. exact IH.
  Qed.

  Lemma insert_by_sorted x l : wf (key x) -> Forall (fun y => wf (key y)) l ->
    StronglySorted kle l -> StronglySorted kle (insert_by key x l).
  Proof.
    intros Wx. induction l as [|y t IH]; cbn; intros Wl Hs.
    - repeat constructor.
    - inversion Wl as [|? ? Wy Wt]; subst. inversion Hs as [|? ? Hs' Hall]; subst.
      destruct (vcmp (key x) (key y)) eqn:E.
      + constructor; trivial. constructor.
        * unfold kle, vle. rewrite E. discriminate.
        * rewrite Forall_forall in *. intros z Hz. unfold kle, vle in *.
          pose proof (vcmp_tr (key x) (key y) (key z) Wx Wy (Wt z Hz)) as T. rewrite E in T.
          rewrite T. apply Hall; trivial.
      + constructor; trivial. constructor.
        * unfold kle, vle. rewrite E. discriminate.
        * rewrite Forall_forall in *. intros z Hz. unfold kle, vle in *.
          pose proof (vcmp_tr (key x) (key y) (key z) Wx Wy (Wt z Hz)) as T. rewrite E in T.
          specialize (Hall z Hz). destruct (vcmp (key y) (key z)); cbn in T; congruence.
      + constructor.
        * apply IH; trivial.
        * rewrite Forall_forall in *. intros z Hz.
          apply (Permutation_in _ (insert_by_perm x t)) in Hz. destruct Hz as [<-|Hz].
          -- unfold kle, vle. rewrite (vcmp_opp (key x) (key y)), E; trivial. discriminate.
          -- apply Hall; trivial.
  Qed.

  Lemma sort_by_sorted l : Forall (fun y => wf (key y)) l -> StronglySorted kle (sort_by key l).
  Proof.
    induction l as [|x t IH]; cbn; intros Wl.
    - constructor.
    - inversion Wl; subst. apply insert_by_sorted; trivial.
      + rewrite Forall_forall in *. intros y Hy. apply H2.
        apply (Permutation_in _ (sort_by_perm t)); trivial.
      + apply IH; trivial.
  Qed.

  (* stability: the elements whose key is Equal to k keep their input order *)
  Definition same_key (k : value) (x : A) : bool := cmp_is_eq (vcmp (key x) k).

  Lemma insert_by_stable k x l : wf k -> wf (key x) -> Forall (fun y => wf (key y)) l ->
    filter (same_key k) (insert_by key x l) = filter (same_key k) (x :: l).
  Proof.
    intros Wk Wx. induction l as [|y t IH]; intros Wl; trivial.
    inversion Wl as [|? ? Wy Wt]; subst. cbn [insert_by].
    destruct (vcmp (key x) (key y)) eqn:E; trivial.
    cbn [filter]. rewrite (IH Wt). cbn [filter].
    destruct (same_key k x) eqn:Px, (same_key k y) eqn:Py; trivial.
    exfalso. unfold same_key, cmp_is_eq in Px, Py.
    destruct (vcmp (key x) k) eqn:Ex; try discriminate.
    destruct (vcmp (key y) k) eqn:Ey; try discriminate.
    pose proof (vcmp_tr (key x) k (key y) Wx Wk Wy) as T. rewrite Ex in T. cbn in T.
    rewrite (vcmp_opp (key y) k Wy Wk), Ey in T. cbn in T. congruence.
  Qed.

  Lemma sort_by_stable k l : wf k -> Forall (fun y => wf (key y)) l ->
    filter (same_key k) (sort_by key l) = filter (same_key k) l.
  Proof.
    intros Wk. induction l as [|x t IH]; intros Wl; trivial.
    inversion Wl as [|? ? Wx Wt]; subst. cbn [sort_by fold_right]. fold (sort_by key t).
    rewrite insert_by_stable; trivial.
    - cbn [filter]. rewrite (IH Wt). reflexivity.
    - rewrite Forall_forall in *. intros y Hy. apply Wt.
      apply (Permutation_in _ (sort_by_perm t)); trivial.
  Qed.
End SortLaws.

(* ================================================================== comparability *)
Definition cmpb (a b : value) : bool := match vpcmp a b with Some _ => true | None => false end.

Lemma vpcmp_map_l m b : vpcmp (VMap m) b = None.
Proof. destruct b; reflexivity. Qed.
Lemma vpcmp_map_r a m : vpcmp a (VMap m) = None.
Proof. destruct a; reflexivity. Qed.

Lemma cmpb_rank a b : wf a -> wf b -> cmpb a b = true -> rank a = rank b.
Proof.
  intros Wa Wb H. destruct (N.eq_dec (rank a) (rank b)) as [e|n]; trivial.
  destruct (diff_rank a b Wa Wb n) as [_ [_ E]]. unfold cmpb in H. rewrite E in H. discriminate.
Qed.

Lemma cmpb_scalar a b x y : wf a -> wf b -> sk a = Some x -> sk b = Some y ->
  cmpb a b = N.eqb (srank x) (srank y).
Proof.
  intros Wa Wb Ha Hb. unfold cmpb. rewrite (vpcmp_sk a b x y) by assumption.
  destruct (N.eqb (srank x) (srank y)); reflexivity.
Qed.

(* partial_cmp is antisymmetric too *)
Lemma list_pcmp_opp l : Forall (fun x => forall y, wf y -> vpcmp y x = option_map CompOpp (vpcmp x y)) l ->
  forall l', Forall wf l' -> list_pcmp vpcmp l' l = option_map CompOpp (list_pcmp vpcmp l l').
Proof.
  induction 1 as [|x t Hx Ht IH]; intros l' Wl'; destruct l' as [|y t']; cbn; trivial.
  inversion Wl'; subst. rewrite (Hx y) by assumption.
  destruct (vpcmp x y) as [[]|]; cbn; auto.
Qed.

Lemma vpcmp_opp : forall a, wf a -> forall b, wf b -> vpcmp b a = option_map CompOpp (vpcmp a b).
Proof.
  assert (S : forall a x, sk a = Some x -> wf a -> forall b, wf b -> vpcmp b a = option_map CompOpp (vpcmp a b)).
  { intros a x Ha Wa b Wb.
    destruct (N.eq_dec (rank a) (rank b)) as [e|n].
    - destruct (sk_same_rank _ _ _ Ha e) as [y Hb].
      rewrite (vpcmp_sk a b x y), (vpcmp_sk b a y x) by assumption.
      rewrite (N.eqb_sym (srank y) (srank x)). destruct (N.eqb (srank x) (srank y)); cbn; trivial.
      rewrite scmp_opp. reflexivity.
    - destruct (diff_rank a b Wa Wb n) as [_ [_ E1]].
      destruct (diff_rank b a Wb Wa (not_eq_sym n)) as [_ [_ E2]]. rewrite E1, E2. reflexivity. }
  apply (value_ind' (fun a => wf a -> forall b, wf b -> vpcmp b a = option_map CompOpp (vpcmp a b))).
  1-6, 9: intros; eapply S; eauto; reflexivity.
  - intros l IH Wa b Wb.
    destruct (N.eq_dec (rank (VArr l)) (rank b)) as [e|n].
    + destruct (rank_arr_inv _ _ (eq_sym e)) as [l' ->]. apply wf_arr in Wa, Wb. cbn [vpcmp].
      apply list_pcmp_opp; trivial. rewrite Forall_forall in *. intros x Hx y Wy. apply IH; auto.
    + destruct (diff_rank _ b Wa Wb n) as [_ [_ E1]].
      destruct (diff_rank b _ Wb Wa (not_eq_sym n)) as [_ [_ E2]]. rewrite E1, E2. reflexivity.
  - intros m IH Wa b Wb. rewrite vpcmp_map_l, vpcmp_map_r. reflexivity.
Qed.

Lemma cmpb_sym a b : wf a -> wf b -> cmpb b a = cmpb a b.
Proof. intros Wa Wb. unfold cmpb. rewrite (vpcmp_opp a Wa b Wb). destruct (vpcmp a b); reflexivity. Qed.

(* convexity: between two comparable neighbours in `cmp` order nothing incomparable hides *)
Definition convex (a : value) : Prop :=
  wf a -> forall b c, wf b -> wf c -> vle a b -> vle b c ->
  cmpb a b = true -> cmpb b c = true -> cmpb a c = true.

Lemma convex_scalar a x : sk a = Some x -> convex a.
Proof.
  intros Ha Wa b c Wb Wc _ _ Cab Cbc.
  pose proof (cmpb_rank a b Wa Wb Cab) as e1. pose proof (cmpb_rank b c Wb Wc Cbc) as e2.
  destruct (sk_same_rank _ _ _ Ha e1) as [y Hb]. destruct (sk_same_rank _ _ _ Hb e2) as [z Hc].
  rewrite (cmpb_scalar a c x z) by assumption.
  rewrite (cmpb_scalar a b x y) in Cab by assumption. rewrite (cmpb_scalar b c y z) in Cbc by assumption.
  apply N.eqb_eq in Cab, Cbc. apply N.eqb_eq. congruence.
Qed.

Lemma convex_list la : Forall convex la -> Forall wf la ->
  forall lb lc, Forall wf lb -> Forall wf lc ->
  list_cmp vcmp la lb <> Gt -> list_cmp vcmp lb lc <> Gt ->
  list_pcmp vpcmp la lb <> None -> list_pcmp vpcmp lb lc <> None ->
  list_pcmp vpcmp la lc <> None.
Proof.
  induction 1 as [|x ta Hx Ht IH]; intros Wla lb lc Wlb Wlc Hab Hbc Cab Cbc.
  - destruct lc; cbn; discriminate.
  - destruct lb as [|y tb]; [cbn in Hab; congruence|].
    destruct lc as [|z tc]; [cbn in Hbc; congruence|].
    inversion Wla as [|? ? Wx Wta]; inversion Wlb as [|? ? Wy Wtb]; inversion Wlc as [|? ? Wz Wtc]; subst.
    cbn in Hab, Hbc, Cab, Cbc |- *.
    destruct (vpcmp x y) as [rxy|] eqn:Pxy; [|congruence].
    destruct (vpcmp y z) as [ryz|] eqn:Pyz; [|congruence].
    pose proof (vpcmp_some_vcmp x Wx y Wy _ Pxy) as Vxy.
    pose proof (vpcmp_some_vcmp y Wy z Wz _ Pyz) as Vyz.
    rewrite Vxy in Hab. rewrite Vyz in Hbc.
    assert (Lxy : vle x y) by (unfold vle; rewrite Vxy; destruct rxy; congruence).
    assert (Lyz : vle y z) by (unfold vle; rewrite Vyz; destruct ryz; congruence).
    assert (Cxz : cmpb x z = true).
    { apply (Hx Wx y z); trivial; unfold cmpb; rewrite ?Pxy, ?Pyz; reflexivity. }
    unfold cmpb in Cxz. destruct (vpcmp x z) as [rxz|] eqn:Pxz; [|discriminate].
    destruct rxz; try discriminate.
    pose proof (vpcmp_some_vcmp x Wx z Wz _ Pxz) as Vxz.
    pose proof (vcmp_tr x y z Wx Wy Wz) as T. rewrite Vxy, Vyz, Vxz in T.
    destruct rxy, ryz; cbn in T; try discriminate; try congruence.
    apply (IH Wta tb tc); trivial.
Qed.

Theorem vpcmp_convex : forall a, convex a.
Proof.
  apply value_ind'; intros.
  1-6, 9: eapply convex_scalar; reflexivity.
  - intros Wa b c Wb Wc Lab Lbc Cab Cbc.
    pose proof (cmpb_rank _ b Wa Wb Cab) as e1. pose proof (cmpb_rank b c Wb Wc Cbc) as e2.
    destruct (rank_arr_inv _ _ (eq_sym e1)) as [lb ->].
    destruct (rank_arr_inv _ _ (eq_sym e2)) as [lc ->].
    apply wf_arr in Wa, Wb, Wc. unfold vle in Lab, Lbc. rewrite vcmp_arr in Lab, Lbc.
    unfold cmpb in *. cbn [vpcmp] in *.
    destruct (list_pcmp vpcmp l lc) eqn:E; trivial. exfalso.
    apply (convex_list l H Wa lb lc); trivial.
    + destruct (list_pcmp vpcmp l lb); congruence.
    + destruct (list_pcmp vpcmp lb lc); congruence.
  - intros Wa b c Wb Wc _ _ Cab _. unfold cmpb in Cab. rewrite vpcmp_map_l in Cab. discriminate.
Qed.

(* `cmp` order is monotone in the kind rank *)
Lemma vle_rank a b : wf a -> wf b -> vle a b -> (rank a <= rank b)%N.
Proof.
  intros Wa Wb L. destruct (N.eq_dec (rank a) (rank b)) as [e|n]; [lia|].
  destruct (diff_rank a b Wa Wb n) as [E _]. unfold vle in L. rewrite E in L.
  destruct (N.compare_spec (rank a) (rank b)); try lia. congruence.
Qed.

(* a value that sorts in front of `none`: bool, number, string, array, map, bytes *)
Definition regular (v : value) : Prop := (rank v < rank VNone)%N.

Lemma regular_not_none v : regular v -> is_none v = false.
Proof. destruct v; cbn; trivial. unfold regular. lia. Qed.

Lemma ensure_comparable_cons a b t :
  ensure_comparable (a :: b :: t) =
    if negb (is_none a || is_none b) && negb (cmpb a b) then false else ensure_comparable (b :: t).
Proof. cbn [ensure_comparable]. unfold cmpb. destruct (vpcmp a b); reflexivity. Qed.

(* in a `cmp`-sorted list accepted by ensure_comparable, the head is comparable with every later
   regular element (if it is regular itself) *)
Lemma chain_regular t : forall a, Forall wf (a :: t) -> StronglySorted vle (a :: t) ->
  ensure_comparable (a :: t) = true -> regular a ->
  Forall (fun z => regular z -> cmpb a z = true) t.
Proof.
  induction t as [|b t' IH]; intros a Wl Hs He Ra; constructor.
  - intros Rb. rewrite ensure_comparable_cons in He.
    rewrite (regular_not_none a Ra), (regular_not_none b Rb) in He. cbn [negb orb andb] in He.
    destruct (cmpb a b); trivial; discriminate.
  - inversion Wl as [|? ? Wa Wt]; subst. inversion Wt as [|? ? Wb Wt']; subst.
    inversion Hs as [|? ? Hs' Ha]; subst. inversion Hs' as [|? ? Hs'' Hb]; subst.
    rewrite ensure_comparable_cons in He.
    apply Forall_forall. intros z Hz Rz.
    assert (Wz : wf z) by (rewrite Forall_forall in Wt'; auto).
    assert (Lab : vle a b) by (rewrite Forall_forall in Ha; apply Ha; cbn; auto).
    assert (Lbz : vle b z) by (rewrite Forall_forall in Hb; auto).
    assert (Rb : regular b).
    { unfold regular in *. pose proof (vle_rank b z Wb Wz Lbz). lia. }
    rewrite (regular_not_none a Ra), (regular_not_none b Rb) in He. cbn [negb orb andb] in He.
    destruct (cmpb a b) eqn:Cab; try discriminate. cbn [negb] in He.
    assert (Cbz : cmpb b z = true).
    { pose proof (IH b Wt Hs' He Rb) as F. rewrite Forall_forall in F. apply F; trivial. }
    apply (vpcmp_convex a Wa b z); trivial.
Qed.

Lemma chain_no_none t : forall a, Forall wf (a :: t) -> StronglySorted vle (a :: t) ->
  ensure_comparable (a :: t) = true -> Forall (fun v => is_none v = false) (a :: t) ->
  Forall (fun z => cmpb a z = true) t.
Proof.
  induction t as [|b t' IH]; intros a Wl Hs He Nn; constructor.
  - rewrite ensure_comparable_cons in He. inversion Nn as [|? ? Na Nt]; subst. inversion Nt as [|? ? Nb Nt']; subst.
    rewrite Na, Nb in He. cbn [negb orb andb] in He. destruct (cmpb a b); trivial; discriminate.
  - inversion Wl as [|? ? Wa Wt]; subst. inversion Wt as [|? ? Wb Wt']; subst.
    inversion Hs as [|? ? Hs' Ha]; subst. inversion Hs' as [|? ? Hs'' Hb]; subst.
    inversion Nn as [|? ? Na Nt]; subst. inversion Nt as [|? ? Nb Nt']; subst.
    rewrite ensure_comparable_cons in He. rewrite Na, Nb in He. cbn [negb orb andb] in He.
    destruct (cmpb a b) eqn:Cab; try discriminate. cbn [negb] in He.
    pose proof (IH b Wt Hs' He Nt) as F.
    apply Forall_forall. intros z Hz.
    assert (Wz : wf z) by (rewrite Forall_forall in Wt'; auto).
    apply (vpcmp_convex a Wa b z); trivial.
    + rewrite Forall_forall in Ha; apply Ha; cbn; auto.
    + rewrite Forall_forall in Hb; auto.
    + rewrite Forall_forall in F; auto.
Qed.

Lemma ensure_comparable_tail a t : ensure_comparable (a :: t) = true -> ensure_comparable t = true.
Proof.
  destruct t as [|b t']; trivial. rewrite ensure_comparable_cons.
  destruct (negb (is_none a || is_none b) && negb (cmpb a b)); congruence.
Qed.

(* all pairs (at different positions) of a sorted accepted list *)
Definition reg_cmp (x y : value) : Prop := regular x -> regular y -> cmpb x y = true.
Definition all_cmp (x y : value) : Prop := cmpb x y = true.

Lemma accepted_pairs l : Forall wf l -> StronglySorted vle l -> ensure_comparable l = true ->
  ForallOrdPairs reg_cmp l /\
  (Forall (fun v => is_none v = false) l -> ForallOrdPairs all_cmp l).
Proof.
  induction l as [|a t IH]; intros Wl Hs He.
  - split; intros; constructor.
  - inversion Wl as [|? ? Wa Wt]; subst. inversion Hs as [|? ? Hs' Ha]; subst.
    destruct (IH Wt Hs' (ensure_comparable_tail _ _ He)) as [I1 I2]. split.
    + constructor; trivial. apply Forall_forall. intros z Hz Ra Rz.
      pose proof (chain_regular t a Wl Hs He Ra) as F. rewrite Forall_forall in F. apply F; trivial.
    + intros Nn. inversion Nn; subst. constructor; auto.
      apply (chain_no_none t a Wl Hs He Nn).
Qed.

Lemma FOP_perm {A} (R : A -> A -> Prop) l l' : (forall x y, R x y -> R y x) ->
  Permutation l l' -> ForallOrdPairs R l -> ForallOrdPairs R l'.
Proof.
  intros Sym P. induction P as [|x l l' P IH|x y l|l l' l'' P1 IH1 P2 IH2]; intros H; trivial.
  - inversion H; subst. constructor; auto. eapply Permutation_Forall; eauto.
  - inversion H as [|? ? Hy Ht]; subst. inversion Ht as [|? ? Hx Ht']; subst. inversion Hy; subst.
    constructor; [constructor; auto|constructor; auto].
  - auto.
Qed.

(* ================================================================== sort: the filter *)
Lemma StronglySorted_map {A} (key : A -> value) l :
  StronglySorted (kle key) l -> StronglySorted vle (map key l).
Proof.
  induction 1 as [|x t Hs IH Hall]; cbn; constructor; trivial.
  rewrite Forall_forall in *. intros k Hk. apply in_map_iff in Hk as [y [<- Hy]]. apply Hall; trivial.
Qed.

Lemma path_walk_wf path : forall v k, wf v -> path_walk v path = Some k -> wf k.
Proof.
  induction path as [|[n|s] rest IH]; intros v k Wv H; cbn in H.
  - inversion H; subst; trivial.
  - destruct v; try discriminate. destruct (nth_error l n) as [x|] eqn:E; try discriminate.
    apply (IH x); trivial. apply wf_arr in Wv. rewrite Forall_forall in Wv. apply Wv.
    eapply nth_error_In; eauto.
  - destruct v; try discriminate. destruct (map_get m (KStr s false)) as [x|] eqn:E; try discriminate.
    apply (IH x); trivial. apply wf_map in Wv as [_ [_ Vw]]. rewrite Forall_forall in Vw.
    destruct (map_get_some _ _ _ E) as [k' [Hin _]]. apply (Vw (k', x)); trivial.
Qed.

Lemma get_from_path_wf v path k : wf v -> get_from_path v path = Some k -> wf k.
Proof.
  intros Wv H. destruct v; cbn in H; try discriminate;
    try (eapply path_walk_wf; eauto; fail).
  inversion H; subst; trivial.
Qed.

Lemma decorate_spec path l d : decorate path l = Some d ->
  map snd d = l /\ Forall (fun kv => get_from_path (snd kv) path = Some (fst kv)) d.
Proof.
  revert d; induction l as [|v t IH]; intros d H; cbn in H.
  - inversion H; subst. split; constructor.
  - destruct (get_from_path v path) as [k|] eqn:E; try discriminate.
    destruct (decorate path t) as [d'|]; try discriminate. inversion H; subst.
    destruct (IH d' eq_refl) as [I1 I2]. split; cbn; [congruence | constructor; trivial].
Qed.

Definition reg_cmp_wf (x y : value) : Prop := wf x -> wf y -> regular x -> regular y -> cmpb x y = true.
Definition all_cmp_wf (x y : value) : Prop := wf x -> wf y -> cmpb x y = true.

(* what an accepted sort says about the (decorated) input: [d] pairs each element with its key *)
Theorem sort_decorated_spec (d : list (value * value)) : Forall (fun kv => wf (fst kv)) d ->
  let s := sort_by fst d in
  Permutation s d /\
  StronglySorted (kle fst) s /\
  (forall k, wf k -> filter (same_key fst k) s = filter (same_key fst k) d) /\
  (ensure_comparable (map fst s) = true ->
     ForallOrdPairs reg_cmp_wf (map fst d) /\
     (Forall (fun v => is_none v = false) (map fst d) -> ForallOrdPairs all_cmp_wf (map fst d))).
Proof.
  intros Wd s.
  assert (P : Permutation s d) by apply sort_by_perm.
  assert (S : StronglySorted (kle fst) s) by (apply sort_by_sorted; trivial).
  split; [trivial|]. split; [trivial|]. split; [intros k Wk; apply sort_by_stable; trivial|].
  intros He.
  assert (Wk : Forall wf (map fst s)).
  { rewrite Forall_map. eapply Permutation_Forall; [apply Permutation_sym; exact P|]. trivial. }
  destruct (accepted_pairs (map fst s) Wk (StronglySorted_map fst s S) He) as [A1 A2].
  assert (Pk : Permutation (map fst s) (map fst d)) by (apply Permutation_map; trivial).
  split.
  - apply (FOP_perm reg_cmp_wf (map fst s)); trivial.
    + intros x y H Wy Wx Ry Rx. rewrite cmpb_sym; auto.
    + revert A1. clear. induction 1 as [|x t Hx Ht IH]; constructor; trivial.
      rewrite Forall_forall in *. intros y Hy _ _. apply Hx; trivial.
  - intros Nn. apply (FOP_perm all_cmp_wf (map fst s)); trivial.
    + intros x y H Wy Wx. rewrite cmpb_sym; auto.
    + assert (Nn' : Forall (fun v => is_none v = false) (map fst s))
        by (eapply Permutation_Forall; [apply Permutation_sym; exact Pk|]; trivial).
      specialize (A2 Nn'). revert A2. clear. induction 1 as [|x t Hx Ht IH]; constructor; trivial.
      rewrite Forall_forall in *. intros y Hy _ _. apply Hx; trivial.
Qed.

(* the filter without `attribute`: elements are their own keys *)
Lemma filter_sort_none l : l <> [] ->
  filter_sort l None =
    if ensure_comparable (sort_by (fun v => v) l) then ROk (sort_by (fun v => v) l) else RErr ErrMsg.
Proof. destruct l; [congruence | reflexivity]. Qed.

Lemma filter_sort_attr l path : l <> [] ->
  filter_sort l (Some path) =
    match decorate path l with
    | None => RErr ErrMsg
    | Some d => if ensure_comparable (map fst (sort_by fst d)) then ROk (map snd (sort_by fst d)) else RErr ErrMsg
    end.
Proof. destruct l; [congruence | reflexivity]. Qed.

Theorem sort_spec l r : Forall wf l -> filter_sort l None = ROk r ->
  Permutation r l /\ StronglySorted vle r /\
  (forall k, wf k -> filter (fun x => cmp_is_eq (vcmp x k)) r = filter (fun x => cmp_is_eq (vcmp x k)) l).
Proof.
  intros Wl H. destruct l as [|a t]; [inversion H; subst; repeat split; constructor|].
  rewrite filter_sort_none in H by discriminate.
  remember (a :: t) as l eqn:El. clear El.
  destruct (ensure_comparable (sort_by (fun v => v) l)); inversion H; subst.
  split; [apply sort_by_perm|]. split.
  - pose proof (sort_by_sorted (fun v : value => v) l Wl) as S.
    rewrite <- (map_id (sort_by (fun v : value => v) l)). apply (StronglySorted_map (fun v => v)); trivial.
  - intros k Wk. apply (sort_by_stable (fun v : value => v)); trivial.
Qed.

Lemma sort_by_id_decorated (l : list value) :
  map fst (sort_by fst (map (fun v : value => (v, v)) l)) = sort_by (fun v => v) l.
Proof.
  induction l as [|x l IH]; trivial.
  cbn [map sort_by fold_right]. fold (sort_by (@fst value value) (map (fun v : value => (v, v)) l)).
  fold (sort_by (fun v : value => v) l). rewrite <- IH.
  generalize (sort_by (@fst value value) (map (fun v : value => (v, v)) l)). intros s.
  induction s as [|y s IHs]; trivial. cbn. destruct (vcmp x (fst y)); cbn; trivial. rewrite IHs. reflexivity.
Qed.

Theorem sort_rejects_incomparable l r : Forall wf l -> filter_sort l None = ROk r ->
  ForallOrdPairs reg_cmp_wf l /\
  (Forall (fun v => is_none v = false) l -> ForallOrdPairs all_cmp_wf l).
Proof.
  intros Wl H. destruct l as [|a t]; [split; intros; constructor|].
  rewrite filter_sort_none in H by discriminate.
  remember (a :: t) as l eqn:El. clear El.
  destruct (ensure_comparable (sort_by (fun v => v) l)) eqn:He; [|discriminate].
  set (d := map (fun v : value => (v, v)) l).
  assert (Wd : Forall (fun kv : value * value => wf (fst kv)) d).
  { unfold d. rewrite Forall_map. cbn. trivial. }
  assert (E1 : map fst d = l) by (unfold d; rewrite map_map; cbn; rewrite map_id; reflexivity).
  assert (E2 : map fst (sort_by fst d) = sort_by (fun v => v) l) by apply sort_by_id_decorated.
  destruct (sort_decorated_spec d Wd) as [_ [_ [_ Q]]]. rewrite E2, E1 in Q. apply Q; trivial.
Qed.

(* with `attribute`: the same contracts on the keys found by get_from_path *)
Theorem sort_attr_spec l path r : Forall wf l -> filter_sort l (Some path) = ROk r -> l <> [] ->
  exists d, decorate path l = Some d /\ map snd d = l /\
    Forall (fun kv => get_from_path (snd kv) path = Some (fst kv)) d /\
    r = map snd (sort_by fst d) /\ Permutation r l /\
    StronglySorted (kle fst) (sort_by fst d) /\
    (forall k, wf k -> filter (same_key fst k) (sort_by fst d) = filter (same_key fst k) d) /\
    ForallOrdPairs reg_cmp_wf (map fst d) /\
    (Forall (fun v => is_none v = false) (map fst d) -> ForallOrdPairs all_cmp_wf (map fst d)).
Proof.
  intros Wl H Hne. rewrite filter_sort_attr in H by assumption.
  destruct (decorate path l) as [d|] eqn:D; [|discriminate].
  destruct (ensure_comparable (map fst (sort_by fst d))) eqn:He; inversion H; subst.
  destruct (decorate_spec _ _ _ D) as [D1 D2].
  assert (Wd : Forall (fun kv : value * value => wf (fst kv)) d).
  { rewrite Forall_forall in *. intros kv Hkv. apply (get_from_path_wf (snd kv) path); auto.
    apply Wl. rewrite <- D1. apply in_map; trivial. }
  destruct (sort_decorated_spec d Wd) as [P [S [St Q]]]. destruct (Q He) as [Q1 Q2].
  exists d. repeat split; trivial.
  rewrite <- D1. apply Permutation_map; trivial.
Qed.

Theorem sort_errors l : l <> [] ->
  (forall path, decorate path l = None -> filter_sort l (Some path) = RErr ErrMsg) /\
  (ensure_comparable (sort_by (fun v => v) l) = false -> filter_sort l None = RErr ErrMsg).
Proof.
  intros Hne. split.
  - intros path D. rewrite filter_sort_attr, D by assumption. reflexivity.
  - intros He. rewrite filter_sort_none, He by assumption. reflexivity.
Qed.

(* ================================================================== unique *)
From TeraV Require Import Spec.CollSpec.

Lemma unique_go_spec l : forall seen pre, Forall wf l -> Forall wf seen -> Forall wf pre ->
  incl seen pre -> (forall p, In p pre -> exists s, In s seen /\ veq s p = true) ->
  unique_go seen l = first_occurrences veq pre l.
Proof.
  destruct veq_equivalence as [Vr [Vs Vt]].
  induction l as [|v t IH]; intros seen pre Wl Ws Wp Hincl Hrep; cbn; trivial.
  inversion Wl as [|? ? Wv Wt]; subst.
  rewrite Forall_forall in Ws, Wp.
  assert (E : existsb (fun s => cmp_is_eq (vcmp v s)) seen = existsb (fun p => veq p v) pre).
  { destruct (existsb (fun p => veq p v) pre) eqn:X.
    - apply existsb_exists in X as [p [Hp Q]]. destruct (Hrep p Hp) as [s [Hs Q2]].
      apply existsb_exists. exists s. split; trivial.
      assert (Q3 : veq v s = true) by (apply Vs; auto; apply (Vt s p v); auto).
      apply vcmp_eq_iff in Q3; auto. rewrite Q3. reflexivity.
    - destruct (existsb (fun s => cmp_is_eq (vcmp v s)) seen) eqn:Y; trivial.
      apply existsb_exists in Y as [s [Hs Q]]. 
      assert (Q1 : vcmp v s = Eq) by (destruct (vcmp v s); cbn in Q; congruence).
      apply vcmp_eq_iff in Q1; auto.
      assert (Z : existsb (fun p => veq p v) pre = true).
      { apply existsb_exists. exists s. split; auto. }
      congruence. }
  rewrite E. destruct (existsb (fun p => veq p v) pre) eqn:X.
  - apply IH; trivial.
    + apply Forall_forall; trivial.
    + apply Forall_forall. intros q Hq. apply in_app_or in Hq as [Hq|[Eq|[]]]; subst; auto.
    + intros s Hs. apply in_or_app. left. auto.
    + intros q Hq. apply in_app_or in Hq as [Hq|[Eq|[]]]; auto. subst q.
      apply existsb_exists in X as [p0 [Hp0 Q]]. destruct (Hrep p0 Hp0) as [s [Hs Q2]].
      exists s. split; trivial. apply (Vt s p0 v); auto.
  - f_equal. apply IH; trivial.
    + apply Forall_forall. intros s [Es|Hs]; subst; auto.
    + apply Forall_forall. intros q Hq. apply in_app_or in Hq as [Hq|[Eq|[]]]; subst; auto.
    + intros s [Es|Hs]; subst; apply in_or_app; [right; cbn; auto | left; auto].
    + intros q Hq. apply in_app_or in Hq as [Hq|[Eq|[]]].
      * destruct (Hrep q Hq) as [s [Hs Q2]]. exists s. split; cbn; auto.
      * subst q. exists v. split; cbn; auto.
Qed.

Theorem unique_spec l : Forall wf l -> filter_unique l = first_occurrences veq [] l.
Proof.
  intros Wl. apply unique_go_spec; trivial; try constructor.
  - intros x [].
  - intros p [].
Qed.

(* ================================================================== keys / values / pairs *)
Theorem keys_values_pairs (m : list (key * value)) :
  length (filter_keys m) = length m /\ length (filter_values m) = length m /\
  filter_pairs m = map (fun kv => VArr [fst kv; snd kv]) (combine (filter_keys m) (filter_values m)) /\
  filter_length (VMap m) = filter_length (VArr (filter_keys m)) /\
  (forall i k v, nth_error (filter_keys m) i = Some k -> nth_error (filter_values m) i = Some v ->
     nth_error (filter_pairs m) i = Some (VArr [k; v])).
Proof.
  unfold filter_keys, filter_values, filter_pairs.
  split; [apply map_length|]. split; [apply map_length|]. split.
  - induction m as [|kv t IH]; cbn; trivial. rewrite IH. reflexivity.
  - split; [cbn; rewrite map_length; reflexivity|].
    induction m as [|kv t IH]; intros i k v Hk Hv; destruct i; cbn in *; try discriminate.
    + inversion Hk; inversion Hv; subst. reflexivity.
    + apply IH; trivial.
Qed.

(* every key returned by `keys` finds, through m[k], the value at the same position of `values` *)
Theorem keys_lookup (m : list (key * value)) : wf (VMap m) ->
  forall i k v, nth_error m i = Some (k, v) -> get_item_map m (key_to_value k) = ROk v.
Proof.
  intros Wm i k v H. apply wf_map in Wm as [Kw [Kd _]].
  assert (Hin : In (k, v) m) by (eapply nth_error_In; eauto).
  assert (Kk : key_wf k = true) by (unfold kwf in Kw; rewrite Forall_forall in Kw; apply (Kw (k, v)); trivial).
  unfold get_item_map.
  assert (A : exists k', as_key (key_to_value k) = Some k' /\ key_norm k' = key_norm k /\ key_wf k' = true).
  { destruct k; cbn; eauto. }
  destruct A as [k' [A1 [A2 A3]]]. rewrite A1.
  rewrite (map_get_unique m k' k v); trivial. apply key_eq_norm; auto.
Qed.

(* ================================================================== group_by *)
Section GroupBy.
  Variable path : list seg.

  (* the key an element is grouped under: its attribute, when present, not none and a key kind *)
  Definition gkey (v : value) : option key :=
    match get_from_path v path with
    | Some x => if is_none x then None else as_key x
    | None => None
    end.
  Definition in_group (k : key) (v : value) : bool :=
    match gkey v with Some k' => key_eq k k' | None => false end.
  (* group_by accepts an element: attribute present, and none or of a key kind *)
  Definition gok (v : value) : bool :=
    match get_from_path v path with
    | Some x => is_none x || match as_key x with Some _ => true | None => false end
    | None => false
    end.

  Lemma gkey_wf v k : wf v -> gkey v = Some k -> key_wf k = true.
  Proof.
    unfold gkey. intros Wv H. destruct (get_from_path v path) as [x|] eqn:E; try discriminate.
    destruct (is_none x); try discriminate.
    apply (as_key_wf x); trivial. eapply get_from_path_wf; eauto.
  Qed.

  Lemma group_push_spec g k v : 
    (map_get g k = None -> group_push g k v = g ++ [(k, [v])]) /\
    (forall vs, map_get g k = Some vs ->
       exists g1 k0 g2, g = g1 ++ (k0, vs) :: g2 /\ key_eq k0 k = true /\
                        group_push g k v = g1 ++ (k0, vs ++ [v]) :: g2).
  Proof.
    induction g as [|[k1 ws] t [IH1 IH2]]; cbn.
    - split; trivial. discriminate.
    - destruct (key_eq k1 k) eqn:E.
      + split; [discriminate|]. intros vs H. inversion H; subst.
        exists [], k1, t. auto.
      + split.
        * intros H. rewrite (IH1 H). reflexivity.
        * intros vs H. destruct (IH2 vs H) as [g1 [k0 [g2 [A [B C]]]]].
          exists ((k1, ws) :: g1), k0, g2. subst t. cbn. rewrite C. auto.
  Qed.

  Definition ginv (g : list (key * list value)) (done : list value) : Prop :=
    kwf g /\ kdist g /\
    (forall k vs, In (k, vs) g -> vs <> [] /\ vs = filter (in_group k) done) /\
    (forall v k', In v done -> gkey v = Some k' -> exists k vs, In (k, vs) g /\ key_eq k k' = true).

  Lemma filter_none {A} (f : A -> bool) l : (forall x, In x l -> f x = false) -> filter f l = [].
  Proof.
    induction l as [|x t IH]; cbn; intros H; trivial.
    rewrite (H x) by auto. apply IH. intros; apply H; auto.
  Qed.

  Lemma key_eq_refl k : key_wf k = true -> key_eq k k = true.
  Proof. intros H. apply key_eq_norm; trivial. Qed.

  Lemma key_eq_trans_false k0 k k' : key_wf k0 = true -> key_wf k = true -> key_wf k' = true ->
    key_eq k0 k' = true -> key_norm k <> key_norm k0 -> key_eq k k' = false.
  Proof.
    intros W0 W W' E N. destruct (key_eq k k') eqn:Q; trivial.
    apply key_eq_norm in E; trivial. apply key_eq_norm in Q; trivial. congruence.
  Qed.

  Lemma ginv_step g done v k' : Forall wf done -> wf v -> ginv g done -> gkey v = Some k' ->
    ginv (group_push g k' v) (done ++ [v]).
  Proof.
    intros Wd Wv [Kw [Kd [Hc Hd]]] Hk.
    pose proof (gkey_wf v k' Wv Hk) as Wk'.
    assert (Kw' : forall k vs, In (k, vs) g -> key_wf k = true).
    { intros k vs Hin. unfold kwf in Kw. rewrite Forall_forall in Kw. apply (Kw (k, vs)); trivial. }
    assert (InV : in_group k' v = true) by (unfold in_group; rewrite Hk; apply key_eq_refl; trivial).
    destruct (group_push_spec g k' v) as [P1 P2].
    destruct (map_get g k') as [vs|] eqn:G.
    - (* appended to an existing group *)
      destruct (P2 vs eq_refl) as [g1 [k0 [g2 [A [B C]]]]]. rewrite C. subst g.
      assert (W0 : key_wf k0 = true) by (apply (Kw' k0 vs); apply in_or_app; cbn; auto).
      assert (SameK : map K (g1 ++ (k0, vs ++ [v]) :: g2) = map K (g1 ++ (k0, vs) :: g2)).
      { rewrite !map_app. reflexivity. }
      split; [|split; [|split]].
      + unfold kwf in *. rewrite Forall_app in *. destruct Kw as [K1 K2]. split; trivial.
        inversion K2; subst. constructor; trivial.
      + unfold kdist. rewrite SameK. exact Kd.
      + intros k ws Hin. apply in_app_or in Hin as [Hin|[Hin|Hin]].
        * destruct (Hc k ws) as [C1 C2]; [apply in_or_app; auto|]. split; trivial.
          rewrite filter_app, <- C2. cbn.
          assert (F : in_group k v = false).
          { unfold in_group. rewrite Hk. apply (key_eq_trans_false k0); trivial.
            - apply (Kw' k ws). apply in_or_app; auto.
            - unfold kdist in Kd. rewrite map_app in Kd. cbn in Kd. apply NoDup_remove_2 in Kd.
              intros Q. apply Kd. apply in_or_app. left. change (K (k0, vs)) with (key_norm k0). rewrite <- Q.
              apply (in_map K _ (k, ws)); trivial. }
          rewrite F. symmetry. apply app_nil_r.
        * inversion Hin; subst k ws. destruct (Hc k0 vs) as [C1 C2]; [apply in_or_app; cbn; auto|].
          split; [destruct vs; discriminate|].
          rewrite filter_app, <- C2. cbn.
          assert (T : in_group k0 v = true) by (unfold in_group; rewrite Hk; trivial).
          rewrite T. reflexivity.
        * destruct (Hc k ws) as [C1 C2]; [apply in_or_app; cbn; auto|]. split; trivial.
          rewrite filter_app, <- C2. cbn.
          assert (F : in_group k v = false).
          { unfold in_group. rewrite Hk. apply (key_eq_trans_false k0); trivial.
            - apply (Kw' k ws). apply in_or_app; cbn; auto.
            - unfold kdist in Kd. rewrite map_app in Kd. cbn in Kd. apply NoDup_remove_2 in Kd.
              intros Q. apply Kd. apply in_or_app. right. change (K (k0, vs)) with (key_norm k0). rewrite <- Q.
              apply (in_map K _ (k, ws)); trivial. }
          rewrite F. symmetry. apply app_nil_r.
      + intros u k'' Hu Hku. apply in_app_or in Hu as [Hu|[<-|[]]].
        * destruct (Hd u k'' Hu Hku) as [k [ws [Hin E]]].
          apply in_app_or in Hin as [Hin|[Hin|Hin]].
          -- exists k, ws. split; trivial. apply in_or_app; auto.
          -- inversion Hin; subst k ws. exists k0, (vs ++ [v]). split; trivial. apply in_or_app; cbn; auto.
          -- exists k, ws. split; trivial. apply in_or_app; cbn; auto.
        * rewrite Hk in Hku. inversion Hku; subst k''.
          exists k0, (vs ++ [v]). split; trivial. apply in_or_app; cbn; auto.
    - (* a new group at the end *)
      rewrite (P1 eq_refl).
      assert (NoK : forall k vs, In (k, vs) g -> key_eq k k' = false) by (intros; eapply map_get_none; eauto).
      split; [|split; [|split]].
      + unfold kwf in *. rewrite Forall_app. split; trivial. repeat constructor. trivial.
      + unfold kdist in *. rewrite map_app. cbn.
        apply (Permutation_NoDup (l := K (k', [v]) :: map K g)).
        * apply Permutation_cons_append.
        * constructor; trivial. intros Hin. apply in_map_iff in Hin as [[k ws] [Q Hin]].
          unfold K in Q; cbn in Q. pose proof (NoK k ws Hin) as F.
          assert (T : key_eq k k' = true) by (apply key_eq_norm; trivial; apply (Kw' k ws); trivial).
          congruence.
      + intros k ws Hin. apply in_app_or in Hin as [Hin|[Hin|[]]].
        * destruct (Hc k ws Hin) as [C1 C2]. split; trivial.
          rewrite filter_app, <- C2. cbn.
          assert (F : in_group k v = false) by (unfold in_group; rewrite Hk; apply (NoK k ws); trivial).
          rewrite F. symmetry. apply app_nil_r.
        * inversion Hin; subst k ws. split; [discriminate|].
          rewrite filter_app. cbn. rewrite InV.
          rewrite filter_none; trivial.
          intros u Hu. unfold in_group. destruct (gkey u) as [k''|] eqn:Hku; trivial.
          destruct (Hd u k'' Hu Hku) as [k [ws [Hin2 E]]].
          destruct (key_eq k' k'') eqn:Q; trivial. exfalso.
          pose proof (NoK k ws Hin2) as F.
          assert (Wk : key_wf k = true) by (apply (Kw' k ws); trivial).
          assert (Wk'' : key_wf k'' = true).
          { rewrite Forall_forall in Wd. apply (gkey_wf u); auto. }
          apply key_eq_norm in E; trivial. apply key_eq_norm in Q; trivial.
          assert (T : key_eq k k' = true) by (apply key_eq_norm; trivial; congruence).
          congruence.
      + intros u k'' Hu Hku. apply in_app_or in Hu as [Hu|[<-|[]]].
        * destruct (Hd u k'' Hu Hku) as [k [ws [Hin E]]]. exists k, ws. split; trivial. apply in_or_app; auto.
        * rewrite Hk in Hku. inversion Hku; subst k''.
          exists k', [v]. split; [apply in_or_app; cbn; auto | apply key_eq_refl; trivial].
  Qed.

  Lemma ginv_skip g done v : ginv g done -> gkey v = None -> ginv g (done ++ [v]).
  Proof.
    intros [Kw [Kd [Hc Hd]]] Hk. split; [|split; [|split]]; trivial.
    - intros k vs Hin. destruct (Hc k vs Hin) as [C1 C2]. split; trivial.
      rewrite filter_app, <- C2. cbn. unfold in_group. rewrite Hk. symmetry. apply app_nil_r.
    - intros u k'' Hu Hku. apply in_app_or in Hu as [Hu|[<-|[]]]; eauto. congruence.
  Qed.

  Lemma group_go_spec l : forall g done g', Forall wf done -> Forall wf l -> ginv g done ->
    group_go path g l = ROk g' -> ginv g' (done ++ l) /\ Forall (fun v => gok v = true) l.
  Proof.
    induction l as [|v t IH]; intros g done g' Wd Wl I H; cbn in H.
    - inversion H; subst. rewrite app_nil_r. split; trivial.
    - inversion Wl as [|? ? Wv Wt]; subst.
      assert (Wd' : Forall wf (done ++ [v])) by (apply Forall_app; split; trivial; repeat constructor; trivial).
      destruct (get_from_path v path) as [x|] eqn:E; try discriminate.
      destruct (is_none x) eqn:N.
      + destruct (IH g (done ++ [v]) g' Wd' Wt) as [I' F]; trivial.
        * apply ginv_skip; trivial. unfold gkey. rewrite E, N. reflexivity.
        * rewrite <- app_assoc in I'. split; trivial. constructor; trivial.
          unfold gok. rewrite E, N. reflexivity.
      + destruct (as_key x) as [k|] eqn:A; try discriminate.
        destruct (IH (group_push g k v) (done ++ [v]) g' Wd' Wt) as [I' F]; trivial.
        * apply ginv_step; trivial. unfold gkey. rewrite E, N. exact A.
        * rewrite <- app_assoc in I'. split; trivial. constructor; trivial.
          unfold gok. rewrite E, N, A. reflexivity.
  Qed.

  Lemma group_go_err l : forall g, (exists v, In v l /\ gok v = false) -> group_go path g l = RErr ErrMsg.
  Proof.
    induction l as [|v t IH]; intros g [u [Hu Hg]]; [contradiction|]. cbn.
    unfold gok in Hg.
    destruct Hu as [<-|Hu].
    - destruct (get_from_path v path) as [x|]; trivial.
      destruct (is_none x); cbn in Hg; try discriminate. destruct (as_key x); try discriminate. trivial.
    - destruct (get_from_path v path) as [x|]; trivial.
      destruct (is_none x); [apply IH; eauto|]. destruct (as_key x); trivial. apply IH; eauto.
  Qed.
End GroupBy.

Theorem group_by_spec l path r : Forall wf l -> l <> [] -> filter_group_by l path = ROk r ->
  exists g, r = VMap (map (fun kv => (fst kv, VArr (snd kv))) g) /\
    kwf g /\ kdist g /\
    (* every group is non-empty and is, in input order, the list of the elements with that key *)
    (forall k vs, In (k, vs) g -> vs <> [] /\ vs = filter (in_group path k) l) /\
    (* every element whose attribute is present and not none is in the group of its key *)
    (forall v k', In v l -> gkey path v = Some k' ->
       exists k vs, In (k, vs) g /\ key_eq k k' = true /\ In v vs) /\
    Forall (fun v => gok path v = true) l.
Proof.
  intros Wl Hne H. unfold filter_group_by in H. destruct l as [|a t]; [congruence|].
  destruct (group_go path [] (a :: t)) as [g|e] eqn:G; inversion H; subst.
  destruct (group_go_spec path (a :: t) [] [] g) as [[Kw [Kd [Hc Hd]]] F]; trivial.
  - repeat split; try constructor; intros; contradiction.
  - cbn [app] in *. exists g. repeat split; trivial.
    + apply (Hc k vs); trivial. + apply (Hc k vs); trivial.
    + intros v k' Hin Hk. destruct (Hd v k' Hin Hk) as [k [vs [Hg E]]].
      exists k, vs. repeat split; trivial.
      destruct (Hc k vs Hg) as [_ ->]. apply filter_In. split; trivial.
      unfold in_group. rewrite Hk. exact E.
Qed.

Theorem group_by_errors l path : (exists v, In v l /\ gok path v = false) ->
  filter_group_by l path = RErr ErrMsg.
Proof.
  intros H. unfold filter_group_by. destruct l as [|a t]; [destruct H as [v [[] _]]|].
  rewrite group_go_err; trivial.
Qed.

(* the neighbour check is blind across a `none`: an `undefined` key (which sorts behind none) is
   never compared with the regular keys in front of the none.  This is why the comparability
   theorems speak of keys that sort in front of none, or of inputs without none. *)
Lemma sort_undefined_behind_none_witness :
  exists l r, Forall wf l /\ filter_sort l None = ROk r /\
    exists x y, In x l /\ In y l /\ is_none x = false /\ is_none y = false /\ cmpb x y = false.
Proof.
  exists [VInt U64 1; VNone; VUndef], [VInt U64 1; VNone; VUndef].
  split; [repeat constructor|]. split; [vm_compute; reflexivity|].
  exists (VInt U64 1), VUndef. cbn. repeat split; auto.
Qed.
