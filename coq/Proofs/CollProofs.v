(* Lemmas for C16: contracts of the collection filters of Model/CollFilters.v. *)
From Coq Require Import List ZArith NArith Bool Lia Permutation Sorted.
From TeraV Require Import Model.Value Gen.OrderTables Model.Order Model.CollFilters Proofs.OrderProofs.
Import ListNotations.
Open Scope Z_scope.

(* ================================================================== split / join *)
Lemma is_prefix_app p s : is_prefix p s = true -> s = p ++ skipn (length p) s.
Proof.
  revert s; induction p as [|a p IH]; intros s H; cbn in *; trivial.
  destruct s as [|b s]; try discriminate.
  apply andb_true_iff in H as [E H]. apply N.eqb_eq in E. subst. f_equal. apply IH; trivial.
Qed.

Lemma is_prefix_length p s : is_prefix p s = true -> (length p <= length s)%nat.
Proof.
  revert s; induction p as [|a p IH]; intros s H; cbn in *; try lia.
  destruct s as [|b s]; try discriminate. apply andb_true_iff in H as [_ H]. cbn. apply IH in H. lia.
Qed.

Lemma split_go_nonempty p s cur k : split_go p s cur k <> [].
Proof.
  revert cur k; induction s as [|c t IH]; intros cur k; cbn; try discriminate.
  destruct k; auto. destruct (is_prefix p (c :: t)); try discriminate. auto.
Qed.

Lemma join_cons sep x l : l <> [] -> join_strs sep (x :: l) = x ++ sep ++ join_strs sep l.
Proof. destruct l; [congruence | reflexivity]. Qed.

Lemma split_go_join p s : p <> [] -> forall cur k, (k <= length s)%nat ->
  join_strs p (split_go p s cur k) = rev cur ++ skipn k s.
Proof.
  intros Hp. induction s as [|c t IH]; intros cur k Hk; cbn in *.
  - assert (k = 0)%nat by lia. subst. cbn. rewrite app_nil_r. reflexivity.
  - destruct k as [|k].
    + destruct (is_prefix p (c :: t)) eqn:E.
      * rewrite join_cons by apply split_go_nonempty.
        pose proof (is_prefix_length _ _ E) as L. pose proof (is_prefix_app _ _ E) as A.
        destruct p as [|a p']; try congruence. cbn [length] in *.
        rewrite IH by (cbn in L; lia). cbn [rev app]. cbn. f_equal.
        rewrite Nat.sub_0_r. cbn in A. symmetry. exact A.
      * rewrite IH by lia. cbn. rewrite <- app_assoc. reflexivity.
    + rewrite IH by lia. reflexivity.
Qed.

Lemma join_empty_sep_chars (s : str) : join_strs [] (map (fun c => [c]) s ++ [[]]) = s.
Proof.
  induction s as [|c t IH]; [reflexivity|]. cbn [map app].
  rewrite join_cons by (destruct (map (fun c0 : N => [c0]) t); discriminate).
  cbn [app]. rewrite IH. reflexivity.
Qed.

Theorem split_join_id s p : join_strs p (str_split s p) = s.
Proof.
  destruct p as [|a p].
  - cbn [str_split]. rewrite join_cons.
    + cbn. apply join_empty_sep_chars.
    + destruct (map (fun c => [c]) s); discriminate.
  - unfold str_split. rewrite split_go_join; [reflexivity | discriminate | lia].
Qed.

(* through the filters: `s | split(pat=p) | join(sep=p)` is s as a normal string *)
Lemma strs_of_strs l : strs_of (map (fun x => VStr x false) l) = Some l.
Proof. induction l as [|x t IH]; cbn; trivial. rewrite IH. reflexivity. Qed.

Theorem filter_split_join s f p g :
  res_bind (filter_split (VStr s f) (VStr p g))
    (fun r => match r with VArr l => filter_join l (Some (VStr p g)) | _ => RErr ErrOther end)
  = ROk (VStr s false).
Proof. cbn. rewrite strs_of_strs, split_join_id. reflexivity. Qed.

(* ================================================================== reverse / first / last / nth / length *)
Theorem reverse_involutive :
  (forall l, res_bind (filter_reverse (VArr l)) filter_reverse = ROk (VArr l)) /\
  (forall s f, res_bind (filter_reverse (VStr s f)) filter_reverse = ROk (VStr s false)).
Proof. split; intros; cbn; rewrite rev_involutive; reflexivity. Qed.

Lemma filter_last_nth (l : list value) :
  filter_last l = match nth_error l (length l - 1) with Some x => x | None => VNone end.
Proof.
  unfold filter_last. induction l as [|x t IH]; cbn; trivial.
  destruct t as [|y t']; cbn; trivial. cbn in IH. rewrite Nat.sub_0_r in IH. exact IH.
Qed.

Lemma last_rev_first (l : list value) : filter_first (rev l) = filter_last l.
Proof.
  unfold filter_last. induction l as [|x t IH]; cbn; trivial.
  destruct t as [|y t']; cbn in *; trivial.
  destruct (rev t' ++ [y]) eqn:E; cbn in *.
  - destruct (rev t'); discriminate.
  - exact IH.
Qed.

(* lists are shorter than 2^64 (a Vec has fewer than 2^63 elements) *)
Theorem access_consistent (l : list value) : Z.of_nat (length l) < two64 ->
  filter_length (VArr l) = ROk (VInt U64 (Z.of_nat (length l))) /\
  filter_first l = match nth_error l 0 with Some x => x | None => VNone end /\
  filter_last l = match nth_error l (length l - 1) with Some x => x | None => VNone end /\
  (forall r z, in_u64 z = true ->
     filter_nth l (VInt r z) = ROk (match nth_error l (Z.to_nat z) with Some x => x | None => VNone end)) /\
  (forall r z, in_u64 z = false -> filter_nth l (VInt r z) = RErr ErrMsg) /\
  (forall r, filter_nth l (VInt r 0) = ROk (filter_first l)) /\
  (forall r, l <> [] -> filter_nth l (VInt r (Z.of_nat (length l - 1))) = ROk (filter_last l)) /\
  (forall r z, Z.of_nat (length l) <= z -> in_u64 z = true -> filter_nth l (VInt r z) = ROk VNone) /\
  filter_first (rev l) = filter_last l /\
  filter_reverse (VArr l) = ROk (VArr (rev l)) /\
  filter_length (VArr (rev l)) = filter_length (VArr l).
Proof.
  intros Hlen.
  split; [reflexivity|]. split; [destruct l; reflexivity|]. split; [apply filter_last_nth|].
  split; [intros r z Hz; unfold filter_nth; cbn; rewrite Hz; reflexivity|].
  split; [intros r z Hz; unfold filter_nth; cbn; rewrite Hz; reflexivity|].
  split; [intros r; unfold filter_nth; cbn; destruct l; reflexivity|].
  split.
  { intros r Hl. unfold filter_nth. cbn.
    assert (Hr : in_u64 (Z.of_nat (length l - 1)) = true).
    { unfold in_u64. apply andb_true_iff. split; [apply Z.leb_le | apply Z.ltb_lt]; lia. }
    rewrite Hr, Nat2Z.id, filter_last_nth. reflexivity. }
  split.
  { intros r z Hz Hu. unfold filter_nth. cbn. rewrite Hu.
    assert (E : nth_error l (Z.to_nat z) = None) by (apply nth_error_None; lia).
    rewrite E. reflexivity. }
  split; [apply last_rev_first|]. split; [reflexivity|].
  cbn. rewrite rev_length. reflexivity.
Qed.
