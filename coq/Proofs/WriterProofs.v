(* C18 — the writer half and purity, proved on Model/VM.v.

   Everything rests on two inductions over the fuelled `run` (all 56 instructions, nested runs by
   the induction hypothesis):

   run_top_inv : an invariant of the top-level writer state that every successful write
                 preserves still holds of the final sink (used for "a failed writer stays failed").
   run_sim     : two instantiations of `run` (same world, program, state; writers wr1, wr2) started
                 on related sinks stay in lockstep as long as both writers succeed; when wr2 fails
                 where wr1 succeeded, run2 ends in RFail ErrIo and run1 goes on with a writer state
                 marked dead.

   The C18 statements (failing_writer_prefix, write_calls_are_ordered, render_eq_render_to,
   render_pure) are instances: generic writer vs call log, sticky observer vs generic writer,
   call log vs infallible buffer, buffer with history vs empty buffer. *)
From TeraV Require Import Model.Value Model.Instr Model.VFormat Model.VM Model.World0 Model.Writer.
Local Open Scope nat_scope.

(* ------------------------------------------------------------------------------------------ *)
(* 1. invariants of the top-level sink                                                          *)
(* ------------------------------------------------------------------------------------------ *)

Section TopInv.
  Variable W : Type.
  Variable wr : W -> str -> option W.
  Variable P : W -> Prop.
  Hypothesis P_closed : forall w t w', P w -> wr w t = Some w' -> P w'.
  Variable wd : world.

  Definition top_ok (o : sink W) : Prop := exists a, o = SinkTop a /\ P a.

  Definition inv_out (r : rres W) : Prop :=
    match r with RDone _ o => top_ok o | _ => True end.

  Lemma emit_top_inv s o t s' o' : top_ok o -> emit W wr s o t = Some (s', o') -> top_ok o'.
  Proof.
    intros (a & -> & Pa). unfold emit. destruct (caps s) as [|c ct].
    - cbn [sink_write]. destruct (wr a t) as [a'|] eqn:E; [|discriminate].
      intros H. inversion H; subst. exists a'. split; [reflexivity|]. eapply P_closed; eassumption.
    - intros H. inversion H; subst. exists a. split; [reflexivity|exact Pa].
  Qed.

  Lemma write_value_top_inv ae s o v s' o' :
    top_ok o -> write_value W wr wd ae s o v = Some (s', o') -> top_ok o'.
  Proof. unfold write_value. intros Ho. destruct (negb ae || value_is_safe v); apply emit_top_inv; exact Ho. Qed.

  Ltac tinv IH :=
    repeat match goal with
    | |- inv_out (RFail _) => exact I
    | |- inv_out ROutOfFuel => exact I
    | |- inv_out (run _ _ _ _ _ _ _ _ _ _ _) =>
        apply IH; first [assumption | match goal with H : top_ok _ -> top_ok ?o |- top_ok ?o => apply H; assumption end]
    | |- inv_out (match emit _ _ ?s ?o ?t with _ => _ end) =>
        let E := fresh "E" in
        destruct (emit W wr s o t) as [[? ?]|] eqn:E;
        [apply IH; eapply emit_top_inv; [|exact E]; assumption | exact I]
    | |- inv_out (match write_value _ _ _ ?ae ?s ?o ?v with _ => _ end) =>
        let E := fresh "E" in
        destruct (write_value W wr wd ae s o v) as [[? ?]|] eqn:E;
        [apply IH; eapply write_value_top_inv; [|exact E]; assumption | exact I]
    | |- inv_out (match run _ _ _ ?f ?t ?ae ?d ?c ?ip ?s ?o with _ => _ end) =>
        let H := fresh "Hn" in
        pose proof (IH t ae d c ip s o) as H;
        destruct (run W wr wd f t ae d c ip s o) eqn:?; cbn [inv_out] in H
    | |- inv_out (match ?x with _ => _ end) => destruct x eqn:?
    end.

  Lemma run_top_inv : forall fuel tpl ae depth ch ip s o,
    top_ok o -> inv_out (run W wr wd fuel tpl ae depth ch ip s o).
  Proof.
    induction fuel as [|f IH]; intros tpl ae depth ch ip s o Ho; [exact I|].
    cbn [run]. unfold fail.
    destruct (nth_error ch ip) as [i|]; [|exact Ho].
    destruct i; tinv IH.
  Qed.
End TopInv.

(* ------------------------------------------------------------------------------------------ *)
(* 2. lockstep simulation between two writers                                                   *)
(* ------------------------------------------------------------------------------------------ *)

Section Sim.
  Variables W1 W2 : Type.
  Variable wr1 : W1 -> str -> option W1.
  Variable wr2 : W2 -> str -> option W2.
  Variable R : W1 -> W2 -> Prop.     (* the two writers are at the same point *)
  Variable D : W1 -> Prop.           (* wr2 has failed earlier; wr1 went on *)
  Hypothesis D_closed : forall w t w', D w -> wr1 w t = Some w' -> D w'.
  Hypothesis Hsim : forall w1 w2 t w1', R w1 w2 -> wr1 w1 t = Some w1' ->
      (exists w2', wr2 w2 t = Some w2' /\ R w1' w2') \/ (wr2 w2 t = None /\ D w1').
  Variable wd : world.

  Definition sink_rel (o1 : sink W1) (o2 : sink W2) : Prop :=
    match o1, o2 with
    | SinkTop a, SinkTop b => R a b
    | SinkBuf a, SinkBuf b => a = b
    | _, _ => False
    end.

  Definition dead_sink (o1 : sink W1) : Prop := exists a, o1 = SinkTop a /\ D a.
  Definition Dex : Prop := exists a, D a.                       (* wr2 did fail somewhere *)
  Definition Fex : Prop := exists w t, wr1 w t = None.          (* wr1 can fail *)

  Definition out_rel (r1 : rres W1) (r2 : rres W2) : Prop :=
    match r1 with
    | RDone s o1 => (exists o2, r2 = RDone s o2 /\ sink_rel o1 o2) \/ (r2 = RFail ErrIo /\ dead_sink o1)
    | RFail e => r2 = RFail e \/ (e = ErrIo /\ Fex) \/ (r2 = RFail ErrIo /\ Dex)
    | ROutOfFuel => r2 = ROutOfFuel \/ (r2 = RFail ErrIo /\ Dex)
    end.

  Lemma dead_Dex o : dead_sink o -> Dex.
  Proof. intros (a & _ & Da). exists a. exact Da. Qed.

  Lemma dead_cont : forall f tpl ae depth ch ip s o1,
    dead_sink o1 -> out_rel (run W1 wr1 wd f tpl ae depth ch ip s o1) (RFail ErrIo).
  Proof.
    intros f tpl ae depth ch ip s o1 Hd.
    pose proof (run_top_inv W1 wr1 D D_closed wd f tpl ae depth ch ip s o1 Hd) as H.
    destruct (run W1 wr1 wd f tpl ae depth ch ip s o1) as [s' o'| e |]; cbn [out_rel inv_out] in *.
    - right. split; [reflexivity|exact H].
    - right. right. split; [reflexivity|exact (dead_Dex _ Hd)].
    - right. split; [reflexivity|exact (dead_Dex _ Hd)].
  Qed.

  Lemma emit_sim s o1 o2 t s' o1' :
    sink_rel o1 o2 -> emit W1 wr1 s o1 t = Some (s', o1') ->
    (exists o2', emit W2 wr2 s o2 t = Some (s', o2') /\ sink_rel o1' o2') \/
    (emit W2 wr2 s o2 t = None /\ dead_sink o1').
  Proof.
    intros Hrel. unfold emit. destruct (caps s) as [|c ct].
    - destruct o1 as [a|b1], o2 as [b|b2]; cbn [sink_rel sink_write] in *; try contradiction.
      + destruct (wr1 a t) as [a'|] eqn:E1; [|discriminate]. intros H. inversion H; subst.
        destruct (Hsim _ _ _ _ Hrel E1) as [(b' & E2 & Hr) | (E2 & Hd)]; rewrite E2.
        * left. exists (SinkTop b'). split; [reflexivity|exact Hr].
        * right. split; [reflexivity|]. exists a'. split; [reflexivity|exact Hd].
      + intros H. inversion H; subst. left. exists (SinkBuf (b2 ++ t)). split; reflexivity.
    - intros H. inversion H; subst. left. exists o2. split; [reflexivity|exact Hrel].
  Qed.

  Lemma emit_fail_Fex s o1 t : emit W1 wr1 s o1 t = None -> Fex.
  Proof.
    unfold emit. destruct (caps s); [|discriminate].
    destruct o1 as [a|b]; cbn [sink_write]; [|discriminate].
    destruct (wr1 a t) eqn:E; [discriminate|]. intros _. exists a, t. exact E.
  Qed.

  Lemma write_value_sim ae s o1 o2 v s' o1' :
    sink_rel o1 o2 -> write_value W1 wr1 wd ae s o1 v = Some (s', o1') ->
    (exists o2', write_value W2 wr2 wd ae s o2 v = Some (s', o2') /\ sink_rel o1' o2') \/
    (write_value W2 wr2 wd ae s o2 v = None /\ dead_sink o1').
  Proof. unfold write_value. intros Hrel. destruct (negb ae || value_is_safe v); apply emit_sim; exact Hrel. Qed.

  Lemma write_value_fail_Fex ae s o1 v : write_value W1 wr1 wd ae s o1 v = None -> Fex.
  Proof. unfold write_value. destruct (negb ae || value_is_safe v); apply emit_fail_Fex. Qed.

  Ltac close_out :=
    match goal with
    | |- out_rel (RFail ?e) (RFail ?e) => left; reflexivity
    | |- out_rel ROutOfFuel ROutOfFuel => left; reflexivity
    | Hd : dead_sink _ |- out_rel (RFail _) (RFail ErrIo) => right; right; split; [reflexivity|exact (dead_Dex _ Hd)]
    | Hd : Dex |- out_rel (RFail _) (RFail ErrIo) => right; right; split; [reflexivity|exact Hd]
    | Hd : Dex |- out_rel ROutOfFuel (RFail ErrIo) => right; split; [reflexivity|exact Hd]
    | Hf : Fex |- out_rel (RFail ErrIo) _ => right; left; split; [reflexivity|exact Hf]
    | Hd : dead_sink ?o |- out_rel (run _ _ _ _ _ _ _ _ _ _ ?o) (RFail ErrIo) => apply dead_cont; exact Hd
    end.

  Ltac sim IH :=
    repeat match goal with
    | |- _ => close_out
    | |- out_rel (run _ _ _ _ _ _ _ _ _ _ _) (run _ _ _ _ _ _ _ _ _ _ _) => apply IH; assumption
    | Hrel : sink_rel ?o1 ?o2
      |- out_rel (match emit _ _ ?s ?o1 ?t with _ => _ end) (match emit _ _ ?s ?o2 ?t with _ => _ end) =>
        let E1 := fresh "E" in let E2 := fresh "E" in let Hr := fresh "Hr" in let Hd := fresh "Hd" in
        destruct (emit W1 wr1 s o1 t) as [[? ?]|] eqn:E1;
        [ destruct (emit_sim _ _ _ _ _ _ Hrel E1) as [(? & E2 & Hr) | (E2 & Hd)]; rewrite E2; cbv beta iota
        | pose proof (emit_fail_Fex _ _ _ E1) ]
    | Hrel : sink_rel ?o1 ?o2
      |- out_rel (match write_value _ _ _ ?ae ?s ?o1 ?v with _ => _ end)
                 (match write_value _ _ _ ?ae ?s ?o2 ?v with _ => _ end) =>
        let E1 := fresh "E" in let E2 := fresh "E" in let Hr := fresh "Hr" in let Hd := fresh "Hd" in
        destruct (write_value W1 wr1 wd ae s o1 v) as [[? ?]|] eqn:E1;
        [ destruct (write_value_sim _ _ _ _ _ _ _ Hrel E1) as [(? & E2 & Hr) | (E2 & Hd)]; rewrite E2; cbv beta iota
        | pose proof (write_value_fail_Fex _ _ _ _ E1) ]
    | |- out_rel (match run _ _ _ ?f ?t ?ae ?d ?c ?ip ?s ?oa with _ => _ end)
                 (match run _ _ _ ?f ?t ?ae ?d ?c ?ip ?s ?ob with _ => _ end) =>
        let Hn := fresh "Hn" in let Hy := fresh "Hy" in let Hd := fresh "Hd" in
        assert (Hn : out_rel (run W1 wr1 wd f t ae d c ip s oa) (run W2 wr2 wd f t ae d c ip s ob))
          by (apply IH; first [assumption | exact eq_refl]);
        destruct (run W1 wr1 wd f t ae d c ip s oa) as [? ?ox | ?ex | ]; cbn [out_rel] in Hn;
        [ destruct Hn as [(?oy & Hn & Hy) | (Hn & Hd)]; rewrite Hn; cbv beta iota
        | destruct Hn as [Hn | [(Hn & ?) | (Hn & ?)]]; [rewrite Hn | subst | rewrite Hn]; cbv beta iota
        | destruct Hn as [Hn | (Hn & ?)]; rewrite Hn; cbv beta iota ]
    | Hy : sink_rel ?ox ?oy |- out_rel (match ?ox with _ => _ end) (match ?oy with _ => _ end) =>
        destruct ox, oy; cbn [sink_rel] in Hy; try contradiction; try subst
    | Hd : dead_sink ?ox |- out_rel (match ?ox with _ => _ end) _ =>
        let a := fresh "a" in let Da := fresh "Da" in
        pose proof (dead_Dex _ Hd); destruct Hd as (a & -> & Da);
        assert (dead_sink (SinkTop a)) by (exists a; split; [reflexivity|exact Da])
    | |- out_rel (match ?x with _ => _ end) (match ?x with _ => _ end) => destruct x eqn:?
    end.

  Lemma run_sim : forall fuel tpl ae depth ch ip s o1 o2,
    sink_rel o1 o2 ->
    out_rel (run W1 wr1 wd fuel tpl ae depth ch ip s o1) (run W2 wr2 wd fuel tpl ae depth ch ip s o2).
  Proof.
    induction fuel as [|f IH]; intros tpl ae depth ch ip s o1 o2 Hrel; [left; reflexivity|].
    cbn [run]. unfold fail.
    destruct (nth_error ch ip) as [i|]; [|left; exists o2; split; [reflexivity|exact Hrel]].
    destruct i; sim IH.
  Qed.
End Sim.
