(* C18 — the writer half and purity, proved on Model/VM.v.

   Everything rests on two inductions over the fuelled `run` (all 56 instructions, nested runs by
   the induction hypothesis):

   run_top_inv : an invariant of the top-level writer state that every successful write
                 preserves still holds of the final sink (used for "a failed writer stays failed").
   run_sim     : two instantiations of `run` (same world, program, state; writers wr1, wr2) started
                 on related sinks stay in lockstep as long as both writers succeed; when wr2 fails
                 where wr1 succeeded, run2 ends in RFail ErrIo and run1 goes on with a writer state
                 marked dead.

   The C18 statements (failing_writer_prefix, write_calls_are_ordered, render_eq_render_to,
   render_pure) are instances: generic writer vs call log, sticky observer vs generic writer,
   call log vs infallible buffer, buffer with history vs empty buffer. *)
From TeraV Require Import Model.Value Model.Instr Model.VFormat Model.VM Model.World0 Model.Writer.
Local Open Scope nat_scope.

(* ------------------------------------------------------------------------------------------ *)
(* 1. invariants of the sink                                                                    *)
(* ------------------------------------------------------------------------------------------ *)

Section SinkInv.
  Variable W : Type.
  Variable wr : W -> str -> option W.
  Variable Q : sink W -> Prop.
  Hypothesis Q_closed : forall o t o', Q o -> sink_write W wr o t = Some o' -> Q o'.
  Variable wd : world.

  Definition inv_out (r : rres W) : Prop :=
    match r with RDone _ o => Q o | _ => True end.

  Lemma emit_inv s o t s' o' : Q o -> emit W wr s o t = Some (s', o') -> Q o'.
  Proof.
    intros Ho. unfold emit. destruct (caps s) as [|c ct].
    - destruct (sink_write W wr o t) as [o1|] eqn:E; [|discriminate].
      intros H. inversion H; subst. eapply Q_closed; eassumption.
    - intros H. inversion H; subst. exact Ho.
  Qed.

  Lemma write_value_inv ae s o v s' o' :
    Q o -> write_value W wr wd ae s o v = Some (s', o') -> Q o'.
  Proof. unfold write_value. intros Ho. destruct (negb ae || value_is_safe v); apply emit_inv; exact Ho. Qed.

  Ltac tinv IH :=
    repeat match goal with
    | |- inv_out (RFail _) => exact I
    | |- inv_out ROutOfFuel => exact I
    | |- inv_out (run _ _ _ _ _ _ _ _ _ _ _) =>
        apply IH; first [assumption | match goal with H : Q _ -> Q ?o |- Q ?o => apply H; assumption end]
    | |- inv_out (match emit _ _ ?s ?o ?t with _ => _ end) =>
        let E := fresh "E" in
        destruct (emit W wr s o t) as [[? ?]|] eqn:E;
        [apply IH; eapply emit_inv; [|exact E]; assumption | exact I]
    | |- inv_out (match write_value _ _ _ ?ae ?s ?o ?v with _ => _ end) =>
        let E := fresh "E" in
        destruct (write_value W wr wd ae s o v) as [[? ?]|] eqn:E;
        [apply IH; eapply write_value_inv; [|exact E]; assumption | exact I]
    | |- inv_out (match run _ _ _ ?f ?t ?ae ?d ?c ?ip ?s ?o with _ => _ end) =>
        let H := fresh "Hn" in
        pose proof (IH t ae d c ip s o) as H;
        destruct (run W wr wd f t ae d c ip s o) eqn:?; cbn [inv_out] in H
    | |- inv_out (match ?x with _ => _ end) => destruct x eqn:?
    end.

  Lemma run_sink_inv : forall fuel tpl ae depth ch ip s o,
    Q o -> inv_out (run W wr wd fuel tpl ae depth ch ip s o).
  Proof.
    induction fuel as [|f IH]; intros tpl ae depth ch ip s o Ho; [exact I|].
    cbn [run]. unfold fail.
    destruct (nth_error ch ip) as [i|]; [|exact Ho].
    destruct i; tinv IH.
  Qed.
End SinkInv.

(* the two instances: a run started on a buffer ends on a buffer; an invariant of the top-level
   writer state preserved by every successful write holds of the final top-level sink *)
Definition is_buf {W} (o : sink W) : Prop := exists b, o = SinkBuf b.
Definition top_ok {W} (P : W -> Prop) (o : sink W) : Prop := exists a, o = SinkTop a /\ P a.

Lemma run_buf_inv W wr wd fuel tpl ae depth ch ip s b :
  inv_out W is_buf (run W wr wd fuel tpl ae depth ch ip s (SinkBuf b)).
Proof.
  apply run_sink_inv; [|exists b; reflexivity].
  intros o t o' (b0 & ->). cbn. intros H. inversion H. eexists; reflexivity.
Qed.

Lemma run_top_inv W wr (P : W -> Prop) :
  (forall w t w', P w -> wr w t = Some w' -> P w') ->
  forall wd fuel tpl ae depth ch ip s o, top_ok P o ->
  inv_out W (top_ok P) (run W wr wd fuel tpl ae depth ch ip s o).
Proof.
  intros Hc wd fuel tpl ae depth ch ip s o Ho. apply run_sink_inv; [|exact Ho].
  intros o0 t o' (a & -> & Pa). cbn. destruct (wr a t) as [a'|] eqn:E; [|discriminate].
  intros H. inversion H; subst. exists a'. split; [reflexivity|]. eapply Hc; eassumption.
Qed.

(* ------------------------------------------------------------------------------------------ *)
(* 2. lockstep simulation between two writers                                                   *)
(* ------------------------------------------------------------------------------------------ *)

Section Sim.
  Variables W1 W2 : Type.
  Variable wr1 : W1 -> str -> option W1.
  Variable wr2 : W2 -> str -> option W2.
  Variable R : W1 -> W2 -> Prop.     (* the two writers are at the same point *)
  Variable D : W1 -> Prop.           (* wr2 has failed earlier; wr1 went on *)
  Hypothesis D_closed : forall w t w', D w -> wr1 w t = Some w' -> D w'.
  Hypothesis Hsim : forall w1 w2 t w1', R w1 w2 -> wr1 w1 t = Some w1' ->
      (exists w2', wr2 w2 t = Some w2' /\ R w1' w2') \/ (wr2 w2 t = None /\ D w1').
  Variable wd : world.

  Definition sink_rel (o1 : sink W1) (o2 : sink W2) : Prop :=
    match o1, o2 with
    | SinkTop a, SinkTop b => R a b
    | SinkBuf a, SinkBuf b => a = b
    | _, _ => False
    end.

  Definition dead_sink (o1 : sink W1) : Prop := top_ok D o1.
  Definition Dex : Prop := exists a, D a.                       (* wr2 did fail somewhere *)
  Definition Fex : Prop := exists w t, wr1 w t = None.          (* wr1 can fail *)

  Definition out_rel (r1 : rres W1) (r2 : rres W2) : Prop :=
    match r1 with
    | RDone s o1 => (exists o2, r2 = RDone s o2 /\ sink_rel o1 o2) \/ (r2 = RFail ErrIo /\ dead_sink o1)
    | RFail e => r2 = RFail e \/ (e = ErrIo /\ Fex) \/ (r2 = RFail ErrIo /\ Dex)
    | ROutOfFuel => r2 = ROutOfFuel \/ (r2 = RFail ErrIo /\ Dex)
    end.

  Lemma dead_Dex o : dead_sink o -> Dex.
  Proof. intros (a & _ & Da). exists a. exact Da. Qed.

  Lemma dead_cont : forall f tpl ae depth ch ip s o1,
    dead_sink o1 -> out_rel (run W1 wr1 wd f tpl ae depth ch ip s o1) (RFail ErrIo).
  Proof.
    intros f tpl ae depth ch ip s o1 Hd.
    pose proof (run_top_inv W1 wr1 D D_closed wd f tpl ae depth ch ip s o1 Hd) as H.
    fold dead_sink in H.
    destruct (run W1 wr1 wd f tpl ae depth ch ip s o1) as [s' o'| e |]; cbn [out_rel inv_out] in *.
    - right. split; [reflexivity|exact H].
    - right. right. split; [reflexivity|exact (dead_Dex _ Hd)].
    - right. split; [reflexivity|exact (dead_Dex _ Hd)].
  Qed.

  Lemma emit_sim s o1 o2 t s' o1' :
    sink_rel o1 o2 -> emit W1 wr1 s o1 t = Some (s', o1') ->
    (exists o2', emit W2 wr2 s o2 t = Some (s', o2') /\ sink_rel o1' o2') \/
    (emit W2 wr2 s o2 t = None /\ dead_sink o1').
  Proof.
    intros Hrel. unfold emit. destruct (caps s) as [|c ct].
    - destruct o1 as [a|b1], o2 as [b|b2]; cbn [sink_rel sink_write] in *; try contradiction.
      + destruct (wr1 a t) as [a'|] eqn:E1; [|discriminate]. intros H. inversion H; subst.
        destruct (Hsim _ _ _ _ Hrel E1) as [(b' & E2 & Hr) | (E2 & Hd)]; rewrite E2.
        * left. exists (SinkTop b'). split; [reflexivity|exact Hr].
        * right. split; [reflexivity|]. exists a'. split; [reflexivity|exact Hd].
      + intros H. inversion H; subst. left. exists (SinkBuf (b2 ++ t)). split; reflexivity.
    - intros H. inversion H; subst. left. exists o2. split; [reflexivity|exact Hrel].
  Qed.

  Lemma emit_fail_Fex s o1 t : emit W1 wr1 s o1 t = None -> Fex.
  Proof.
    unfold emit. destruct (caps s); [|discriminate].
    destruct o1 as [a|b]; cbn [sink_write]; [|discriminate].
    destruct (wr1 a t) eqn:E; [discriminate|]. intros _. exists a, t. exact E.
  Qed.

  Lemma write_value_sim ae s o1 o2 v s' o1' :
    sink_rel o1 o2 -> write_value W1 wr1 wd ae s o1 v = Some (s', o1') ->
    (exists o2', write_value W2 wr2 wd ae s o2 v = Some (s', o2') /\ sink_rel o1' o2') \/
    (write_value W2 wr2 wd ae s o2 v = None /\ dead_sink o1').
  Proof. unfold write_value. intros Hrel. destruct (negb ae || value_is_safe v); apply emit_sim; exact Hrel. Qed.

  Lemma write_value_fail_Fex ae s o1 v : write_value W1 wr1 wd ae s o1 v = None -> Fex.
  Proof. unfold write_value. destruct (negb ae || value_is_safe v); apply emit_fail_Fex. Qed.

  Ltac close_out :=
    match goal with
    | |- out_rel (RFail ?e) (RFail ?e) => left; reflexivity
    | |- out_rel ROutOfFuel ROutOfFuel => left; reflexivity
    | Hd : dead_sink _ |- out_rel (RFail _) (RFail ErrIo) => right; right; split; [reflexivity|exact (dead_Dex _ Hd)]
    | Hd : Dex |- out_rel (RFail _) (RFail ErrIo) => right; right; split; [reflexivity|exact Hd]
    | Hd : Dex |- out_rel ROutOfFuel (RFail ErrIo) => right; split; [reflexivity|exact Hd]
    | Hf : Fex |- out_rel (RFail ErrIo) _ => right; left; split; [reflexivity|exact Hf]
    | Hd : dead_sink ?o |- out_rel (run _ _ _ _ _ _ _ _ _ _ ?o) (RFail ErrIo) => apply dead_cont; exact Hd
    end.

  Ltac sim IH :=
    repeat match goal with
    | |- _ => close_out
    | |- out_rel (run _ _ _ _ _ _ _ _ _ _ _) (run _ _ _ _ _ _ _ _ _ _ _) => apply IH; assumption
    | Hrel : sink_rel ?o1 ?o2
      |- out_rel (match emit _ _ ?s ?o1 ?t with _ => _ end) (match emit _ _ ?s ?o2 ?t with _ => _ end) =>
        let E1 := fresh "E" in let E2 := fresh "E" in let Hr := fresh "Hr" in let Hd := fresh "Hd" in
        destruct (emit W1 wr1 s o1 t) as [[? ?]|] eqn:E1;
        [ destruct (emit_sim _ _ _ _ _ _ Hrel E1) as [(? & E2 & Hr) | (E2 & Hd)]; rewrite E2; cbv beta iota
        | pose proof (emit_fail_Fex _ _ _ E1) ]
    | Hrel : sink_rel ?o1 ?o2
      |- out_rel (match write_value _ _ _ ?ae ?s ?o1 ?v with _ => _ end)
                 (match write_value _ _ _ ?ae ?s ?o2 ?v with _ => _ end) =>
        let E1 := fresh "E" in let E2 := fresh "E" in let Hr := fresh "Hr" in let Hd := fresh "Hd" in
        destruct (write_value W1 wr1 wd ae s o1 v) as [[? ?]|] eqn:E1;
        [ destruct (write_value_sim _ _ _ _ _ _ _ Hrel E1) as [(? & E2 & Hr) | (E2 & Hd)]; rewrite E2; cbv beta iota
        | pose proof (write_value_fail_Fex _ _ _ _ E1) ]
    | |- out_rel (match run _ _ _ ?f ?t ?ae ?d ?c ?ip ?s ?oa with _ => _ end)
                 (match run _ _ _ ?f ?t ?ae ?d ?c ?ip ?s ?ob with _ => _ end) =>
        let Hn := fresh "Hn" in let Hy := fresh "Hy" in let Hd := fresh "Hd" in
        assert (Hn : out_rel (run W1 wr1 wd f t ae d c ip s oa) (run W2 wr2 wd f t ae d c ip s ob))
          by (apply IH; first [assumption | exact eq_refl]);
        destruct (run W1 wr1 wd f t ae d c ip s oa) as [? ?ox | ?ex | ]; cbn [out_rel] in Hn;
        [ destruct Hn as [(?oy & Hn & Hy) | (Hn & Hd)]; rewrite Hn; cbv beta iota
        | destruct Hn as [Hn | [(Hn & ?) | (Hn & ?)]]; [rewrite Hn | subst | rewrite Hn]; cbv beta iota
        | destruct Hn as [Hn | (Hn & ?)]; rewrite Hn; cbv beta iota ]
    | Hy : sink_rel ?ox ?oy |- out_rel (match ?ox with _ => _ end) (match ?oy with _ => _ end) =>
        destruct ox, oy; cbn [sink_rel] in Hy; try contradiction; try subst
    | Hd : dead_sink ?ox |- out_rel (match ?ox with _ => _ end) _ =>
        let a := fresh "a" in let Da := fresh "Da" in
        pose proof (dead_Dex _ Hd); destruct Hd as (a & -> & Da);
        assert (dead_sink (SinkTop a)) by (exists a; split; [reflexivity|exact Da])
    | |- out_rel (match ?x with _ => _ end) (match ?x with _ => _ end) => destruct x eqn:?
    end.

  Lemma run_sim : forall fuel tpl ae depth ch ip s o1 o2,
    sink_rel o1 o2 ->
    out_rel (run W1 wr1 wd fuel tpl ae depth ch ip s o1) (run W2 wr2 wd fuel tpl ae depth ch ip s o2).
  Proof.
    induction fuel as [|f IH]; intros tpl ae depth ch ip s o1 o2 Hrel; [left; reflexivity|].
    cbn [run]. unfold fail.
    destruct (nth_error ch ip) as [i|]; [|left; exists o2; split; [reflexivity|exact Hrel]].
    destruct i; sim IH.
  Qed.
End Sim.

(* ------------------------------------------------------------------------------------------ *)
(* 3. runners: anything that, given a writer, renders into it                                   *)
(* ------------------------------------------------------------------------------------------ *)

Definition runner := forall W : Type, (W -> str -> option W) -> W -> rres W.

Definition simulable (F : runner) : Prop :=
  forall (W1 W2 : Type) (wr1 : W1 -> str -> option W1) (wr2 : W2 -> str -> option W2)
         (R : W1 -> W2 -> Prop) (D : W1 -> Prop),
    (forall w t w', D w -> wr1 w t = Some w' -> D w') ->
    (forall w1 w2 t w1', R w1 w2 -> wr1 w1 t = Some w1' ->
       (exists w2', wr2 w2 t = Some w2' /\ R w1' w2') \/ (wr2 w2 t = None /\ D w1')) ->
    forall w1 w2, R w1 w2 -> out_rel W1 W2 wr1 R D (F W1 wr1 w1) (F W2 wr2 w2).

Lemma run_simulable wd fuel tpl ae depth ch ip s :
  simulable (fun W wr w => run W wr wd fuel tpl ae depth ch ip s (SinkTop w)).
Proof. intros W1 W2 wr1 wr2 R D Hc Hs w1 w2 Hr. apply run_sim; assumption. Qed.

Lemma const_simulable (e : errc) : simulable (fun W _ _ => RFail e).
Proof. intros W1 W2 wr1 wr2 R D _ _ w1 w2 _. left. reflexivity. Qed.

Lemma render_to_simulable wd fuel tpl block c g :
  simulable (fun W wr w => render_to W wr wd fuel tpl block c g w).
Proof.
  intros W1 W2 wr1 wr2 R D Hc Hs w1 w2 Hr. unfold render_to. destruct block as [b|].
  - set (s0 := {| stack := []; loops := []; setvars := []; caps := []; blocks := []; cur_block := None;
                  parent := None; context := c; global := Some g; capture_block := Some b;
                  block_buffer := [] |}).
    pose proof (run_sim W1 W2 wr1 wr2 R D Hc Hs wd fuel tpl None 0 (t_root_chunk tpl) 0 s0
                        (SinkBuf []) (SinkBuf []) eq_refl) as Hn.
    pose proof (run_buf_inv W1 wr1 wd fuel tpl None 0 (t_root_chunk tpl) 0 s0 []) as Hb.
    destruct (run W1 wr1 wd fuel tpl None 0 (t_root_chunk tpl) 0 s0 (SinkBuf [])) as [s1 o1|e|];
      cbn [out_rel inv_out] in Hn, Hb.
    + destruct Hn as [(o2 & -> & _) | (_ & (a & Ha & _))].
      * destruct (wr1 w1 (block_buffer s1)) as [w1'|] eqn:E1.
        -- destruct (Hs _ _ _ _ Hr E1) as [(w2' & -> & Hr') | (-> & Hd)].
           ++ left. exists (SinkTop w2'). split; [reflexivity|exact Hr'].
           ++ right. split; [reflexivity|]. exists w1'. split; [reflexivity|exact Hd].
        -- right. left. split; [reflexivity|]. exists w1, (block_buffer s1). exact E1.
      * destruct Hb as (b0 & ->). discriminate.
    + destruct Hn as [-> | [(-> & Hf) | (-> & Hd)]].
      * left. reflexivity.
      * right. left. split; [reflexivity|exact Hf].
      * right. right. split; [reflexivity|exact Hd].
    + destruct Hn as [-> | (-> & Hd)].
      * left. reflexivity.
      * right. split; [reflexivity|exact Hd].
  - apply run_sim; assumption.
Qed.

Lemma tera_render_to_simulable wd fuel name c g :
  simulable (fun W wr w => tera_render_to W wr wd fuel name c g w).
Proof.
  unfold tera_render_to. destruct (assoc_get (w_templates wd) name).
  - apply render_to_simulable.
  - apply const_simulable.
Qed.

Lemma tera_render_block_to_simulable wd fuel name block c g :
  simulable (fun W wr w => tera_render_block_to W wr wd fuel name block c g w).
Proof.
  unfold tera_render_block_to. destruct (assoc_get (w_templates wd) name) as [tpl|].
  - destruct (assoc_get (t_lineage tpl) block); [apply render_to_simulable|apply const_simulable].
  - apply const_simulable.
Qed.

Lemma tera_render_component_to_simulable wd fuel comp src supplied body ae :
  simulable (fun W wr w => tera_render_component_to W wr wd fuel comp src supplied body ae w).
Proof.
  unfold tera_render_component_to. destruct (assoc_get (w_components wd) comp) as [[def cchunk]|].
  - destruct (w_build_ctx wd def supplied _); [apply run_simulable|apply const_simulable].
  - apply const_simulable.
Qed.

Lemma tera_render_str_to_simulable wd fuel one_off ae c g :
  simulable (fun W wr w => tera_render_str_to W wr wd fuel one_off ae c g w).
Proof. unfold tera_render_str_to. apply render_to_simulable. Qed.

(* ------------------------------------------------------------------------------------------ *)
(* 4. list facts about writers                                                                  *)
(* ------------------------------------------------------------------------------------------ *)

Definition prefix (p x : str) : Prop := exists q, x = p ++ q.

Lemma concat_snoc (l : list str) (t : str) : concat (l ++ [t]) = concat l ++ t.
Proof. rewrite concat_app. cbn. rewrite app_nil_r. reflexivity. Qed.

Lemma feed_app {W} (wr : W -> str -> option W) l1 : forall w l2,
  feed wr w (l1 ++ l2) = match feed wr w l1 with Some w' => feed wr w' l2 | None => None end.
Proof.
  induction l1 as [|t r IH]; intros w l2; [reflexivity|]. cbn [app feed].
  destruct (wr w t); [apply IH|reflexivity].
Qed.

Lemma fold_dead {W} (pw : pwriter W) l : forall w,
  fold_left (sticky_step pw) l (w, false) = (w, false).
Proof. induction l as [|t r IH]; intros w; [reflexivity|]. cbn. apply IH. Qed.

(* the observer's final flag says whether every call succeeded; then its state is the writer's *)
Lemma sticky_feed {W} (pw : pwriter W) l : forall w0,
  match feed (wr_of pw) w0 l with
  | Some w => fold_left (sticky_step pw) l (w0, true) = (w, true)
  | None => snd (fold_left (sticky_step pw) l (w0, true)) = false
  end.
Proof.
  induction l as [|t r IH]; intros w0; [reflexivity|]. cbn [feed fold_left sticky_step].
  unfold wr_of at 1. destruct (pw w0 t) as [w1 ok]. destruct ok.
  - apply IH.
  - rewrite fold_dead. reflexivity.
Qed.

(* what a lawful writer has accepted after a sequence of calls, observed stickily, is a prefix of
   the concatenation of the calls; all of it if no call failed *)
Lemma lawful_fold {W} (pw : pwriter W) (acc : W -> str) : pw_lawful pw acc ->
  forall l w live,
  exists p, acc (fst (fold_left (sticky_step pw) l (w, live))) = acc w ++ p /\ prefix p (concat l) /\
            (snd (fold_left (sticky_step pw) l (w, live)) = true -> p = concat l).
Proof.
  intros Hl. induction l as [|t r IH]; intros w live.
  - exists []. cbn. rewrite app_nil_r. repeat split. exists []. reflexivity.
  - destruct live.
    + cbn [fold_left sticky_step]. destruct (Hl w t) as (p1 & q1 & Ht & Hacc & Hok).
      destruct (pw w t) as [w1 ok] eqn:E. cbn [fst snd] in *. destruct ok.
      * specialize (Hok eq_refl). subst q1. rewrite app_nil_r in Ht. subst p1.
        destruct (IH w1 true) as (p2 & H1 & (q2 & H2) & H3).
        exists (t ++ p2). rewrite H1, Hacc, app_assoc. split; [reflexivity|]. split.
        -- exists q2. cbn [concat]. rewrite H2, app_assoc. reflexivity.
        -- intros Hs. cbn [concat]. rewrite (H3 Hs). reflexivity.
      * rewrite fold_dead. cbn [fst snd]. exists p1. split; [exact Hacc|]. split; [|discriminate].
        exists (q1 ++ concat r). cbn [concat]. rewrite Ht, app_assoc. reflexivity.
    + rewrite fold_dead. cbn [fst snd]. exists []. rewrite app_nil_r. split; [reflexivity|].
      split; [|discriminate]. exists (concat (t :: r)). reflexivity.
Qed.

Lemma budget_writer_lawful : pw_lawful budget_writer acc_pair.
Proof.
  intros [a rem] t. unfold budget_writer, acc_pair. destruct (Nat.leb (length t) rem); cbn [fst snd].
  - exists t, []. rewrite app_nil_r. repeat split.
  - exists (firstn rem t), (skipn rem t). rewrite firstn_skipn. repeat split. discriminate.
Qed.

Lemma failing_at_call_lawful : pw_lawful failing_at_call acc_pair.
Proof.
  intros [a k] t. unfold failing_at_call, acc_pair. destruct k; cbn [fst snd].
  - exists [], t. rewrite app_nil_r. repeat split. discriminate.
  - exists t, []. rewrite app_nil_r. repeat split.
Qed.

Lemma pw_str_lawful : pw_lawful pw_str acc_str.
Proof. intros w t. exists t, []. unfold pw_str, acc_str. cbn. rewrite app_nil_r. repeat split. Qed.

(* ------------------------------------------------------------------------------------------ *)
(* 5. consequences for any simulable runner                                                     *)
(* ------------------------------------------------------------------------------------------ *)

Definition never {W : Type} (_ : W) : Prop := False.

Section Consequences.
  Variable F : runner.
  Hypothesis HF : simulable F.

  (* two total writers related by a functional relation: the results correspond exactly *)
  Lemma total_pair (W1 W2 : Type) (f1 : W1 -> str -> W1) (f2 : W2 -> str -> W2) (R : W1 -> W2 -> Prop) :
    (forall a b t, R a b -> R (f1 a t) (f2 b t)) ->
    forall w1 w2, R w1 w2 ->
    match F W1 (fun w t => Some (f1 w t)) w1 with
    | RDone s o1 => exists o2, F W2 (fun w t => Some (f2 w t)) w2 = RDone s o2 /\ sink_rel W1 W2 R o1 o2
    | RFail e => F W2 (fun w t => Some (f2 w t)) w2 = RFail e
    | ROutOfFuel => F W2 (fun w t => Some (f2 w t)) w2 = ROutOfFuel
    end.
  Proof.
    intros HR w1 w2 Hr.
    pose proof (HF W1 W2 (fun w t => Some (f1 w t)) (fun w t => Some (f2 w t)) R never
                   (fun _ _ _ H _ => H)) as H.
    specialize (H (fun a b t a' Hab E => or_introl
                    (ex_intro _ (f2 b t) (conj eq_refl
                       (eq_ind (f1 a t) (fun x => R x (f2 b t)) (HR a b t Hab) a'
                               (f_equal (fun o => match o with Some x => x | None => a' end) E)))))
                  w1 w2 Hr).
    destruct (F W1 (fun w t => Some (f1 w t)) w1) as [s o1|e|]; cbn [out_rel] in H.
    - destruct H as [H | (_ & (a & _ & []))]. exact H.
    - destruct H as [H | [(_ & (w & t & Hw)) | (_ & (a & []))]]; [exact H|discriminate].
    - destruct H as [H | (_ & (a & []))]. exact H.
  Qed.

  (* --- the call log determines the infallible output, and conversely --- *)

  Lemma str_of_log out0 s l :
    F (list str) wr_log [] = RDone s (SinkTop l) ->
    F str wr_str out0 = RDone s (SinkTop (out0 ++ concat l)).
  Proof.
    intros Hlog.
    pose proof (total_pair (list str) str (fun l t => l ++ [t]) (fun w t => w ++ t)
                           (fun l out => out = out0 ++ concat l)) as H.
    specialize (H (fun a b t Hab => eq_trans (f_equal (fun x => x ++ t) Hab)
                                    (eq_trans (eq_sym (app_assoc _ _ _))
                                              (f_equal (app out0) (eq_sym (concat_snoc a t)))))
                  [] out0 (eq_sym (app_nil_r out0))).
    cbv beta in H. change (fun (l : list str) t => Some (l ++ [t])) with wr_log in H.
    change (fun (w : str) t => Some (w ++ t)) with wr_str in H.
    rewrite Hlog in H. destruct H as (o2 & -> & Hs). destruct o2 as [out|b]; cbn in Hs; [|contradiction].
    subst out. reflexivity.
  Qed.

  Lemma log_of_str out0 s out :
    F str wr_str out0 = RDone s (SinkTop out) ->
    exists l, F (list str) wr_log [] = RDone s (SinkTop l) /\ out = out0 ++ concat l.
  Proof.
    intros Hstr.
    pose proof (total_pair str (list str) (fun w t => w ++ t) (fun l t => l ++ [t])
                           (fun out l => out = out0 ++ concat l)) as H.
    specialize (H (fun a b t Hab => eq_trans (f_equal (fun x => x ++ t) Hab)
                                    (eq_trans (eq_sym (app_assoc _ _ _))
                                              (f_equal (app out0) (eq_sym (concat_snoc b t)))))
                  out0 [] (eq_sym (app_nil_r out0))).
    cbv beta in H. change (fun (l : list str) t => Some (l ++ [t])) with wr_log in H.
    cbv beta in H. change (fun (w : str) t => Some (w ++ t)) with wr_str in H.
    rewrite Hstr in H. destruct H as (o2 & H & Hs). destruct o2 as [l|b]; cbn in Hs; [|contradiction].
    exists l. split; assumption.
  Qed.

  (* --- the sticky observer folds the log --- *)

  Lemma sticky_of_log (W : Type) (pw : pwriter W) wl0 s l :
    F (list str) wr_log [] = RDone s (SinkTop l) ->
    F (W * bool)%type (sticky pw) wl0 = RDone s (SinkTop (fold_left (sticky_step pw) l wl0)).
  Proof.
    intros Hlog.
    pose proof (total_pair (list str) (W * bool)%type (fun l t => l ++ [t]) (sticky_step pw)
                           (fun l wl => wl = fold_left (sticky_step pw) l wl0)) as H.
    specialize (H (fun a b t Hab => eq_trans (f_equal (fun x => sticky_step pw x t) Hab)
                                    (eq_sym (fold_left_app (sticky_step pw) a [t] wl0)))
                  [] wl0 eq_refl).
    cbv beta in H. change (fun (l : list str) t => Some (l ++ [t])) with wr_log in H.
    change (fun (w : W * bool) t => Some (sticky_step pw w t)) with (sticky pw) in H.
    rewrite Hlog in H. destruct H as (o2 & -> & Hs). destruct o2 as [wl|b]; cbn in Hs; [|contradiction].
    subst wl. reflexivity.
  Qed.

  (* --- the writer as the VM sees it, against its sticky observation --- *)

  Lemma gen_of_sticky (W : Type) (pw : pwriter W) w0 s w live :
    F (W * bool)%type (sticky pw) (w0, true) = RDone s (SinkTop (w, live)) ->
    F W (wr_of pw) w0 = if live then RDone s (SinkTop w) else RFail ErrIo.
  Proof.
    intros Hobs.
    pose proof (HF (W * bool)%type W (sticky pw) (wr_of pw)
                   (fun wl w2 => snd wl = true /\ fst wl = w2) (fun wl => snd wl = false)) as H.
    assert (Hc : forall (wl : W * bool) t wl', snd wl = false -> sticky pw wl t = Some wl' -> snd wl' = false).
    { intros [a lv] t wl' Hd E. cbn in Hd. subst lv. cbn in E. inversion E. reflexivity. }
    assert (Hs : forall (wl : W * bool) (w2 : W) t wl', (snd wl = true /\ fst wl = w2) -> sticky pw wl t = Some wl' ->
               (exists w2', wr_of pw w2 t = Some w2' /\ (snd wl' = true /\ fst wl' = w2')) \/
               (wr_of pw w2 t = None /\ snd wl' = false)).
    { intros [a lv] w2 t wl' [Hl Ha] E. cbn in Hl, Ha. subst lv w2. cbn in E. inversion E; subst wl'.
      unfold wr_of. destruct (pw a t) as [a' ok]. destruct ok.
      - left. exists a'. repeat split.
      - right. split; reflexivity. }
    specialize (H Hc Hs (w0, true) w0 (conj eq_refl eq_refl)).
    rewrite Hobs in H. cbn [out_rel] in H.
    destruct H as [(o2 & -> & Hr) | (-> & (a & Ha & Hd))].
    - destruct o2 as [w2|b]; cbn in Hr; [|contradiction]. destruct Hr as [-> ->]. reflexivity.
    - inversion Ha; subst a. cbn in Hd. subst live. reflexivity.
  Qed.

  (* --- a writer can only make a run fail earlier, with ErrIo --- *)

  Lemma gen_below (W W2 : Type) (wr : W -> str -> option W) (f2 : W2 -> str -> W2) w0 v0 :
    match F W wr w0 with
    | RDone s (SinkTop _) => exists v, F W2 (fun w t => Some (f2 w t)) v0 = RDone s (SinkTop v)
    | RDone s (SinkBuf b) => F W2 (fun w t => Some (f2 w t)) v0 = RDone s (SinkBuf b)
    | RFail e => F W2 (fun w t => Some (f2 w t)) v0 = RFail e \/ e = ErrIo
    | ROutOfFuel => F W2 (fun w t => Some (f2 w t)) v0 = ROutOfFuel
    end.
  Proof.
    pose proof (HF W W2 wr (fun w t => Some (f2 w t)) (fun _ _ => True) never (fun _ _ _ H _ => H)) as H.
    specialize (H (fun a b t a' _ _ => or_introl (ex_intro _ (f2 b t) (conj eq_refl I))) w0 v0 I).
    destruct (F W wr w0) as [s o1|e|]; cbn [out_rel] in H.
    - destruct H as [(o2 & -> & Hr) | (_ & (a & _ & []))].
      destruct o1 as [a|b], o2 as [v|b2]; cbn in Hr; try contradiction.
      + exists v. reflexivity.
      + subst b2. reflexivity.
    - destruct H as [H | [(He & _) | (_ & (a & []))]]; [left; exact H|right; exact He].
    - destruct H as [H | (_ & (a & []))]. exact H.
  Qed.

  (* ===================================== C18 statements ===================================== *)

  (* write_calls_are_ordered: whatever the writer, the run is determined by the sequence of
     write_all calls the infallible run makes at empty capture stack (the log), performed in that
     order up to the writer's first failure *)
  Theorem write_calls_are_ordered (W : Type) (pw : pwriter W) (w0 : W) (out0 : str) s l :
    F (list str) wr_log [] = RDone s (SinkTop l) ->
    F str wr_str out0 = RDone s (SinkTop (out0 ++ concat l)) /\
    F (W * bool)%type (sticky pw) (w0, true) = RDone s (SinkTop (fold_left (sticky_step pw) l (w0, true))) /\
    F W (wr_of pw) w0 = match feed (wr_of pw) w0 l with
                        | Some w => RDone s (SinkTop w)
                        | None => RFail ErrIo
                        end.
  Proof.
    intros Hlog. split; [exact (str_of_log out0 s l Hlog)|].
    pose proof (sticky_of_log W pw (w0, true) s l Hlog) as Hobs. split; [exact Hobs|].
    destruct (fold_left (sticky_step pw) l (w0, true)) as [w live] eqn:Ef.
    rewrite (gen_of_sticky W pw w0 s w live Hobs).
    pose proof (sticky_feed pw l w0) as Hsf. rewrite Ef in Hsf.
    destruct (feed (wr_of pw) w0 l) as [w'|].
    - inversion Hsf; subst. reflexivity.
    - cbn in Hsf. subst live. reflexivity.
  Qed.

  (* when the template itself fails (or runs out of fuel) the writer can only turn that into ErrIo *)
  Theorem write_calls_failing_run (W : Type) (wr : W -> str -> option W) (w0 : W) :
    (forall e, F (list str) wr_log [] = RFail e -> F W wr w0 = RFail e \/ F W wr w0 = RFail ErrIo) /\
    (F (list str) wr_log [] = ROutOfFuel -> F W wr w0 = ROutOfFuel \/ F W wr w0 = RFail ErrIo).
  Proof.
    pose proof (gen_below W (list str) wr (fun l t => l ++ [t]) w0 []) as H.
    cbv beta in H. change (fun (l : list str) t => Some (l ++ [t])) with wr_log in H.
    split; [intros e Hl|intros Hl]; rewrite Hl in H; destruct (F W wr w0) as [s [a|b]|e'|].
    - destruct H; discriminate.
    - discriminate.
    - destruct H as [H | ->]; [inversion H; left; reflexivity|right; reflexivity].
    - discriminate.
    - destruct H; discriminate.
    - discriminate.
    - destruct H as [H | ->]; [discriminate|right; reflexivity].
    - left. reflexivity.
  Qed.

  (* failing_writer_prefix *)
  Theorem failing_writer_prefix (W : Type) (pw : pwriter W) (acc : W -> str) :
    pw_lawful pw acc -> forall w0,
    let gen := F W (wr_of pw) w0 in
    let obs := F (W * bool)%type (sticky pw) (w0, true) in
    let inf := F str wr_str [] in
    (* (a) success: same final state, the writer accepted exactly the infallible output, no call failed *)
    (forall s w, gen = RDone s (SinkTop w) ->
       exists out, inf = RDone s (SinkTop out) /\ acc w = acc w0 ++ out /\ obs = RDone s (SinkTop (w, true))) /\
    (* (b) failure: the template's own failure, or an I/O error *)
    (forall e, gen = RFail e -> inf = RFail e \/ e = ErrIo) /\
    (* (b', c) when the full output exists: the writer observed from outside ends having accepted a
       prefix of it; the render succeeded iff no call failed, and otherwise returned ErrIo *)
    (forall s out, inf = RDone s (SinkTop out) ->
       exists w live p, obs = RDone s (SinkTop (w, live)) /\ acc w = acc w0 ++ p /\ prefix p out /\
         (if live then gen = RDone s (SinkTop w) /\ p = out else gen = RFail ErrIo)) /\
    (gen = ROutOfFuel -> inf = ROutOfFuel).
  Proof.
    intros Hl w0 gen obs inf.
    assert (Hc : forall s out, inf = RDone s (SinkTop out) ->
       exists w live p, obs = RDone s (SinkTop (w, live)) /\ acc w = acc w0 ++ p /\ prefix p out /\
         (if live then gen = RDone s (SinkTop w) /\ p = out else gen = RFail ErrIo)).
    { intros s out Hinf. destruct (log_of_str [] s out Hinf) as (l & Hlog & Hout). cbn in Hout. subst out.
      pose proof (sticky_of_log W pw (w0, true) s l Hlog) as Hobs.
      destruct (lawful_fold pw acc Hl l w0 true) as (p & Hp1 & Hp2 & Hp3).
      destruct (fold_left (sticky_step pw) l (w0, true)) as [w live] eqn:Ef. cbn [fst snd] in *.
      exists w, live, p. split; [exact Hobs|]. split; [exact Hp1|]. split; [exact Hp2|].
      unfold gen. rewrite (gen_of_sticky W pw w0 s w live Hobs). destruct live.
      - split; [reflexivity|apply Hp3; reflexivity].
      - reflexivity. }
    pose proof (gen_below W str (wr_of pw) (fun w t => w ++ t) w0 []) as Hb.
    cbv beta in Hb. change (fun (w : str) t => Some (w ++ t)) with wr_str in Hb. fold gen inf in Hb.
    split; [|split; [|split; [exact Hc|]]].
    - intros s w Hg. rewrite Hg in Hb. destruct Hb as (out & Hinf). exists out. split; [exact Hinf|].
      destruct (Hc s out Hinf) as (w' & live & p & Hobs & Hacc & _ & Hlive). destruct live.
      + destruct Hlive as [Hg' ->]. rewrite Hg in Hg'. inversion Hg'; subst w'. split; assumption.
      + rewrite Hg in Hlive. discriminate.
    - intros e Hg. rewrite Hg in Hb. exact Hb.
    - intros Hg. rewrite Hg in Hb. exact Hb.
  Qed.

  (* the formulation with an arbitrary VM-level writer and an observation of the accepted text *)
  Theorem accepting_writer_agrees (W : Type) (wr : W -> str -> option W) (acc : W -> str) :
    (forall w t w', wr w t = Some w' -> acc w' = acc w ++ t) ->
    forall w0 s w, F W wr w0 = RDone s (SinkTop w) ->
    exists out, F str wr_str [] = RDone s (SinkTop out) /\ acc w = acc w0 ++ out.
  Proof.
    intros Hacc w0 s w Hg.
    pose proof (HF W str wr wr_str (fun a out => acc a = acc w0 ++ out) never (fun _ _ _ H _ => H)) as H.
    assert (Hs : forall (a : W) (b : str) t a', acc a = acc w0 ++ b -> wr a t = Some a' ->
              (exists b', wr_str b t = Some b' /\ acc a' = acc w0 ++ b') \/ (wr_str b t = None /\ never a')).
    { intros a b t a' Hab E. left. exists (b ++ t). split; [reflexivity|].
      rewrite (Hacc _ _ _ E), Hab, app_assoc. reflexivity. }
    specialize (H Hs w0 [] (eq_sym (app_nil_r _))). rewrite Hg in H. cbn [out_rel] in H.
    destruct H as [(o2 & Hinf & Hr) | (_ & (a & _ & []))].
    destruct o2 as [out|b]; cbn in Hr; [|contradiction]. exists out. split; assumption.
  Qed.

  (* render_pure, part 1: the result does not depend on what the buffer already holds — the
     engine never reads back what it wrote, and nothing else survives a render *)
  Definition shift (h : str) (r : rres str) : rres str :=
    match r with RDone s (SinkTop b) => RDone s (SinkTop (h ++ b)) | r => r end.

  Theorem buffer_history_irrelevant (h : str) : F str wr_str h = shift h (F str wr_str []).
  Proof.
    pose proof (total_pair str str (fun w t => w ++ t) (fun w t => w ++ t) (fun b a => a = h ++ b)) as H.
    specialize (H (fun a b t Hab => eq_trans (f_equal (fun x => x ++ t) Hab) (eq_sym (app_assoc _ _ _)))
                  [] h (eq_sym (app_nil_r h))).
    cbv beta in H. change (fun (w : str) t => Some (w ++ t)) with wr_str in H.
    destruct (F str wr_str []) as [s o1|e|]; cbn [shift].
    - destruct H as (o2 & -> & Hs). destruct o1 as [b|b], o2 as [a|a]; cbn in Hs; try contradiction; subst; reflexivity.
    - exact H.
    - exact H.
  Qed.
End Consequences.

(* render_pure, part 2: renders performed one after another into one buffer give the
   concatenation of the same renders performed independently, each into a fresh buffer *)
Fixpoint render_seq (reqs : list runner) (w : str) : option str :=
  match reqs with
  | [] => Some w
  | F :: r => match F str wr_str w with
              | RDone _ (SinkTop w') => render_seq r w'
              | _ => None
              end
  end.

Fixpoint render_each (reqs : list runner) : option (list str) :=
  match reqs with
  | [] => Some []
  | F :: r => match F str wr_str [] with
              | RDone _ (SinkTop o) => option_map (cons o) (render_each r)
              | _ => None
              end
  end.

Theorem render_seq_independent : forall reqs, Forall simulable reqs -> forall h,
  render_seq reqs h = option_map (fun os => h ++ concat os) (render_each reqs).
Proof.
  induction reqs as [|F r IH]; intros Hall h.
  - cbn. rewrite app_nil_r. reflexivity.
  - inversion Hall as [|? ? HF Hr]; subst. cbn [render_seq render_each].
    rewrite (buffer_history_irrelevant F HF h).
    destruct (F str wr_str []) as [s [o|b]|e|]; cbn [shift]; try reflexivity.
    rewrite (IH Hr). destruct (render_each r) as [os|]; cbn; [|reflexivity].
    rewrite app_assoc. reflexivity.
Qed.

(* render_eq_render_to, block variant: the two-step shape (render everything into io::sink(),
   then write block_buffer) delivers exactly block_buffer *)
Theorem render_block_two_step wd fuel tpl b c g h s out :
  render_to str wr_str wd fuel tpl (Some b) c g h = RDone s (SinkTop out) ->
  out = h ++ block_buffer s /\
  exists discarded,
    run str wr_str wd fuel tpl None 0 (t_root_chunk tpl) 0
        {| stack := []; loops := []; setvars := []; caps := []; blocks := []; cur_block := None;
           parent := None; context := c; global := Some g; capture_block := Some b; block_buffer := [] |}
        (SinkBuf []) = RDone s discarded.
Proof.
  unfold render_to.
  destruct (run str wr_str wd fuel tpl None 0 (t_root_chunk tpl) 0 _ (SinkBuf [])) as [s1 o1|e|]; try discriminate.
  cbn. intros H. inversion H; subst. split; [reflexivity|]. exists o1. reflexivity.
Qed.

(* render_eq_render_to: the String-returning variant of an entry point is `res_of_run` of the
   writer variant on an empty Vec<u8>; against any other writer the writer variant delivers the
   same text, or fails with the same error class or ErrIo *)
Definition string_variant (F : runner) : res str := res_of_run (F str wr_str []).

Theorem string_variant_agrees (F : runner) : simulable F ->
  (forall (W : Type) (wr : W -> str -> option W) (acc : W -> str),
     (forall w t w', wr w t = Some w' -> acc w' = acc w ++ t) ->
     forall w0 s w, F W wr w0 = RDone s (SinkTop w) ->
     exists out, string_variant F = ROk out /\ acc w = acc w0 ++ out) /\
  (forall (W : Type) (wr : W -> str -> option W) w0 e,
     F W wr w0 = RFail e -> string_variant F = RErr e \/ e = ErrIo) /\
  (forall h, F str wr_str h = shift h (F str wr_str [])).
Proof.
  intros HF. split; [|split].
  - intros W wr acc Hacc w0 s w Hg.
    destruct (accepting_writer_agrees F HF W wr acc Hacc w0 s w Hg) as (out & Hinf & Ha).
    exists out. unfold string_variant. rewrite Hinf. split; [reflexivity|exact Ha].
  - intros W wr w0 e Hg. pose proof (gen_below F HF W str wr (fun w t => w ++ t) w0 []) as H.
    cbv beta in H. change (fun (w : str) t => Some (w ++ t)) with wr_str in H. rewrite Hg in H.
    destruct H as [H | H]; [left|right; exact H]. unfold string_variant. rewrite H. reflexivity.
  - apply buffer_history_irrelevant. exact HF.
Qed.

(* ------------------------------------------------------------------------------------------ *)
(* 6. the context and the global context are never written                                      *)
(* ------------------------------------------------------------------------------------------ *)

Section CtxInv.
  Variable W : Type.
  Variable wr : W -> str -> option W.
  Variable wd : world.

  Definition same_ctx (s s' : state) : Prop := context s' = context s /\ global s' = global s.
  Definition ctx_out (s : state) (r : rres W) : Prop :=
    match r with RDone s' _ => same_ctx s s' | _ => True end.

  Lemma ctx_out_trans s s1 r : same_ctx s s1 -> ctx_out s1 r -> ctx_out s r.
  Proof.
    intros [H1 H2]. destruct r as [s' o|e|]; cbn [ctx_out]; auto.
    intros [H3 H4]. split; congruence.
  Qed.

  Lemma pop1_same s v s1 : pop1 s = Some (v, s1) -> same_ctx s s1.
  Proof. unfold pop1. destruct (stack s); [discriminate|]. intros H; inversion H; subst. split; reflexivity. Qed.

  Lemma pop2_same s a b s1 : pop2 s = Some (a, b, s1) -> same_ctx s s1.
  Proof.
    unfold pop2. destruct (stack s) as [|x [|y t]]; try discriminate.
    intros H; inversion H; subst. split; reflexivity.
  Qed.

  Lemma store_local_context s n v : context (store_local s n v) = context s.
  Proof. unfold store_local. destruct (loops s); reflexivity. Qed.
  Lemma store_local_global s n v : global (store_local s n v) = global s.
  Proof. unfold store_local. destruct (loops s); reflexivity. Qed.

  Lemma emit_same s o t s' o' : emit W wr s o t = Some (s', o') -> same_ctx s s'.
  Proof.
    unfold emit. destruct (caps s).
    - destruct (sink_write W wr o t); [|discriminate]. intros H; inversion H; subst. split; reflexivity.
    - intros H; inversion H; subst. split; reflexivity.
  Qed.

  Lemma write_value_same ae s o v s' o' : write_value W wr wd ae s o v = Some (s', o') -> same_ctx s s'.
  Proof. unfold write_value. destruct (negb ae || value_is_safe v); apply emit_same. Qed.

  Ltac sc_hyps :=
    repeat match goal with
    | H : match pop1 ?s with _ => _ end = Some _ |- _ =>
        destruct (pop1 s) as [[? ?]|] eqn:?; [inversion H; subst; clear H|discriminate H]
    | H : pop1 _ = Some (_, _) |- _ => apply pop1_same in H
    | H : pop2 _ = Some (_, _, _) |- _ => apply pop2_same in H
    | H : emit _ _ _ _ _ = Some (_, _) |- _ => apply emit_same in H
    | H : write_value _ _ _ _ _ _ _ = Some (_, _) |- _ => apply write_value_same in H
    | H : same_ctx _ _ |- _ => destruct H
    end.

  Ltac sc :=
    sc_hyps; split;
    cbn [context global push upd_stack upd_loops upd_setvars upd_caps upd_blocks upd_block_buffer store_global] in *;
    rewrite ?store_local_context, ?store_local_global; congruence.

  Ltac cinv IH :=
    repeat match goal with
    | |- ctx_out _ (RFail _) => exact I
    | |- ctx_out _ ROutOfFuel => exact I
    | |- ctx_out _ (run _ _ _ _ _ _ _ _ _ _ _) => eapply ctx_out_trans; [|apply IH]; sc
    | |- ctx_out _ (match run _ _ _ ?f ?t ?ae ?d ?c ?ip ?s ?o with _ => _ end) =>
        let H := fresh "Hn" in
        pose proof (IH t ae d c ip s o) as H;
        destruct (run W wr wd f t ae d c ip s o); cbn [ctx_out] in H
    | |- ctx_out _ (match ?x with _ => _ end) => destruct x eqn:?
    end.

  Lemma run_same_ctx : forall fuel tpl ae depth ch ip s o,
    ctx_out s (run W wr wd fuel tpl ae depth ch ip s o).
  Proof.
    induction fuel as [|f IH]; intros tpl ae depth ch ip s o; [exact I|].
    cbn [run]. unfold fail.
    destruct (nth_error ch ip) as [i|]; [|split; reflexivity].
    destruct i; cinv IH.
  Qed.

  (* render_to hands back the context and global context it was given *)
  Lemma render_to_same_ctx fuel tpl block c g w s o :
    render_to W wr wd fuel tpl block c g w = RDone s o -> context s = c /\ global s = Some g.
  Proof.
    unfold render_to. destruct block as [b|].
    - match goal with |- context [run W wr wd fuel tpl None 0 (t_root_chunk tpl) 0 ?s0 (SinkBuf [])] =>
        pose proof (run_same_ctx fuel tpl None 0 (t_root_chunk tpl) 0 s0 (SinkBuf [])) as H;
        destruct (run W wr wd fuel tpl None 0 (t_root_chunk tpl) 0 s0 (SinkBuf [])) as [s1 o1|e|] end;
        try discriminate.
      destruct (wr w (block_buffer s1)); [|discriminate]. intros E; inversion E; subst. exact H.
    - intros E.
      match goal with E : run W wr wd fuel tpl None 0 (t_root_chunk tpl) 0 ?s0 _ = _ |- _ =>
        pose proof (run_same_ctx fuel tpl None 0 (t_root_chunk tpl) 0 s0 (SinkTop w)) as H end.
      rewrite E in H. exact H.
  Qed.
End CtxInv.

Lemma run_same_ctx_eq W wr wd fuel tpl ae depth ch ip s o s' o' :
  run W wr wd fuel tpl ae depth ch ip s o = RDone s' o' ->
  context s' = context s /\ global s' = global s.
Proof.
  intros E. pose proof (run_same_ctx W wr wd fuel tpl ae depth ch ip s o) as H.
  rewrite E in H. exact H.
Qed.

(* both channels of render_component enter the component chunk at component_recursion_depth 0:
   the writer variant by definition of tera_render_component_to, the String variant because it is
   that same function on a Vec<u8> (the engine side of this is the channel-agreement oracle swept
   across MAX_COMPONENT_RECURSION_DEPTH) *)
Lemma component_channels_same_depth wd fuel comp src supplied body ae def cchunk cctx :
  assoc_get (w_components wd) comp = Some (def, cchunk) ->
  w_build_ctx wd def supplied (option_map (fun b => VStr b true) body) = ROk cctx ->
  (forall (W : Type) (wr : W -> str -> option W) (w : W),
     tera_render_component_to W wr wd fuel comp src supplied body ae w
     = run W wr wd fuel src (Some ae) 0 cchunk 0 (new_state cctx) (SinkTop w)) /\
  tera_render_component wd fuel comp src supplied body ae
  = res_of_run (run str wr_str wd fuel src (Some ae) 0 cchunk 0 (new_state cctx) (SinkTop [])).
Proof.
  intros Hc Hb. unfold tera_render_component, tera_render_component_to. rewrite Hc, Hb.
  split; [intros; reflexivity|reflexivity].
Qed.

(* ------------------------------------------------------------------------------------------ *)
(* 7. histories: renders leave no trace in the engine                                           *)
(* ------------------------------------------------------------------------------------------ *)

(* The formal counterpart of the purity-history oracle of harness/src/c18_history.rs. An engine
   operation either changes the world (registration, configuration: any function world -> world)
   or renders (any function of the world and a request: tera_render, tera_render_block, ...).
   True by construction — `render` gets the world as an argument and returns only its result —
   and stated so that the oracle's reference engine ("the same history without the renders") has
   a definition. *)
Section History.
  Variable req : Type.
  Variable render : world -> req -> res str.

  Inductive hop := HReg (f : world -> world) | HRender (r : req).

  Fixpoint run_history (wd : world) (h : list hop) : world * list (res str) :=
    match h with
    | [] => (wd, [])
    | HReg f :: t => run_history (f wd) t
    | HRender r :: t => let (w', outs) := run_history wd t in (w', render wd r :: outs)
    end.

  Definition is_reg (o : hop) : bool := match o with HReg _ => true | HRender _ => false end.
  Definition strip_renders (h : list hop) : list hop := filter is_reg h.

  Lemma history_world_ignores_renders : forall h wd,
    fst (run_history wd h) = fst (run_history wd (strip_renders h)).
  Proof.
    induction h as [|o t IH]; intros wd; [reflexivity|]. destruct o as [f|r].
    - cbn [strip_renders filter is_reg run_history]. apply IH.
    - cbn [strip_renders filter is_reg run_history]. destruct (run_history wd t) as [w' outs] eqn:E.
      cbn [fst]. specialize (IH wd). rewrite E in IH. exact IH.
  Qed.

  Lemma history_no_renders_no_outputs : forall h wd, snd (run_history wd (strip_renders h)) = [].
  Proof.
    induction h as [|o t IH]; intros wd; [reflexivity|]. destruct o as [f|r];
      cbn [strip_renders filter is_reg run_history]; apply IH.
  Qed.

  (* a render in the middle of a history returns what it returns on the engine built by the
     registrations before it alone *)
  Lemma history_render_result : forall h1 r h2 wd,
    nth_error (snd (run_history wd (h1 ++ HRender r :: h2))) (length (filter (fun o => negb (is_reg o)) h1))
    = Some (render (fst (run_history wd (strip_renders h1))) r).
  Proof.
    induction h1 as [|o t IH]; intros r h2 wd.
    - cbn [app run_history filter length strip_renders]. destruct (run_history wd h2). reflexivity.
    - destruct o as [f|r0]; cbn [app run_history filter is_reg negb length strip_renders].
      + apply IH.
      + specialize (IH r h2 wd). destruct (run_history wd (t ++ HRender r :: h2)) as [w' outs].
        cbn [snd nth_error length]. cbn [snd] in IH. rewrite IH. reflexivity.
  Qed.
End History.
