(* Proofs/WsFilterProofs.v — whitespace_filter + drop-empty against the adjacency specification
   (for every document, no well-formedness needed), the D6 witness for the pinned comment rule,
   rendering of the specified token list, and validate. *)
From TeraV Require Import Model.Value Model.Utf8Lex Model.Lexer Spec.Doc Model.LexerDoc Proofs.Utf8Proofs.
Local Open Scope N_scope.

(* ---------------------------------------------------------------- trimming algebra, conditional *)

Lemma raw_trim_compose : forall il ir lead trail body,
  trim_end_if trail (trim_start_if lead (trim_end_if ir (trim_start_if il body)))
  = trim_end_if (ir || trail) (trim_start_if (il || lead) body).
Proof.
  intros il ir lead trail body. unfold trim_end_if, trim_start_if.
  destruct il, ir, lead, trail; cbn [orb];
    repeat first [ rewrite trim_start_idem | rewrite trim_end_idem
                 | rewrite trim_start_end_comm, trim_start_idem
                 | rewrite trim_start_end_comm ]; try reflexivity.
Qed.

(* ---------------------------------------------------------------- one step of the filter *)

Definition annot (ts : list tok) : list (tok * unit) := map (fun t => (t, tt)) ts.

Lemma wsf_nil : forall fx f, wsf fx f [] = [].
Proof. reflexivity. Qed.

Lemma wsf_content : forall fx f s ts,
  wsf fx f (TContent s :: ts)
  = TContent (trim_end_if (peek_trims (annot ts)) (trim_start_if f s)) :: wsf fx false ts.
Proof. intros. unfold wsf. cbn. destruct f, (peek_trims _); reflexivity. Qed.

Lemma wsf_raw : forall fx f l s r ts,
  wsf fx f (TRaw l s r :: ts)
  = TContent (trim_end_if (peek_trims (annot ts)) (trim_start_if f s)) :: wsf fx r ts.
Proof. intros. unfold wsf. cbn. destruct f, (peek_trims _); reflexivity. Qed.

Lemma wsf_comment : forall fx f l r ts,
  wsf fx f (TComment l r :: ts) = TContent [] :: wsf fx (comment_flag fx f r) ts.
Proof. reflexivity. Qed.

Lemma wsf_var : forall fx f l r ts,
  wsf fx f (TVarStart l :: TVarEnd r :: ts) = TVarStart l :: TVarEnd r :: wsf fx r ts.
Proof. intros. unfold wsf. cbn. destruct r; reflexivity. Qed.

Lemma wsf_tag : forall fx f l r ts,
  wsf fx f (TTagStart l :: TTagEnd r :: ts) = TTagStart l :: TTagEnd r :: wsf fx r ts.
Proof. intros. unfold wsf. cbn. destruct r; reflexivity. Qed.

Lemma peek_items_of : forall dc, peek_trims (annot (items_of dc)) = trail_of dc.
Proof.
  intros [|it rest]; [reflexivity|].
  destruct it as [s|l b r|l il b ir r|l s r|l s r]; cbn; try reflexivity; destruct l; reflexivity.
Qed.

Lemma drop_empty_text : forall s ts,
  drop_empty (TContent s :: ts) = flat_map seg_toks (text_seg s) ++ drop_empty ts.
Proof. intros [|b s] ts; reflexivity. Qed.

(* ---------------------------------------------------------------- the filter is the specification *)

Lemma wsf_fixed_spec_gen : forall dc prev,
  drop_empty (wsf true (lead_of prev) (items_of dc)) = flat_map seg_toks (spec_segs prev dc).
Proof.
  induction dc as [|it rest IH]; intro prev; [reflexivity|].
  change (items_of (it :: rest)) with (item_toks it ++ items_of rest).
  cbn [spec_segs]. rewrite flat_map_app.
  destruct it as [s|l b r|l il b ir r|l s r|l s r]; cbn [item_toks app].
  - rewrite wsf_content, drop_empty_text, peek_items_of. f_equal. apply (IH (Some (Text s))).
  - rewrite wsf_comment. cbn [comment_flag]. apply (IH (Some (Comment l b r))).
  - rewrite wsf_raw, drop_empty_text, peek_items_of, raw_trim_compose. f_equal.
    apply (IH (Some (Raw l il b ir r))).
  - rewrite wsf_var. cbn [flat_map seg_toks app]. unfold drop_empty. cbn [filter is_empty_content negb].
    f_equal. f_equal. apply (IH (Some (Expr l s r))).
  - rewrite wsf_tag. cbn [flat_map seg_toks app]. unfold drop_empty. cbn [filter is_empty_content negb].
    f_equal. f_equal. apply (IH (Some (Tag l s r))).
Qed.

Lemma wsf_fixed_spec : forall dc, drop_empty (wsf true false (items_of dc)) = spec_toks dc.
Proof. intro dc. exact (wsf_fixed_spec_gen dc None). Qed.

(* D6: with the comment rule of the pinned lexer.rs (685-691) the statement is false:
   A {{ 1 -}}{# c #}  B  — the flag set by `-}}` survives the comment and trims "  B",
   which is not directly adjacent to the expression. *)
Definition d6_witness : doc :=
  [Text [0x41; 0x20]; Expr false [0x20; 0x31; 0x20] true; Comment false [0x20; 0x63; 0x20] false;
   Text [0x20; 0x20; 0x42]].

Lemma wsf_pinned_refuted :
  exists dc, drop_empty (wsf false false (items_of dc)) <> spec_toks dc.
Proof. exists d6_witness. vm_compute. discriminate. Qed.

(* the two rules differ only behind a comment without closing marker while the flag is up *)
Lemma comment_flag_differs : forall flag e,
  comment_flag false flag e <> comment_flag true flag e <-> flag = true /\ e = false.
Proof. intros [|] [|]; cbn; split; intro H; try tauto; try congruence; destruct H; congruence. Qed.

(* ---------------------------------------------------------------- rendering *)

Lemma render_spec_toks_gen : forall out_of segs k,
  render_text_from out_of k (flat_map seg_toks segs) = segs_bytes out_of k segs.
Proof.
  induction segs as [|s segs IH]; intro k; [reflexivity|].
  destruct s as [s|l r|l r]; cbn; now rewrite IH.
Qed.

Lemma render_spec_toks : forall out_of dc,
  render_text out_of (spec_toks dc) = spec_render out_of dc.
Proof. intros. apply render_spec_toks_gen. Qed.

(* ---------------------------------------------------------------- validate *)

Lemma validate_spec_lemma : forall dl, validate dl = ROk tt <-> spelling_ok (spelling_of dl).
Proof.
  intro dl. unfold validate, spelling_ok, spelling_of. cbn [bs be vs ve cs ce].
  destruct (Nat.eqb (length (d_bs dl)) 2) eqn:E1; cbn [negb];
    [apply Nat.eqb_eq in E1|apply Nat.eqb_neq in E1; split; [discriminate|tauto]].
  destruct (Nat.eqb (length (d_be dl)) 2) eqn:E2; cbn [negb];
    [apply Nat.eqb_eq in E2|apply Nat.eqb_neq in E2; split; [discriminate|tauto]].
  destruct (Nat.eqb (length (d_vs dl)) 2) eqn:E3; cbn [negb];
    [apply Nat.eqb_eq in E3|apply Nat.eqb_neq in E3; split; [discriminate|tauto]].
  destruct (Nat.eqb (length (d_ve dl)) 2) eqn:E4; cbn [negb];
    [apply Nat.eqb_eq in E4|apply Nat.eqb_neq in E4; split; [discriminate|tauto]].
  destruct (Nat.eqb (length (d_cs dl)) 2) eqn:E5; cbn [negb];
    [apply Nat.eqb_eq in E5|apply Nat.eqb_neq in E5; split; [discriminate|tauto]].
  destruct (Nat.eqb (length (d_ce dl)) 2) eqn:E6; cbn [negb];
    [apply Nat.eqb_eq in E6|apply Nat.eqb_neq in E6; split; [discriminate|tauto]].
  destruct (bytes_eqb (d_bs dl) (d_vs dl)) eqn:B1;
    [apply bytes_eqb_eq in B1; split; [discriminate|tauto]|apply bytes_eqb_neq in B1].
  destruct (bytes_eqb (d_bs dl) (d_cs dl)) eqn:B2;
    [apply bytes_eqb_eq in B2; split; [discriminate|tauto]|apply bytes_eqb_neq in B2].
  destruct (bytes_eqb (d_vs dl) (d_cs dl)) eqn:B3;
    [apply bytes_eqb_eq in B3; split; [discriminate|tauto]|apply bytes_eqb_neq in B3].
  split; [intros _; tauto|reflexivity].
Qed.

(* ---------------------------------------------------------------- the filter and the inner tokens *)

(* The filter runs on the full token stream; the specification speaks about the template-level
   tokens.  On streams where every token of a tag's interior directly follows the tag's start
   token or another interior token (as in every stream the lexer produces) the two commute. *)
Definition is_open (t : tok) : bool :=
  match t with TVarStart _ | TTagStart _ => true | _ => false end.

Fixpoint inner_placed (b : bool) (ts : list tok) : bool :=
  match ts with
  | [] => true
  | t :: r => if is_template_tok t then inner_placed (is_open t) r else b && inner_placed true r
  end.

Definition passes (t : tok) : bool :=
  match t with
  | TContent _ | TRaw _ _ _ | TComment _ _ | TVarEnd true | TTagEnd true => false
  | _ => true
  end.

Lemma wsf_pass : forall fx f t ts, passes t = true -> wsf fx f (t :: ts) = t :: wsf fx false ts.
Proof.
  intros fx f t ts H.
  destruct t as [s|l s r|w|w|w|w|l r|s|s|z|s|b|o]; try discriminate; try reflexivity;
    destruct w; try discriminate; reflexivity.
Qed.

Lemma wsf_varend : forall fx f w ts, wsf fx f (TVarEnd w :: ts) = TVarEnd w :: wsf fx w ts.
Proof. intros fx f [|] ts; reflexivity. Qed.

Lemma wsf_tagend : forall fx f w ts, wsf fx f (TTagEnd w :: ts) = TTagEnd w :: wsf fx w ts.
Proof. intros fx f [|] ts; reflexivity. Qed.

Lemma peek_filter : forall ts, inner_placed false ts = true ->
  peek_trims (annot (filter is_template_tok ts)) = peek_trims (annot ts).
Proof.
  intros [|t r] H; [reflexivity|].
  destruct t as [s|l s r0|w|w|w|w|l r0|s|s|z|s|b|o]; try reflexivity; cbn in H; discriminate.
Qed.

Lemma wsf_proj : forall fx ts b flag,
  inner_placed b ts = true -> (b = true -> flag = false) ->
  filter is_template_tok (wsf fx flag ts) = wsf fx flag (filter is_template_tok ts).
Proof.
  intros fx. induction ts as [|t r IH]; intros b flag P F; [reflexivity|].
  destruct t as [s|l s r0|w|w|w|w|l r0|s|s|z|s|c|o];
    cbn [inner_placed is_template_tok is_open] in P; cbn [filter is_template_tok].
  - rewrite !wsf_content. cbn [filter is_template_tok]. rewrite (peek_filter r P). f_equal.
    apply (IH false); [exact P|discriminate].
  - rewrite !wsf_raw. cbn [filter is_template_tok]. rewrite (peek_filter r P). f_equal.
    apply (IH false); [exact P|discriminate].
  - rewrite !wsf_pass by reflexivity. cbn [filter is_template_tok]. f_equal.
    apply (IH true); [exact P|reflexivity].
  - rewrite !wsf_varend. cbn [filter is_template_tok]. f_equal. apply (IH false); [exact P|discriminate].
  - rewrite !wsf_pass by reflexivity. cbn [filter is_template_tok]. f_equal.
    apply (IH true); [exact P|reflexivity].
  - rewrite !wsf_tagend. cbn [filter is_template_tok]. f_equal. apply (IH false); [exact P|discriminate].
  - rewrite !wsf_comment. cbn [filter is_template_tok]. f_equal. apply (IH false); [exact P|discriminate].
  - apply andb_true_iff in P as [Pb P]. rewrite (F Pb). rewrite wsf_pass by reflexivity.
    cbn [filter is_template_tok]. apply (IH true); [exact P|reflexivity].
  - apply andb_true_iff in P as [Pb P]. rewrite (F Pb). rewrite wsf_pass by reflexivity.
    cbn [filter is_template_tok]. apply (IH true); [exact P|reflexivity].
  - apply andb_true_iff in P as [Pb P]. rewrite (F Pb). rewrite wsf_pass by reflexivity.
    cbn [filter is_template_tok]. apply (IH true); [exact P|reflexivity].
  - apply andb_true_iff in P as [Pb P]. rewrite (F Pb). rewrite wsf_pass by reflexivity.
    cbn [filter is_template_tok]. apply (IH true); [exact P|reflexivity].
  - apply andb_true_iff in P as [Pb P]. rewrite (F Pb). rewrite wsf_pass by reflexivity.
    cbn [filter is_template_tok]. apply (IH true); [exact P|reflexivity].
  - apply andb_true_iff in P as [Pb P]. rewrite (F Pb). rewrite wsf_pass by reflexivity.
    cbn [filter is_template_tok]. apply (IH true); [exact P|reflexivity].
Qed.
