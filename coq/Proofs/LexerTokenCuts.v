(* Proofs/LexerTokenCuts.v — the token byte ranges of Model/Lexer.v and the slicing offsets of
   Model/LexerSlices.v describe the same run: every token of an accepted run starts at 0, at the
   end of the previous cut or at the end of the whitespace advance!, and ends where an advance!
   ended.  With Proofs/LexerBoundary.v: every token range lies on character boundaries. *)
From Coq Require Import Arith Lia List.
From TeraV Require Import Model.Value Model.Utf8Lex Model.Lexer Model.LexerSlices Spec.Doc
  Proofs.Utf8Proofs Proofs.WsFilterProofs Proofs.LexerProofs Proofs.LexerSpans Proofs.LexerBoundary.
From TeraV Require Spec.Utf8Chars Model.Report.
Local Open Scope nat_scope.

(* every range of `pt`, laid out from offset o, starts at o or at a cut of L and ends at a cut of L *)
Definition cuts_ok (o : nat) (pt : list ptok) (L : list nat) : Prop :=
  forall s e, In (s, e) (offsets o pt) -> (s = o \/ In s L) /\ In e L.

Lemma offsets_app : forall a b o, offsets o (a ++ b) = offsets o a ++ offsets (o + consumed a) b.
Proof.
  induction a as [|[[t p] l] a IH]; intros b o; cbn [offsets consumed app].
  - rewrite Nat.add_0_r. reflexivity.
  - f_equal. rewrite IH. f_equal. f_equal. lia.
Qed.

Lemma offsets_last : forall a o, a <> [] -> exists s, In (s, o + consumed a) (offsets o a).
Proof.
  induction a as [|[[t p] l] a IH]; intros o NE; [contradiction|]. cbn [offsets consumed].
  destruct a as [|x a].
  - exists (o + p). left. cbn [consumed]. f_equal. lia.
  - destruct (IH (o + p + l) ltac:(discriminate)) as [s Hs]. exists s. right.
    replace (o + (p + l + consumed (x :: a))) with (o + p + l + consumed (x :: a)) by lia. exact Hs.
Qed.

Lemma cuts_ok_nil : forall o L, cuts_ok o [] L.
Proof. intros o L s e H. contradiction. Qed.

Lemma cuts_ok_incl : forall o pt L L', cuts_ok o pt L -> incl L L' -> cuts_ok o pt L'.
Proof.
  intros o pt L L' H I s e Hin. destruct (H s e Hin) as [[H1|H1] H2].
  - split; [left; exact H1|apply I; exact H2].
  - split; [right; apply I; exact H1|apply I; exact H2].
Qed.

Lemma cuts_ok_app : forall o a b La Lb,
  cuts_ok o a La -> cuts_ok (o + consumed a) b Lb -> cuts_ok o (a ++ b) (La ++ Lb).
Proof.
  intros o a b La Lb Ha Hb s e H. rewrite offsets_app in H. apply in_app_or in H. destruct H as [H|H].
  - destruct (Ha s e H) as [[H1|H1] H2].
    + split; [left; exact H1|apply in_or_app; left; exact H2].
    + split; [right; apply in_or_app; left; exact H1|apply in_or_app; left; exact H2].
  - destruct (Hb s e H) as [[H1|H1] H2].
    + split; [|apply in_or_app; right; exact H2].
      destruct a as [|x a].
      * left. cbn [consumed] in H1. lia.
      * destruct (offsets_last (x :: a) o ltac:(discriminate)) as [s' Hs'].
        destruct (Ha _ _ Hs') as [_ He]. right. apply in_or_app. left. rewrite H1. exact He.
    + split; [right; apply in_or_app; right; exact H1|apply in_or_app; right; exact H2].
Qed.

Lemma cuts_ok_cons : forall o t pre len r L,
  (pre = 0 \/ In (o + pre) L) -> In (o + pre + len) L ->
  cuts_ok (o + pre + len) r L -> cuts_ok o ((t, pre, len) :: r) L.
Proof.
  intros o t pre len r L Hs He Hr s e H. cbn [offsets] in H. destruct H as [H|H].
  - inversion H; subst s e. split; [|exact He]. destruct Hs as [->|Hs]; [left; lia|right; exact Hs].
  - destruct (Hr s e H) as [[H1|H1] H2]; split; try exact H2.
    + right. rewrite H1. exact He.
    + right. exact H1.
Qed.

(* ---------------------------------------------------------------- inside a tag *)

Lemma inner_token_len_in : forall s t n, inner_token s = Some (t, n) -> In n (inner_slices s).
Proof.
  intros s t n H. unfold inner_token in H. unfold inner_slices.
  destruct s as [|b1 t1]; [discriminate|].
  destruct (starts_with _ (b1 :: t1)); [inversion H; left; reflexivity|].
  destruct (match t1 with b2 :: _ => op2_of b1 b2 | [] => None end); [inversion H; left; reflexivity|].
  destruct (op1_of b1); [inversion H; left; reflexivity|].
  destruct (is_quote b1).
  { unfold lex_string in H. cbn [tl] in *.
    destruct (str_scan t1 b1 false) as [k h].
    destruct (byte_at_is (b1 :: t1) (k + 1) b1); cbn [negb] in *; [|discriminate].
    destruct h; [destruct (unescape _); [|discriminate]|]; inversion H; left; reflexivity. }
  destruct (is_ascii_digit b1).
  { unfold lex_number in H. destruct (num_scan (b1 :: t1) false) as [k f]. cbn [fst].
    destruct f; [inversion H; left; reflexivity|].
    destruct (_ <=? _)%Z; [inversion H; left; reflexivity|discriminate]. }
  destruct (ident_scan (b1 :: t1) true) as [|k]; [discriminate|].
  destruct (_ || _); [inversion H; left; reflexivity|].
  destruct (_ || _); inversion H; left; reflexivity.
Qed.

Lemma scan_inside_cuts : forall fuel e s o te,
  match scan_inside fuel e s with
  | IEnd toks w pre rest => cuts_ok o (toks ++ [(te, pre, mlen w)]) (inside_slices fuel e s o)
  | IEof toks => cuts_ok o toks (inside_slices fuel e s o)
  | IErr => True
  end.
Proof.
  induction fuel as [|f IH]; intros e s o te; [exact I|]. cbn [scan_inside inside_slices].
  set (pre := length s - length (skip_ascii_ws s)).
  assert (PS : forall L, pre = 0 \/ In (o + pre) ((if Nat.eqb pre 0 then [] else [o + pre]) ++ L)).
  { intro L. destruct (Nat.eqb pre 0) eqn:Z; [left; apply Nat.eqb_eq; exact Z|right; left; reflexivity]. }
  destruct (skip_ascii_ws s) as [|b0 t0] eqn:E1; [apply cuts_ok_nil|]. rewrite <- E1 in *.
  destruct ((b0 =? dash)%N && starts2 e t0).
  { cbn [app mlen]. apply cuts_ok_cons; [apply PS| |apply cuts_ok_nil].
    apply in_or_app. right. left. reflexivity. }
  destruct (starts2 e (skip_ascii_ws s)).
  { cbn [app mlen]. apply cuts_ok_cons; [apply PS| |apply cuts_ok_nil].
    apply in_or_app. right. left. reflexivity. }
  destruct (inner_token (skip_ascii_ws s)) as [[t len]|] eqn:T; [|exact I].
  apply inner_token_len_in in T.
  assert (HE : forall L, In (o + pre + len)
            ((if Nat.eqb pre 0 then [] else [o + pre]) ++ map (Nat.add (o + pre)) (inner_slices (skip_ascii_ws s)) ++ L)).
  { intro L. apply in_or_app. right. apply in_or_app. left. apply in_map_iff. exists len. split; [reflexivity|exact T]. }
  specialize (IH e (skipn len (skip_ascii_ws s)) (o + pre + len) te).
  destruct (scan_inside f e (skipn len (skip_ascii_ws s))) as [toks w pre' rest|toks|]; cbn [ires_cons]; [| |exact I].
  - cbn [app]. apply cuts_ok_cons; [apply PS|apply HE|].
    eapply cuts_ok_incl; [exact IH|]. intros x Hx. apply in_or_app. right. apply in_or_app. right. exact Hx.
  - apply cuts_ok_cons; [apply PS|apply HE|].
    eapply cuts_ok_incl; [exact IH|]. intros x Hx. apply in_or_app. right. apply in_or_app. right. exact Hx.
Qed.

Lemma raw_loop_adv_in : forall fuel dl rest bstart off w body we adv o,
  raw_loop fuel dl rest bstart off w = Some (body, we, adv) ->
  In (o + adv) (raw_slices fuel dl rest bstart off o).
Proof.
  induction fuel as [|f IH]; intros dl rest bstart off w body we adv o H; [discriminate|].
  cbn [raw_loop] in H. cbn [raw_slices].
  destruct (memstr (skipn off rest) (d_bs dl)) as [block|]; [|discriminate].
  destruct (skip_tag (skipn (off + block + 2) rest) name_endraw (d_be dl)) as [[en we']|].
  - inversion H; subst. right. right. right. right. left. reflexivity.
  - right. right. eapply IH. exact H.
Qed.

(* ---------------------------------------------------------------- the whole run *)

Lemma consumed_snoc : forall toks te pre n, consumed (toks ++ [(te, pre, n)]) = consumed toks + pre + n.
Proof. intros. rewrite consumed_app. cbn [consumed]. lia. Qed.

Lemma lex_loop_cuts : forall fuel dl rest o pt,
  lex_loop fuel dl rest = ROk pt -> cuts_ok o pt (loop_slices fuel dl rest o).
Proof.
  induction fuel as [|f IH]; intros dl rest o pt H; [discriminate|].
  destruct rest as [|b0 rest0]; [inversion H; apply cuts_ok_nil|].
  set (rest := b0 :: rest0) in *. cbn [lex_loop loop_slices] in *. fold rest in H. fold rest.
  (* the part shared by {{ }} and a non-raw {% %} *)
  assert (INS : forall e ws rest1 ts te pt,
     length rest = mlen ws + length rest1 ->
     match scan_inside (S (length rest1)) e rest1 with
     | IEnd toks w pre rest2 =>
         res_cons ((ts, 0, mlen ws) :: toks ++ [(te w, pre, mlen w)]) (lex_loop f dl rest2)
     | IEof toks => ROk ((ts, 0, mlen ws) :: toks)
     | IErr => RErr ErrOther
     end = ROk pt ->
     cuts_ok o pt
       ((o + mlen ws) :: inside_slices (S (length rest1)) e rest1 (o + mlen ws) ++
        match scan_inside (S (length rest1)) e rest1 with
        | IEnd _ _ _ rest2 => loop_slices f dl rest2 (o + mlen ws + (length rest1 - length rest2))
        | _ => []
        end)).
  { intros e ws rest1 ts te pt' LR H'.
    pose proof (scan_inside_consumed (S (length rest1)) e rest1) as SC.
    destruct (scan_inside (S (length rest1)) e rest1) as [toks w pre rest2|toks|] eqn:SI; [| |discriminate].
    - destruct (lex_loop f dl rest2) as [pt2|] eqn:L2; [|discriminate]. cbn [res_cons] in H'.
      inversion H'; subst pt'. cbn [app].
      apply cuts_ok_cons; [left; reflexivity|left; lia|].
      eapply cuts_ok_incl; [|apply incl_tl; apply incl_refl].
      replace (o + 0 + mlen ws) with (o + mlen ws) by lia.
      apply cuts_ok_app.
      + pose proof (scan_inside_cuts (S (length rest1)) e rest1 (o + mlen ws) (te w)) as C.
        rewrite SI in C. exact C.
      + rewrite consumed_snoc.
        replace (o + mlen ws + (consumed toks + pre + mlen w))
          with (o + mlen ws + (length rest1 - length rest2)) by lia.
        apply IH. exact L2.
    - inversion H'; subst pt'.
      apply cuts_ok_cons; [left; reflexivity|left; lia|].
      eapply cuts_ok_incl; [|apply incl_tl; apply incl_refl].
      replace (o + 0 + mlen ws) with (o + mlen ws) by lia. rewrite app_nil_r.
      pose proof (scan_inside_cuts (S (length rest1)) e rest1 (o + mlen ws) ts) as C.
      rewrite SI in C. exact C. }
  destruct (starts2 (d_vs dl) rest) eqn:SV.
  { apply starts2_len in SV. destruct (check_ws_start rest) as [ws rest1] eqn:CW.
    apply check_ws_start_len in CW; [|exact SV].
    exact (INS (d_ve dl) ws rest1 (TVarStart ws) TVarEnd pt CW H). }
  destruct (starts2 (d_bs dl) rest) eqn:SB.
  { apply starts2_len in SB. destruct (check_ws_start rest) as [ws rest1] eqn:CW.
    apply check_ws_start_len in CW; [|exact SB].
    destruct (skip_tag rest1 name_raw (d_be dl)) as [[off w]|].
    - destruct (raw_loop (S (length rest1)) dl rest1 off off w) as [[[body we] adv]|] eqn:RL; [|discriminate].
      destruct (lex_loop f dl (skipn adv rest1)) as [pt2|] eqn:L2; [|discriminate]. cbn [res_cons] in H.
      inversion H; subst pt. cbn [app].
      apply cuts_ok_cons; [left; reflexivity| |].
      + right. apply in_or_app. left.
        replace (o + 0 + (mlen ws + adv)) with (o + mlen ws + adv) by lia.
        eapply raw_loop_adv_in. exact RL.
      + replace (o + 0 + (mlen ws + adv)) with (o + mlen ws + adv) by lia.
        eapply cuts_ok_incl; [apply IH; exact L2|].
        intros x Hx. right. apply in_or_app. right. exact Hx.
    - exact (INS (d_be dl) ws rest1 (TTagStart ws) TTagEnd pt CW H). }
  destruct (starts2 (d_cs dl) rest) eqn:SC.
  { apply starts2_len in SC. destruct (check_ws_start rest) as [ws rest1] eqn:CW.
    apply check_ws_start_len in CW; [|exact SC].
    destruct (memstr rest1 (d_ce dl)) as [ep|] eqn:M; [|discriminate].
    destruct (lex_loop f dl (skipn (ep + 2) rest1)) as [pt2|] eqn:L2; [|discriminate]. cbn [res_cons] in H.
    inversion H; subst pt. cbn [app].
    replace (mlen ws + ep + 2) with (mlen ws + (ep + 2)) by lia.
    apply cuts_ok_cons; [left; reflexivity| |].
    - right. left. lia.
    - replace (o + 0 + (mlen ws + (ep + 2))) with (o + mlen ws + (ep + 2)) by lia.
      eapply cuts_ok_incl; [apply IH; exact L2|]. intros x Hx. right. right. exact Hx. }
  destruct (find_start_marker dl rest) as [st|] eqn:F.
  - destruct (lex_loop f dl (skipn st rest)) as [pt2|] eqn:L2; [|discriminate]. cbn [res_cons] in H.
    inversion H; subst pt. cbn [app].
    apply cuts_ok_cons; [left; reflexivity|left; lia|].
    replace (o + 0 + st) with (o + st) by lia.
    eapply cuts_ok_incl; [apply IH; exact L2|]. intros x Hx. right. exact Hx.
  - inversion H; subst pt.
    apply cuts_ok_cons; [left; reflexivity|left; subst rest; cbn [length]; lia|apply cuts_ok_nil].
Qed.

(* EVERY TOKEN RANGE OF AN ACCEPTED RUN IS DELIMITED BY THE LISTED CUTS *)
Theorem token_ranges_are_cuts : forall dl src pt s e,
  lex_ptoks dl src = ROk pt -> In (s, e) (offsets 0 pt) ->
  (s = 0 \/ In s (slice_offsets dl src)) /\ In e (slice_offsets dl src).
Proof.
  intros dl src pt s e L H. unfold lex_ptoks in L. unfold slice_offsets.
  exact (lex_loop_cuts _ _ _ 0 _ L s e H).
Qed.

(* ... hence lies on character boundaries of the source *)
Theorem token_ranges_on_boundaries : forall dl src pt s e,
  validate dl = ROk tt -> delims_utf8 dl -> Utf8Chars.valid_utf8 src ->
  lex_ptoks dl src = ROk pt -> In (s, e) (offsets 0 pt) ->
  Report.is_char_boundary src s = true /\ Report.is_char_boundary src e = true.
Proof.
  intros dl src pt s e V U Vs L H.
  destruct (token_ranges_are_cuts dl src pt s e L H) as [[->|H1] H2].
  - split; [reflexivity|]. eapply slice_offsets_on_boundaries; eauto.
  - split; eapply slice_offsets_on_boundaries; eauto.
Qed.
