(* C06 — proofs about Model/ParseDepth.v.
   Part 1: the native call depth of the modelled parser is at most
           7 * MAX_RECURSION_DEPTH + MAX_ELIF_DEPTH + 7 for every token list and every outcome. *)
From Coq Require Import List Arith Bool ZArith Lia.
From TeraV Require Import Model.ParseDepth Proofs.ParseDepthEqs.
Import ListNotations.
Local Open Scope nat_scope.

Section Native.
Variable C : cfg.
Variable L : nat.
Hypothesis HL : c_elif_limit C = Some L.

Definition KN := 7.
Definition BN := KN * c_max_rd C + L + 7.

(* the invariant at the entry of a component whose offset within its level is `off` *)
Definition pre (off : nat) (s : st) : Prop :=
  native s <= KN * rd s + el s + off /\ rd s <= c_max_rd C /\ el s <= L /\ peak s <= BN.

Definition post {A} (s : st) (r : res A) : Prop :=
  match r with
  | ROk _ s' => rd s' = rd s /\ el s' = el s /\ native s' = native s /\ peak s' <= BN
  | RErr s' => peak s' <= BN
  | RPanic s' => peak s' <= BN
  | RFuel => True
  end.

Definition good {A} (off : nat) (m : M A) : Prop := forall s, pre off s -> post s (m s).

Lemma good_mono : forall A o o' (m : M A), o <= o' -> good o' m -> good o m.
Proof.
  intros A o o' m Hle H s (H1 & H2 & H3 & H4). apply H. unfold pre. repeat split; try assumption. lia.
Qed.

Lemma good_ret : forall A o (a : A), good o (ret a).
Proof. intros A o a s (H1 & H2 & H3 & H4). simpl. auto. Qed.
Lemma good_err : forall A o, good o (@err A).
Proof. intros A o s (H1 & H2 & H3 & H4). simpl. auto. Qed.
Lemma good_panic : forall A o, good o (@panic A).
Proof. intros A o s (H1 & H2 & H3 & H4). simpl. auto. Qed.

Lemma good_bind : forall A B o (m : M A) (k : A -> M B),
  good o m -> (forall a, good o (k a)) -> good o (bind m k).
Proof.
  intros A B o m k Hm Hk s Hp. unfold bind. specialize (Hm s Hp).
  destruct (m s) as [a s'| s' | s' |]; simpl in *; auto.
  destruct Hm as (E1 & E2 & E3 & E4). destruct Hp as (H1 & H2 & H3 & H4).
  assert (Hp' : pre o s') by (unfold pre; rewrite E1, E2, E3; auto).
  specialize (Hk a s' Hp'). destruct (k a s') as [b s''| s'' | s'' |]; simpl in *; auto.
  destruct Hk as (F1 & F2 & F3 & F4). repeat split; congruence || auto.
Qed.

(* components that touch none of rd, el, native, peak *)
Definition framed {A} (m : M A) : Prop :=
  forall s, match m s with
            | ROk _ s' | RErr s' | RPanic s' =>
                rd s' = rd s /\ el s' = el s /\ native s' = native s /\ peak s' = peak s
            | RFuel => True
            end.
Lemma good_framed : forall A o (m : M A), framed m -> good o m.
Proof.
  intros A o m Hf s (H1 & H2 & H3 & H4). specialize (Hf s).
  destruct (m s); simpl; auto; destruct Hf as (E1 & E2 & E3 & E4); try rewrite E4; auto.
Qed.

Lemma framed_peek : framed peek. Proof. intro s. simpl. auto. Qed.
Lemma framed_peek2 : framed peek2. Proof. intro s. simpl. auto. Qed.
Lemma framed_next : framed next_or_error.
Proof. intro s. unfold next_or_error. destruct (toks s) as [|t r]; simpl; auto. destruct t; simpl; auto. Qed.
Lemma framed_get : forall A (f : st -> A), framed (get f). Proof. intros A f s. simpl. auto. Qed.
Lemma framed_bump : framed (bump C).
Proof.
  intro s. unfold bump. destruct (c_expr_limit C) as [lim|]; simpl; auto.
  destruct (lim <? S (ht s)); simpl; auto.
Qed.
Lemma framed_upd : forall f,
  (forall s, rd (f s) = rd s /\ el (f s) = el s /\ native (f s) = native s /\ peak (f s) = peak s) ->
  framed (upd f).
Proof. intros f H s. simpl. apply H. Qed.

Lemma good_expect : forall o p, good o (expect p).
Proof.
  intros o p. unfold expect. apply good_bind; [apply good_framed, framed_next|].
  intro t. destruct (p t); [apply good_ret | apply good_err].
Qed.
Lemma good_expect_ident : forall o, good o expect_ident.
Proof.
  intro o. unfold expect_ident. apply good_bind; [apply good_framed, framed_next|].
  intro t. destruct t; try apply good_err. apply good_ret.
Qed.
Lemma good_next_is : forall o t, good o (next_is t).
Proof. intros o t. unfold next_is. apply good_bind; [apply good_framed, framed_peek|]. intro. apply good_ret. Qed.

(* one native frame: the callee sits one deeper; every offset is at most 7 *)
Lemma good_call : forall A o o' (m : M A), o + 1 <= o' -> o' <= 7 -> good o' m -> good o (call m).
Proof.
  intros A o o' m Ho Ho' Hm s (H1 & H2 & H3 & H4).
  assert (Hp : pre o' (enter s)).
  { unfold pre, BN, KN in *. cbn [enter native rd el peak].
    split; [lia|]. split; [assumption|]. split; [assumption|].
    apply Nat.max_lub; [assumption|lia]. }
  specialize (Hm (enter s) Hp). unfold call.
  destruct (m (enter s)) as [a s'| s' | s' |]; simpl in *; auto.
  destruct Hm as (E1 & E2 & E3 & E4). repeat split; auto. rewrite E3. reflexivity.
Qed.

(* recursion_depth += 1 ... -= 1 around a body that sits 7 offsets lower in the next level *)
Lemma good_counted : forall A o (m : M A), o <= 7 -> good 0 m -> good o (counted C m).
Proof.
  intros A o m Ho Hm s (H1 & H2 & H3 & H4). unfold counted. cbn [rd set_rd].
  destruct (c_max_rd C <? S (rd s)) eqn:Hc; simpl; auto.
  apply Nat.ltb_ge in Hc.
  assert (Hp : pre 0 (set_rd (S (rd s)) s)).
  { unfold pre, BN, KN in *. cbn [set_rd native rd el peak].
    split; [lia|]. split; [assumption|]. split; assumption. }
  specialize (Hm _ Hp).
  destruct (m (set_rd (S (rd s)) s)) as [a s'| s' | s' |]; simpl in *; auto.
  destruct Hm as (E1 & E2 & E3 & E4). rewrite E1. simpl. auto.
Qed.

Lemma good_sub_height : forall A o (m : M A), good o m -> good o (sub_height m).
Proof.
  intros A o m Hm s Hp. unfold sub_height.
  assert (Hp' : pre o (set_ht 0 s)) by exact Hp.
  specialize (Hm _ Hp'). destruct (m (set_ht 0 s)) as [a s'| s' | s' |]; simpl in *; auto.
Qed.

(* elif_depth += 1 ... -= 1: the body is one frame deeper, paid for by the counter *)
Lemma good_elif_counted : forall A o (m : M A), o <= 7 -> good o m -> good o (elif_counted C (call m)).
Proof.
  intros A o m Ho Hm s (H1 & H2 & H3 & H4). unfold elif_counted. rewrite HL. cbn [el set_el].
  destruct (L <? S (el s)) eqn:Hc; [exact H4|].
  apply Nat.ltb_ge in Hc.
  assert (Hp : pre o (enter (set_el (S (el s)) s))).
  { unfold pre, BN, KN in *. cbn [enter set_el native rd el peak].
    split; [lia|]. split; [assumption|]. split; [assumption|].
    apply Nat.max_lub; [assumption|lia]. }
  specialize (Hm _ Hp). unfold call.
  destruct (m (enter (set_el (S (el s)) s))) as [a s'| s' | s' |]; simpl in *; auto.
  destruct Hm as (E1 & E2 & E3 & E4). rewrite E2, E3. simpl. auto.
Qed.

(* ---------------- the offsets of the components *)

Record all_good (f : nat) : Prop := {
  g_ipe : forall bp, good 7 (inner_parse_expression C f bp);
  g_pe : forall bp, good 6 (parse_expression C f bp);
  g_peb : forall bp, good 1 (parse_expr_bp C f bp);
  g_bpl : forall bp n lhs, good 1 (bp_loop C f bp n lhs);
  g_pi : good 2 (parse_ident C f);
  g_il : forall e, good 2 (ident_loop C f e);
  g_ps : forall e, good 3 (parse_subscript C f e);
  g_pk : good 5 (parse_kwargs C f);
  g_kl : forall ns acc, good 5 (kwargs_loop C f ns acc);
  g_pf : forall e, good 4 (parse_filter C f e);
  g_pm : good 2 (parse_map C f);
  g_ml : forall l acc, good 2 (map_loop C f l acc);
  g_pa : good 2 (parse_array C f);
  g_al : forall l acc, good 2 (array_loop C f l acc);
  g_plc : forall e, good 3 (parse_list_comprehension C f e);
  g_pu : forall endp, good 4 (parse_until C f endp);
  g_ul : forall endp acc, good 1 (until_loop C f endp acc);
  g_pt : good 2 (parse_tag C f);
  g_pfor : good 3 (parse_for_loop C f);
  g_pif : good 3 (parse_if C f);
  g_pset : good 3 (parse_set C f);
  g_sfl : forall acc, good 3 (set_filters_loop C f acc) }.

Lemma good_fuel0 : forall A o, good o (fun _ : st => @RFuel A).
Proof. intros A o s _. exact I. Qed.

Lemma good_upd_frame : forall o f,
  (forall s, rd (f s) = rd s /\ el (f s) = el s /\ native (f s) = native s /\ peak (f s) = peak s) ->
  good o (upd f).
Proof. intros. apply good_framed, framed_upd. assumption. Qed.

Ltac frame_upd := apply good_upd_frame; intro; cbn; auto.

Ltac ih_tac :=
  match goal with
  | IH : all_good ?f |- _ =>
    first
    [ (* same frame: loops *)
      first [ apply (g_bpl f IH) | apply (g_il f IH) | apply (g_kl f IH) | apply (g_ml f IH) | apply (g_al f IH)
            | apply (g_ul f IH) | apply (g_sfl f IH) ]
    | (* one frame deeper *)
      eapply good_call;
      [ | | first [ apply (g_ipe f IH) | apply (g_pe f IH) | apply (g_peb f IH) | apply (g_pi f IH) | apply (g_ps f IH)
                  | apply (g_pk f IH) | apply (g_pf f IH) | apply (g_pm f IH) | apply (g_pa f IH) | apply (g_plc f IH)
                  | apply (g_pu f IH) | apply (g_ul f IH) | apply (g_pt f IH) | apply (g_pfor f IH) | apply (g_pif f IH)
                  | apply (g_pset f IH) ] ];
      lia ]
  end.

(* structural decomposition of a component body; recursive calls are closed by `ih` *)
Ltac gstep :=
  first
  [ apply good_ret | apply good_err | apply good_panic
  | apply good_expect | apply good_expect_ident | apply good_next_is
  | apply good_framed; first [apply framed_peek | apply framed_peek2 | apply framed_next | apply framed_get | apply framed_bump]
  | frame_upd
  | apply good_bind; [|intro]
  | ih_tac
  | match goal with
    | |- good _ (match ?x with _ => _ end) => destruct x
    | |- good _ (if ?x then _ else _) => destruct x
    end ].

Lemma all_good_0 : all_good 0.
Proof. constructor; intros; apply good_fuel0. Qed.

Lemma all_good_S : forall f, all_good f -> all_good (S f).
Proof.
  intros f IH.
  constructor; intros;
    first [ rewrite inner_parse_expression_eq | rewrite parse_expression_eq | rewrite parse_expr_bp_eq | rewrite bp_loop_eq
          | rewrite parse_ident_eq | rewrite ident_loop_eq | rewrite parse_subscript_eq | rewrite parse_kwargs_eq
          | rewrite kwargs_loop_eq | rewrite parse_filter_eq | rewrite parse_map_eq | rewrite map_loop_eq
          | rewrite parse_array_eq | rewrite array_loop_eq | rewrite parse_list_comprehension_eq | rewrite parse_until_eq
          | rewrite until_loop_eq | rewrite parse_tag_eq | rewrite parse_for_loop_eq | rewrite parse_if_eq
          | rewrite parse_set_eq | rewrite set_filters_loop_eq ];
    cbv zeta.
  - (* inner_parse_expression *)
    apply good_counted; [lia|]. apply good_sub_height.
    apply good_call with (o' := 1); [lia | lia | apply (g_peb f IH)].
  - (* parse_expression *)
    apply good_call with (o' := 7); [lia | lia | apply (g_ipe f IH)].
  - repeat gstep.
  - repeat gstep.
  - repeat gstep.
  - repeat gstep.
  - repeat gstep.
  - repeat gstep.
  - repeat gstep.
  - repeat gstep.
  - repeat gstep.
  - repeat gstep.
  - repeat gstep.
  - repeat gstep.
  - repeat gstep.
  - (* parse_until *)
    apply good_counted; [lia|]. apply good_call with (o' := 1); [lia | lia | apply (g_ul f IH)].
  - repeat gstep.
  - repeat gstep.
  - repeat gstep.
  - (* parse_if: the elif recursion goes through elif_counted *)
    repeat first
      [ apply (good_elif_counted _ 3 (parse_if C f)); [lia | apply (g_pif f IH)]
      | gstep ].
  - repeat gstep.
  - repeat gstep.
Qed.

Lemma all_good_any : forall f, all_good f.
Proof. induction f; [apply all_good_0 | apply all_good_S; assumption]. Qed.

Theorem native_depth_bounded : forall fuel ts,
  match parse C fuel ts with
  | ROk _ s => peak s <= BN
  | RErr s => peak s <= BN
  | RPanic s => peak s <= BN
  | RFuel => True
  end.
Proof.
  intros fuel ts. unfold parse.
  assert (Hg : good 2 (call (call (parse_until C fuel (fun _ => false))))).
  { eapply good_call with (o' := 3); [lia | lia |].
    eapply good_call with (o' := 4); [lia | lia |]. apply (g_pu _ (all_good_any fuel)). }
  assert (Hp : pre 2 (init ts)).
  { unfold pre, BN, KN, init. cbn [native rd el peak]. repeat split; lia. }
  specialize (Hg _ Hp).
  destruct (call (call (parse_until C fuel (fun _ => false))) (init ts)); simpl in *; tauto.
Qed.

End Native.
