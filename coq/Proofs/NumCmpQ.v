(* The exact order of Spec/Arith.v is the order of the rationals (Coq's QArith): the dyadic
   comparison `dy_cmp m1 e1 m2 e2` is Qcompare of m1 * 2^e1 and m2 * 2^e2. *)
From Coq Require Import ZArith QArith Qpower Lia.
From TeraV Require Import Spec.Arith.
Open Scope Q_scope.

(* m * 2^e as a rational *)
Definition dyQ (m e : Z) : Q := inject_Z m * (2 # 1) ^ e.

Lemma two_pow_pos : forall k : Z, 0 < (2 # 1) ^ k.
Proof. intro k. apply Qpower_0_lt. reflexivity. Qed.

Lemma dyQ_scale : forall m e k, (k <= e)%Z ->
  dyQ m e == inject_Z (m * 2 ^ (e - k)) * (2 # 1) ^ k.
Proof.
  intros m e k H. unfold dyQ.
  replace e with ((e - k) + k)%Z at 1 by lia.
  rewrite Qpower_plus by discriminate.
  rewrite inject_Z_mult, (Zpower_Qpower 2 (e - k)) by lia.
  change (inject_Z 2) with (2 # 1). ring.
Qed.

Lemma dy_cmp_is_Qcompare : forall m1 e1 m2 e2,
  dy_cmp m1 e1 m2 e2 = (dyQ m1 e1 ?= dyQ m2 e2).
Proof.
  intros m1 e1 m2 e2. unfold dy_cmp.
  set (k := Z.min e1 e2).
  pose proof (dyQ_scale m1 e1 k ltac:(unfold k; lia)) as E1.
  pose proof (dyQ_scale m2 e2 k ltac:(unfold k; lia)) as E2.
  pose proof (two_pow_pos k) as Hc.
  set (A := (m1 * 2 ^ (e1 - k))%Z) in *. set (B := (m2 * 2 ^ (e2 - k))%Z) in *.
  rewrite E1, E2.
  destruct (Z.compare_spec A B) as [H|H|H]; symmetry.
  - apply Qeq_alt. rewrite H. reflexivity.
  - apply Qlt_alt. apply Qmult_lt_compat_r; [exact Hc|]. rewrite <- Zlt_Qlt. exact H.
  - apply Qgt_alt. apply Qmult_lt_compat_r; [exact Hc|]. rewrite <- Zlt_Qlt. exact H.
Qed.

(* integers and doubles as rationals *)
Lemma dyQ_int : forall z, dyQ z 0 == inject_Z z.
Proof. intro z. unfold dyQ. change ((2 # 1) ^ 0) with 1. ring. Qed.
