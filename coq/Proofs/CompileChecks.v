(* C07 second tier: general facts about the validator's abstract states (reflexivity and
   transitivity of astate_sub, refinement of a pushed slot to TAny, tables agreeing with a
   segment, all_from from per-instruction facts) used by the assembly calculus of
   Proofs/CompileFrag.v.  The hand port of compile_expr that lived here (and the theorem
   C07_compile_always_checks_partial over it) is gone: the shared compiler port Model/Compile.v
   now has every expression form it had, and more (Proofs/CompileAlwaysChecks.v). *)
From TeraV Require Import Model.Value Model.Instr Model.VM Model.StackCheck.
Local Open Scope nat_scope.

Section Table.
  Variable lo : list (option nat).
  Variable ca : nat.
  Definition A (st : list aty) : astate := mkA st lo ca.

  Lemma all2_refl {X} (f : X -> X -> bool) : (forall x, f x x = true) -> forall l, all2 f l l = true.
  Proof. intros H. induction l as [|x l IH]; [reflexivity|]. cbn. rewrite H, IH. reflexivity. Qed.

  Lemma astate_sub_refl a : astate_sub a a = true.
  Proof.
    unfold astate_sub. rewrite (all2_refl ty_sub), (all2_refl lp_sub), Nat.eqb_refl; [reflexivity| |].
    - intros [t|]; cbn; [apply Nat.eqb_refl|reflexivity].
    - intros []; reflexivity.
  Qed.

  Lemma sub_top_any t st : astate_sub (A (t :: st)) (A (TAny :: st)) = true.
  Proof.
    unfold astate_sub, A. cbn [a_stack a_loops a_caps all2].
    rewrite (all2_refl ty_sub), (all2_refl lp_sub), Nat.eqb_refl.
    - destruct t; reflexivity.
    - intros [x|]; cbn; [apply Nat.eqb_refl|reflexivity].
    - intros []; reflexivity.
  Qed.

  Lemma ty_sub_trans a b c : ty_sub a b = true -> ty_sub b c = true -> ty_sub a c = true.
  Proof. destruct a, b, c; cbn; auto. Qed.

  Lemma lp_sub_trans a b c : lp_sub a b = true -> lp_sub b c = true -> lp_sub a c = true.
  Proof.
    destruct c as [z|]; [|reflexivity]. destruct b as [y|]; [|discriminate]. destruct a as [x|]; [|discriminate].
    cbn. intros H1 H2. apply Nat.eqb_eq in H1, H2. subst. apply Nat.eqb_refl.
  Qed.

  Lemma all2_trans {X} (f : X -> X -> bool) : (forall a b c, f a b = true -> f b c = true -> f a c = true) ->
    forall l1 l2 l3, all2 f l1 l2 = true -> all2 f l2 l3 = true -> all2 f l1 l3 = true.
  Proof.
    intros H. induction l1 as [|x l1 IH]; intros [|y l2] [|z l3]; cbn; try discriminate; auto.
    intros H1 H2. apply andb_prop in H1, H2. destruct H1 as [A1 B1]. destruct H2 as [A2 B2].
    rewrite (H _ _ _ A1 A2), (IH _ _ B1 B2). reflexivity.
  Qed.

  Lemma astate_sub_trans a b c : astate_sub a b = true -> astate_sub b c = true -> astate_sub a c = true.
  Proof.
    unfold astate_sub. intros H1 H2.
    apply andb_prop in H1, H2. destruct H1 as [H1 C1]. destruct H2 as [H2 C2].
    apply andb_prop in H1, H2. destruct H1 as [S1 L1]. destruct H2 as [S2 L2].
    rewrite (all2_trans _ ty_sub_trans _ _ _ S1 S2), (all2_trans _ lp_sub_trans _ _ _ L1 L2).
    apply Nat.eqb_eq in C1, C2. rewrite C1, C2, Nat.eqb_refl. reflexivity.
  Qed.

  (* the global table holds `sg` from position p on *)
  Definition agree (T : table) (p : nat) (sg : list astate) : Prop :=
    forall k a, nth_error sg k = Some a -> nth_error T (p + k) = Some (Some a).

  Lemma agree_app T p s1 s2 : agree T p (s1 ++ s2) -> agree T p s1 /\ agree T (p + length s1) s2.
  Proof.
    intros H. split; intros k a Hk.
    - apply H. rewrite nth_error_app1; [exact Hk|]. apply nth_error_Some. congruence.
    - rewrite <- Nat.add_assoc. apply H. rewrite nth_error_app2 by lia.
      replace (length s1 + k - length s1) with k by lia. exact Hk.
  Qed.

  Lemma nth_app_cases {X} (l1 l2 : list X) k x : nth_error (l1 ++ l2) k = Some x ->
    (k < length l1 /\ nth_error l1 k = Some x) \/ (length l1 <= k /\ nth_error l2 (k - length l1) = Some x).
  Proof.
    intros H. destruct (Nat.lt_ge_cases k (length l1)) as [Hl|Hl].
    - left. split; [exact Hl|]. rewrite nth_error_app1 in H by exact Hl. exact H.
    - right. split; [exact Hl|]. rewrite nth_error_app2 in H by exact Hl. exact H.
  Qed.

End Table.

Lemma all_from_intro tbl : forall c ip0,
  (forall k i, nth_error c k = Some i -> instr_ok tbl (ip0 + k) i = true) -> all_from tbl ip0 c = true.
Proof.
  induction c as [|x c IH]; intros ip0 H; [reflexivity|]. cbn [all_from].
  rewrite <- (Nat.add_0_r ip0) at 1. rewrite (H 0 x eq_refl). cbn [andb]. apply IH.
  intros k i Hk. replace (S ip0 + k) with (ip0 + S k) by lia. exact (H (S k) i Hk).
Qed.
