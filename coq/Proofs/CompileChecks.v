(* C07 second tier, PARTIAL: the validator accepts what the compiler emits, for every tree of an
   EXPRESSION fragment, by induction over the tree.

   LOCAL PORT, clearly labelled: `cexpr` below is a hand port of the expression arms of
   Compiler::compile_expr (tera/src/parsing/compiler.rs 112-419) written for this file only —
   constants, variables, attribute and subscript access (plain and optional), unary and binary
   operators, `and` / `or` (JumpIfFalseOrPop / JumpIfTrueOrPop back-patched to the end of the
   operator, 370-406), the ternary (PopJumpIfFalse / Jump back-patched, 243-254), filters,
   tests and function calls without keyword arguments (BuildMap 0). It is NOT the shared
   Model/Compile.v (another branch) and is not tied to the Rust code by a correspondence run;
   statements, keyword arguments, literals with elements, comprehensions and component calls
   are not covered: for those the guarantee is the validator run on every real chunk. *)
From TeraV Require Import Model.Value Model.Instr Model.VM Model.StackCheck.
Local Open Scope nat_scope.

Inductive binop :=
| BMul | BDiv | BFloorDiv | BMod | BPlus | BMinus | BPower
| BLt | BGt | BLe | BGe | BEq | BNe | BConcat | BIn.

Definition instr_of_binop (b : binop) : instr :=
  match b with
  | BMul => Mul | BDiv => Div | BFloorDiv => FloorDiv | BMod => Mod | BPlus => Plus
  | BMinus => Minus | BPower => Power | BLt => LessThan | BGt => GreaterThan
  | BLe => LessThanOrEqual | BGe => GreaterThanOrEqual | BEq => Equal | BNe => NotEqual
  | BConcat => StrConcat | BIn => InOp
  end.

Inductive expr :=
| XConst (v : value)
| XVar (n : str)
| XAttr (e : expr) (a : str) (opt : bool)
| XItem (e sub : expr) (opt : bool)
| XUn (neg : bool) (e : expr)
| XBin (op : binop) (l r : expr)
| XAnd (l r : expr)
| XOr (l r : expr)
| XTernary (c t f : expr)
| XFilter (e : expr) (name : str)
| XTest (e : expr) (name : str)
| XCall (name : str).

(* number of instructions emitted *)
Fixpoint clen (e : expr) : nat :=
  match e with
  | XConst _ | XVar _ => 1
  | XAttr e _ _ | XUn _ e => clen e + 1
  | XItem a b _ | XBin _ a b => clen a + clen b + 1
  | XAnd l r | XOr l r => clen l + 1 + clen r
  | XTernary c t f => clen c + 1 + clen t + 1 + clen f
  | XFilter e _ | XTest e _ => clen e + 2
  | XCall _ => 2
  end.

(* `p` is chunk.len() when compilation of the expression starts: jump targets are absolute *)
Fixpoint cexpr (e : expr) (p : nat) : list instr :=
  match e with
  | XConst v => [LoadConst v]
  | XVar n => [LoadName n]
  | XAttr e a opt => cexpr e p ++ [if opt then LoadAttrOpt a else LoadAttr a]
  | XItem e s opt =>
      cexpr e p ++ cexpr s (p + clen e) ++ [if opt then BinarySubscriptOpt else BinarySubscript]
  | XUn neg e => cexpr e p ++ [if neg then Negative else Not]
  | XBin op l r => cexpr l p ++ cexpr r (p + clen l) ++ [instr_of_binop op]
  | XAnd l r =>
      cexpr l p ++ [JumpIfFalseOrPop (p + clen l + 1 + clen r)] ++ cexpr r (p + clen l + 1)
  | XOr l r =>
      cexpr l p ++ [JumpIfTrueOrPop (p + clen l + 1 + clen r)] ++ cexpr r (p + clen l + 1)
  | XTernary c t f =>
      cexpr c p ++ [PopJumpIfFalse (p + clen c + 1 + clen t + 1)] ++ cexpr t (p + clen c + 1)
      ++ [Jump (p + clen c + 1 + clen t + 1 + clen f)] ++ cexpr f (p + clen c + 1 + clen t + 1)
  | XFilter e n => cexpr e p ++ [BuildMap 0; ApplyFilter n]
  | XTest e n => cexpr e p ++ [BuildMap 0; RunTest n]
  | XCall n => [BuildMap 0; CallFunction n]
  end.

(* `{{ e }}` as a whole chunk *)
Definition compile_print (e : expr) : list instr := cexpr e 0 ++ [WriteTop].

Lemma cexpr_length e : forall p, length (cexpr e p) = clen e.
Proof.
  induction e; intros p; cbn [cexpr clen]; rewrite ?app_length; cbn [length];
    rewrite ?IHe, ?IHe1, ?IHe2, ?IHe3; lia.
Qed.

Section Table.
  Variable lo : list (option nat).
  Variable ca : nat.
  Definition A (st : list aty) : astate := mkA st lo ca.

  (* the abstract state before each emitted instruction, for a value stack `st` underneath *)
  Fixpoint seg (e : expr) (st : list aty) : list astate :=
    match e with
    | XConst _ | XVar _ => [A st]
    | XAttr e _ _ | XUn _ e => seg e st ++ [A (TAny :: st)]
    | XItem a b _ | XBin _ a b => seg a st ++ seg b (TAny :: st) ++ [A (TAny :: TAny :: st)]
    | XAnd l r | XOr l r => seg l st ++ [A (TAny :: st)] ++ seg r st
    | XTernary c t f => seg c st ++ [A (TAny :: st)] ++ seg t st ++ [A (TAny :: st)] ++ seg f st
    | XFilter e _ | XTest e _ => seg e st ++ [A (TAny :: st); A (TMap :: TAny :: st)]
    | XCall _ => [A st; A (TMap :: st)]
    end.

  Lemma seg_length e : forall st, length (seg e st) = clen e.
  Proof.
    induction e; intros st; cbn [seg clen]; rewrite ?app_length; cbn [length];
      rewrite ?IHe, ?IHe1, ?IHe2, ?IHe3; lia.
  Qed.

  Lemma seg_hd e : forall st, nth_error (seg e st) 0 = Some (A st).
  Proof.
    induction e; intros st; cbn [seg]; try reflexivity;
      try (rewrite nth_error_app1; [auto|rewrite seg_length; destruct e; cbn; lia]);
      try (rewrite nth_error_app1; [auto|rewrite seg_length; destruct e1; cbn; lia]).
  Qed.

  Lemma all2_refl {X} (f : X -> X -> bool) : (forall x, f x x = true) -> forall l, all2 f l l = true.
  Proof. intros H. induction l as [|x l IH]; [reflexivity|]. cbn. rewrite H, IH. reflexivity. Qed.

  Lemma astate_sub_refl a : astate_sub a a = true.
  Proof.
    unfold astate_sub. rewrite (all2_refl ty_sub), (all2_refl lp_sub), Nat.eqb_refl; [reflexivity| |].
    - intros [t|]; cbn; [apply Nat.eqb_refl|reflexivity].
    - intros []; reflexivity.
  Qed.

  Lemma sub_top_any t st : astate_sub (A (t :: st)) (A (TAny :: st)) = true.
  Proof.
    unfold astate_sub, A. cbn [a_stack a_loops a_caps all2].
    rewrite (all2_refl ty_sub), (all2_refl lp_sub), Nat.eqb_refl.
    - destruct t; reflexivity.
    - intros [x|]; cbn; [apply Nat.eqb_refl|reflexivity].
    - intros []; reflexivity.
  Qed.

  Lemma ty_sub_trans a b c : ty_sub a b = true -> ty_sub b c = true -> ty_sub a c = true.
  Proof. destruct a, b, c; cbn; auto. Qed.

  Lemma lp_sub_trans a b c : lp_sub a b = true -> lp_sub b c = true -> lp_sub a c = true.
  Proof.
    destruct c as [z|]; [|reflexivity]. destruct b as [y|]; [|discriminate]. destruct a as [x|]; [|discriminate].
    cbn. intros H1 H2. apply Nat.eqb_eq in H1, H2. subst. apply Nat.eqb_refl.
  Qed.

  Lemma all2_trans {X} (f : X -> X -> bool) : (forall a b c, f a b = true -> f b c = true -> f a c = true) ->
    forall l1 l2 l3, all2 f l1 l2 = true -> all2 f l2 l3 = true -> all2 f l1 l3 = true.
  Proof.
    intros H. induction l1 as [|x l1 IH]; intros [|y l2] [|z l3]; cbn; try discriminate; auto.
    intros H1 H2. apply andb_prop in H1, H2. destruct H1 as [A1 B1]. destruct H2 as [A2 B2].
    rewrite (H _ _ _ A1 A2), (IH _ _ B1 B2). reflexivity.
  Qed.

  Lemma astate_sub_trans a b c : astate_sub a b = true -> astate_sub b c = true -> astate_sub a c = true.
  Proof.
    unfold astate_sub. intros H1 H2.
    apply andb_prop in H1, H2. destruct H1 as [H1 C1]. destruct H2 as [H2 C2].
    apply andb_prop in H1, H2. destruct H1 as [S1 L1]. destruct H2 as [S2 L2].
    rewrite (all2_trans _ ty_sub_trans _ _ _ S1 S2), (all2_trans _ lp_sub_trans _ _ _ L1 L2).
    apply Nat.eqb_eq in C1, C2. rewrite C1, C2, Nat.eqb_refl. reflexivity.
  Qed.

  (* the global table holds `sg` from position p on *)
  Definition agree (T : table) (p : nat) (sg : list astate) : Prop :=
    forall k a, nth_error sg k = Some a -> nth_error T (p + k) = Some (Some a).

  Lemma agree_app T p s1 s2 : agree T p (s1 ++ s2) -> agree T p s1 /\ agree T (p + length s1) s2.
  Proof.
    intros H. split; intros k a Hk.
    - apply H. rewrite nth_error_app1; [exact Hk|]. apply nth_error_Some. congruence.
    - rewrite <- Nat.add_assoc. apply H. rewrite nth_error_app2 by lia.
      replace (length s1 + k - length s1) with k by lia. exact Hk.
  Qed.

  Lemma nth_app_cases {X} (l1 l2 : list X) k x : nth_error (l1 ++ l2) k = Some x ->
    (k < length l1 /\ nth_error l1 k = Some x) \/ (length l1 <= k /\ nth_error l2 (k - length l1) = Some x).
  Proof.
    intros H. destruct (Nat.lt_ge_cases k (length l1)) as [Hl|Hl].
    - left. split; [exact Hl|]. rewrite nth_error_app1 in H by exact Hl. exact H.
    - right. split; [exact Hl|]. rewrite nth_error_app2 in H by exact Hl. exact H.
  Qed.

  (* one straight-line instruction *)
  Lemma one_ok T q i a a' b : nth_error T q = Some (Some a) -> astep i q a = Some [(S q, a')] ->
    nth_error T (S q) = Some (Some b) -> astate_sub a' b = true -> instr_ok T q i = true.
  Proof.
    intros H1 H2 H3 H4. unfold instr_ok. rewrite H1, H2. cbn [forallb]. unfold edge_ok. cbn [fst snd].
    rewrite H3, H4. reflexivity.
  Qed.

  Definition frag_ok (e : expr) (st : list aty) : Prop :=
    forall p T b, agree T p (seg e st) ->
      nth_error T (p + clen e) = Some (Some b) -> astate_sub (A (TAny :: st)) b = true ->
      forall k i, nth_error (cexpr e p) k = Some i -> instr_ok T (p + k) i = true.

  (* the entry right after a sub-fragment is the head of what follows *)
  Ltac idx := repeat rewrite ?app_length, ?seg_length, ?cexpr_length in *; cbn [length] in *.

  Lemma binop_step op q t1 t2 st :
    astep (instr_of_binop op) q (A (t1 :: t2 :: st)) = Some [(S q, A (TAny :: st))].
  Proof. destruct op; reflexivity. Qed.

  (* e ; i  where i pops the value of e (and nothing else) and pushes one *)
  Lemma frag_then_one e st i aout :
    frag_ok e st ->
    (forall q, astep i q (A (TAny :: st)) = Some [(S q, aout)]) ->
    forall p T b, agree T p (seg e st ++ [A (TAny :: st)]) ->
      nth_error T (p + (clen e + 1)) = Some (Some b) -> astate_sub aout b = true ->
      forall k j, nth_error (cexpr e p ++ [i]) k = Some j -> instr_ok T (p + k) j = true.
  Proof.
    intros He Hi p T b Hag Hexit Hsub k j Hk.
    destruct (agree_app _ _ _ _ Hag) as [Ha1 Ha2]. rewrite seg_length in Ha2.
    pose proof (Ha2 0 _ eq_refl) as Hmid. rewrite Nat.add_0_r in Hmid.
    destruct (nth_app_cases _ _ _ _ Hk) as [[Hl Hk1]|[Hl Hk2]].
    - exact (He p T _ Ha1 Hmid (astate_sub_refl _) k j Hk1).
    - rewrite cexpr_length in Hl, Hk2. destruct (k - clen e) as [|n] eqn:Ek; [|destruct n; discriminate].
      injection Hk2 as <-. replace (p + k) with (p + clen e) by lia.
      apply (one_ok T _ i _ _ b Hmid (Hi _)); [|exact Hsub].
      replace (S (p + clen e)) with (p + (clen e + 1)) by lia. exact Hexit.
  Qed.

  Theorem cexpr_frag_ok : forall e st, frag_ok e st.
  Proof.
    induction e as [v|n|e IHe a opt|e1 IH1 e2 IH2 opt|neg e IHe|op e1 IH1 e2 IH2|e1 IH1 e2 IH2|e1 IH1 e2 IH2
                    |e1 IH1 e2 IH2 e3 IH3|e IHe n|e IHe n|n]; intros st.
    - (* const *) intros p T b Hag Hexit Hsub k i Hk. destruct k as [|[|k]]; try discriminate. injection Hk as <-.
      rewrite Nat.add_0_r. pose proof (Hag 0 _ eq_refl) as H0. rewrite Nat.add_0_r in H0.
      eapply one_ok; [exact H0|reflexivity| |].
      + replace (S p) with (p + clen (XConst v)) by (cbn; lia). exact Hexit.
      + exact (astate_sub_trans _ _ _ (sub_top_any _ _) Hsub).
    - (* var *) intros p T b Hag Hexit Hsub k i Hk. destruct k as [|[|k]]; try discriminate. injection Hk as <-.
      rewrite Nat.add_0_r. pose proof (Hag 0 _ eq_refl) as H0. rewrite Nat.add_0_r in H0.
      eapply one_ok; [exact H0|reflexivity| |exact Hsub].
      replace (S p) with (p + clen (XVar n)) by (cbn; lia). exact Hexit.
    - (* attr *) intros p T b Hag Hexit Hsub. cbn [cexpr seg clen] in *.
      apply (frag_then_one e st (if opt then LoadAttrOpt a else LoadAttr a) (A (TAny :: st)) (IHe st)) with (b := b); [destruct opt; reflexivity|exact Hag|exact Hexit|exact Hsub].
    - (* item *) intros p T b Hag Hexit Hsub k i Hk. cbn [cexpr seg clen] in *.
      destruct (agree_app _ _ _ _ Hag) as [Ha1 Ha23]. rewrite seg_length in Ha23.
      pose proof (seg_hd e2 (TAny :: st)) as Hh2.
      destruct (agree_app _ _ _ _ Ha23) as [Ha2 _].
      pose proof (Ha2 0 _ Hh2) as Hmid. rewrite Nat.add_0_r in Hmid.
      destruct (nth_app_cases _ _ _ _ Hk) as [[Hl Hk1]|[Hl Hk2]].
      + exact (IH1 st p T _ Ha1 Hmid (astate_sub_refl _) k i Hk1).
      + rewrite cexpr_length in Hl, Hk2.
        replace (p + k) with ((p + clen e1) + (k - clen e1)) by lia.
        apply (frag_then_one e2 (TAny :: st) (if opt then BinarySubscriptOpt else BinarySubscript) (A (TAny :: st)) (IH2 (TAny :: st))) with (b := b); [destruct opt; reflexivity|exact Ha23| |exact Hsub|exact Hk2].
        replace (p + clen e1 + (clen e2 + 1)) with (p + (clen e1 + clen e2 + 1)) by lia. exact Hexit.
    - (* unary *) intros p T b Hag Hexit Hsub. cbn [cexpr seg clen] in *.
      apply (frag_then_one e st (if neg then Negative else Not) (A (TAny :: st)) (IHe st)) with (b := b); [destruct neg; reflexivity|exact Hag|exact Hexit|exact Hsub].
    - (* binary *) intros p T b Hag Hexit Hsub k i Hk. cbn [cexpr seg clen] in *.
      destruct (agree_app _ _ _ _ Hag) as [Ha1 Ha23]. rewrite seg_length in Ha23.
      pose proof (seg_hd e2 (TAny :: st)) as Hh2.
      destruct (agree_app _ _ _ _ Ha23) as [Ha2 _].
      pose proof (Ha2 0 _ Hh2) as Hmid. rewrite Nat.add_0_r in Hmid.
      destruct (nth_app_cases _ _ _ _ Hk) as [[Hl Hk1]|[Hl Hk2]].
      + exact (IH1 st p T _ Ha1 Hmid (astate_sub_refl _) k i Hk1).
      + rewrite cexpr_length in Hl, Hk2.
        replace (p + k) with ((p + clen e1) + (k - clen e1)) by lia.
        apply (frag_then_one e2 (TAny :: st) (instr_of_binop op) (A (TAny :: st)) (IH2 (TAny :: st))) with (b := b); [intros q; apply binop_step|exact Ha23| |exact Hsub|exact Hk2].
        replace (p + clen e1 + (clen e2 + 1)) with (p + (clen e1 + clen e2 + 1)) by lia. exact Hexit.
    - (* and *) intros p T b Hag Hexit Hsub k i Hk. cbn [cexpr seg clen] in *.
      destruct (agree_app _ _ _ _ Hag) as [Ha1 Ha23]. rewrite seg_length in Ha23.
      destruct (agree_app _ _ _ _ Ha23) as [HaJ Ha2]. cbn [length] in Ha2.
      pose proof (HaJ 0 _ eq_refl) as HJ. rewrite Nat.add_0_r in HJ.
      pose proof (Ha2 0 _ (seg_hd e2 st)) as Hr. rewrite Nat.add_0_r in Hr.
      destruct (nth_app_cases _ _ _ _ Hk) as [[Hl Hk1]|[Hl Hk2]].
      + exact (IH1 st p T _ Ha1 HJ (astate_sub_refl _) k i Hk1).
      + rewrite cexpr_length in Hl, Hk2. destruct (k - clen e1) as [|m] eqn:Ek.
        * injection Hk2 as <-. replace (p + k) with (p + clen e1) by lia.
          unfold instr_ok. rewrite HJ. cbn [astep a_stack a_loops a_caps A forallb]. unfold edge_ok. cbn [fst snd].
          replace (S (p + clen e1)) with (p + clen e1 + 1) by lia. rewrite Hr, astate_sub_refl.
          replace (p + clen e1 + 1 + clen e2) with (p + (clen e1 + 1 + clen e2)) by lia. rewrite Hexit, Hsub. reflexivity.
        * cbn [nth_error] in Hk2. replace (p + k) with ((p + clen e1 + 1) + m) by lia.
          apply (IH2 st (p + clen e1 + 1) T b Ha2); [|exact Hsub|exact Hk2].
          replace (p + clen e1 + 1 + clen e2) with (p + (clen e1 + 1 + clen e2)) by lia. exact Hexit.
    - (* or *) intros p T b Hag Hexit Hsub k i Hk. cbn [cexpr seg clen] in *.
      destruct (agree_app _ _ _ _ Hag) as [Ha1 Ha23]. rewrite seg_length in Ha23.
      destruct (agree_app _ _ _ _ Ha23) as [HaJ Ha2]. cbn [length] in Ha2.
      pose proof (HaJ 0 _ eq_refl) as HJ. rewrite Nat.add_0_r in HJ.
      pose proof (Ha2 0 _ (seg_hd e2 st)) as Hr. rewrite Nat.add_0_r in Hr.
      destruct (nth_app_cases _ _ _ _ Hk) as [[Hl Hk1]|[Hl Hk2]].
      + exact (IH1 st p T _ Ha1 HJ (astate_sub_refl _) k i Hk1).
      + rewrite cexpr_length in Hl, Hk2. destruct (k - clen e1) as [|m] eqn:Ek.
        * injection Hk2 as <-. replace (p + k) with (p + clen e1) by lia.
          unfold instr_ok. rewrite HJ. cbn [astep a_stack a_loops a_caps A forallb]. unfold edge_ok. cbn [fst snd].
          replace (S (p + clen e1)) with (p + clen e1 + 1) by lia. rewrite Hr, astate_sub_refl.
          replace (p + clen e1 + 1 + clen e2) with (p + (clen e1 + 1 + clen e2)) by lia. rewrite Hexit, Hsub. reflexivity.
        * cbn [nth_error] in Hk2. replace (p + k) with ((p + clen e1 + 1) + m) by lia.
          apply (IH2 st (p + clen e1 + 1) T b Ha2); [|exact Hsub|exact Hk2].
          replace (p + clen e1 + 1 + clen e2) with (p + (clen e1 + 1 + clen e2)) by lia. exact Hexit.
    - (* ternary *) intros p T b Hag Hexit Hsub k i Hk. cbn [cexpr seg clen] in *.
      destruct (agree_app _ _ _ _ Hag) as [Hac Ha']. rewrite seg_length in Ha'.
      destruct (agree_app _ _ _ _ Ha') as [HaP Ha'']. cbn [length] in Ha''.
      destruct (agree_app _ _ _ _ Ha'') as [Hat Ha''']. rewrite seg_length in Ha'''.
      destruct (agree_app _ _ _ _ Ha''') as [HaJ Haf]. cbn [length] in Haf.
      pose proof (HaP 0 _ eq_refl) as HP. rewrite Nat.add_0_r in HP.
      pose proof (Hat 0 _ (seg_hd e2 st)) as Ht0. rewrite Nat.add_0_r in Ht0.
      pose proof (HaJ 0 _ eq_refl) as HJ. rewrite Nat.add_0_r in HJ.
      pose proof (Haf 0 _ (seg_hd e3 st)) as Hf0. rewrite Nat.add_0_r in Hf0.
      destruct (nth_app_cases _ _ _ _ Hk) as [[Hl Hk1]|[Hl Hk2]].
      + exact (IH1 st p T _ Hac HP (astate_sub_refl _) k i Hk1).
      + rewrite cexpr_length in Hl, Hk2. destruct (k - clen e1) as [|m] eqn:Ek.
        * (* PopJumpIfFalse *) injection Hk2 as <-. replace (p + k) with (p + clen e1) by lia.
          unfold instr_ok. rewrite HP. cbn [astep a_stack a_loops a_caps A forallb]. unfold edge_ok. cbn [fst snd].
          replace (S (p + clen e1)) with (p + clen e1 + 1) by lia. fold (A st). rewrite Ht0, astate_sub_refl.
          replace (p + clen e1 + 1 + clen e2 + 1) with (p + clen e1 + 1 + clen e2 + 1) by lia.
          rewrite Hf0, astate_sub_refl. reflexivity.
        * cbn [nth_error] in Hk2.
          destruct (nth_app_cases _ _ _ _ Hk2) as [[Hl2 Hk3]|[Hl2 Hk3]].
          -- replace (p + k) with ((p + clen e1 + 1) + m) by lia.
             exact (IH2 st (p + clen e1 + 1) T _ Hat HJ (astate_sub_refl _) m i Hk3).
          -- rewrite cexpr_length in Hl2, Hk3. destruct (m - clen e2) as [|m'] eqn:Em.
             ++ (* Jump *) injection Hk3 as <-. replace (p + k) with (p + clen e1 + 1 + clen e2) by lia.
                unfold instr_ok. rewrite HJ. cbn [astep forallb]. unfold edge_ok. cbn [fst snd].
                replace (p + clen e1 + 1 + clen e2 + 1 + clen e3) with (p + (clen e1 + 1 + clen e2 + 1 + clen e3)) by lia.
                rewrite Hexit, Hsub. reflexivity.
             ++ cbn [nth_error] in Hk3. replace (p + k) with ((p + clen e1 + 1 + clen e2 + 1) + m') by lia.
                apply (IH3 st (p + clen e1 + 1 + clen e2 + 1) T b Haf); [|exact Hsub|exact Hk3].
                replace (p + clen e1 + 1 + clen e2 + 1 + clen e3) with (p + (clen e1 + 1 + clen e2 + 1 + clen e3)) by lia. exact Hexit.
    - (* filter *) intros p T b Hag Hexit Hsub k i Hk. cbn [cexpr seg clen] in *.
      destruct (agree_app _ _ _ _ Hag) as [Ha1 Ha2]. rewrite seg_length in Ha2.
      pose proof (Ha2 0 _ eq_refl) as H0. rewrite Nat.add_0_r in H0.
      pose proof (Ha2 1 _ eq_refl) as H1.
      destruct (nth_app_cases _ _ _ _ Hk) as [[Hl Hk1]|[Hl Hk2]].
      + exact (IHe st p T _ Ha1 H0 (astate_sub_refl _) k i Hk1).
      + rewrite cexpr_length in Hl, Hk2. destruct (k - clen e) as [|[|m]] eqn:Ek; try (destruct m; discriminate).
        * injection Hk2 as <-. replace (p + k) with (p + clen e) by lia.
          eapply one_ok; [exact H0|reflexivity|replace (S (p + clen e)) with (p + clen e + 1) by lia; exact H1|apply astate_sub_refl].
        * injection Hk2 as <-. replace (p + k) with (p + clen e + 1) by lia.
          eapply one_ok; [exact H1|reflexivity| |exact Hsub].
          replace (S (p + clen e + 1)) with (p + (clen e + 2)) by lia. exact Hexit.
    - (* test *) intros p T b Hag Hexit Hsub k i Hk. cbn [cexpr seg clen] in *.
      destruct (agree_app _ _ _ _ Hag) as [Ha1 Ha2]. rewrite seg_length in Ha2.
      pose proof (Ha2 0 _ eq_refl) as H0. rewrite Nat.add_0_r in H0.
      pose proof (Ha2 1 _ eq_refl) as H1.
      destruct (nth_app_cases _ _ _ _ Hk) as [[Hl Hk1]|[Hl Hk2]].
      + exact (IHe st p T _ Ha1 H0 (astate_sub_refl _) k i Hk1).
      + rewrite cexpr_length in Hl, Hk2. destruct (k - clen e) as [|[|m]] eqn:Ek; try (destruct m; discriminate).
        * injection Hk2 as <-. replace (p + k) with (p + clen e) by lia.
          eapply one_ok; [exact H0|reflexivity|replace (S (p + clen e)) with (p + clen e + 1) by lia; exact H1|apply astate_sub_refl].
        * injection Hk2 as <-. replace (p + k) with (p + clen e + 1) by lia.
          eapply one_ok; [exact H1|reflexivity| |exact Hsub].
          replace (S (p + clen e + 1)) with (p + (clen e + 2)) by lia. exact Hexit.
    - (* call *) intros p T b Hag Hexit Hsub k i Hk. cbn [cexpr seg clen] in *.
      pose proof (Hag 0 _ eq_refl) as H0. rewrite Nat.add_0_r in H0.
      pose proof (Hag 1 _ eq_refl) as H1.
      destruct k as [|[|k]]; try (destruct k; discriminate).
      + injection Hk as <-. rewrite Nat.add_0_r.
        eapply one_ok; [exact H0|reflexivity|replace (S p) with (p + 1) by lia; exact H1|apply astate_sub_refl].
      + injection Hk as <-.
        eapply one_ok; [exact H1|reflexivity| |exact Hsub].
        replace (S (p + 1)) with (p + 2) by lia. exact Hexit.
  Qed.
End Table.

Lemma all_from_intro tbl : forall c ip0,
  (forall k i, nth_error c k = Some i -> instr_ok tbl (ip0 + k) i = true) -> all_from tbl ip0 c = true.
Proof.
  induction c as [|x c IH]; intros ip0 H; [reflexivity|]. cbn [all_from].
  rewrite <- (Nat.add_0_r ip0) at 1. rewrite (H 0 x eq_refl). cbn [andb]. apply IH.
  intros k i Hk. replace (S ip0 + k) with (ip0 + S k) by lia. exact (H (S k) i Hk).
Qed.

(* the table for `{{ e }}` *)
Definition print_table (e : expr) : table :=
  map Some (seg [] 0 e [] ++ [mkA [TAny] [] 0; a_empty]).

(* compile_always_checks, expression fragment: for EVERY tree, a table exists that check_table
   accepts for the compiled `{{ e }}` chunk — which is all the soundness theorem
   (C07_table_invariant) needs *)
Theorem compile_print_checks : forall e,
  check_table (compile_print e) a_empty (print_table e) = true.
Proof.
  intros e. unfold check_table, compile_print, print_table.
  assert (Hlen : length (seg [] 0 e []) = clen e) by apply seg_length.
  assert (Hget : forall k a, nth_error (seg [] 0 e [] ++ [mkA [TAny] [] 0; a_empty]) k = Some a ->
                 nth_error (map Some (seg [] 0 e [] ++ [mkA [TAny] [] 0; a_empty])) k = Some (Some a)).
  { intros k a H. rewrite nth_error_map, H. reflexivity. }
  assert (Hexit1 : nth_error (map Some (seg [] 0 e [] ++ [mkA [TAny] [] 0; a_empty])) (clen e) = Some (Some (mkA [TAny] [] 0))).
  { apply Hget. rewrite nth_error_app2 by lia. rewrite Hlen, Nat.sub_diag. reflexivity. }
  assert (Hexit2 : nth_error (map Some (seg [] 0 e [] ++ [mkA [TAny] [] 0; a_empty])) (S (clen e)) = Some (Some a_empty)).
  { apply Hget. rewrite nth_error_app2 by lia. rewrite Hlen. replace (S (clen e) - clen e) with 1 by lia. reflexivity. }
  rewrite map_length, !app_length, cexpr_length, Hlen. cbn [length].
  replace (clen e + 2) with (S (clen e + 1)) by lia. rewrite Nat.eqb_refl. cbn [andb].
  rewrite (Hget 0 (mkA [] [] 0)) by (rewrite nth_error_app1 by (rewrite Hlen; destruct e; cbn; lia); apply (seg_hd [] 0 e [])).
  change (astate_sub a_empty (mkA [] [] 0)) with (astate_sub a_empty a_empty). rewrite astate_sub_refl. cbn [andb].
  replace (clen e + 1) with (S (clen e)) by lia. rewrite Hexit2, astate_sub_refl, andb_true_r.
  apply all_from_intro. intros k i Hk. cbn [Nat.add].
  destruct (nth_app_cases _ _ _ _ Hk) as [[Hl Hk1]|[Hl Hk2]].
  - apply (cexpr_frag_ok [] 0 e [] 0 _ (mkA [TAny] [] 0)); [|exact Hexit1|apply astate_sub_refl|exact Hk1].
    intros j a Hj. cbn [Nat.add]. apply Hget. rewrite nth_error_app1; [exact Hj|]. apply nth_error_Some. congruence.
  - rewrite cexpr_length in Hl, Hk2. destruct (k - clen e) as [|m] eqn:Ek; [|destruct m; discriminate].
    injection Hk2 as <-. replace k with (clen e) by lia.
    eapply one_ok; [exact Hexit1|reflexivity|exact Hexit2|apply astate_sub_refl].
Qed.
