(* C06 — the `unreachable!` arm of parse_until_inner (parser.rs:1699, RPanic in
   Model/ParseDepth.v) is dead on every token stream in which each Content / VariableEnd / TagEnd
   token is followed by the end of the stream or by a template-level token (Content,
   VariableStart, TagStart, or the lexer's error item) — which is what the lexer produces, its
   state being Template after each of the three.  On arbitrary token lists the arm IS reachable
   ([TAtom]), see Props/C06.v. *)
From Coq Require Import List Arith Bool ZArith Lia.
From TeraV Require Import Model.ParseDepth Proofs.ParseDepthEqs.
Import ListNotations.
Local Open Scope nat_scope.

Definition tpl_tok (t : tok) : bool :=
  match t with TText | TVarStart | TTagStart | TLexErr => true | _ => false end.
Definition headok (ts : list tok) : bool := match ts with [] => true | t :: _ => tpl_tok t end.
Definition closes (t : tok) : bool := match t with TText | TVarEnd | TTagEnd => true | _ => false end.
(* every closer before the first lexer error is followed by a template-level token *)
Fixpoint cok (ts : list tok) : bool :=
  match ts with
  | [] => true
  | TLexErr :: _ => true
  | t :: r => (if closes t then headok r else true) && cok r
  end.

Lemma cok_tail : forall t r, cok (t :: r) = true -> t <> TLexErr -> cok r = true.
Proof. intros t r H Hn. destruct t; cbn in H; try congruence; apply andb_prop in H; tauto. Qed.
Lemma cok_closer : forall t r, cok (t :: r) = true -> closes t = true -> headok r = true /\ cok r = true.
Proof. intros t r H Hc. destruct t; cbn in Hc; try discriminate; cbn in H; apply andb_prop in H; tauto. Qed.
Lemma tok_eqb_closer : forall c t, closes c = true -> tok_eqb c t = true -> t = c.
Proof. intros c t Hc He. destruct c; cbn in Hc; try discriminate; destruct t; cbn in He; try discriminate; reflexivity. Qed.

Definition outc {A} (Q : list tok -> Prop) (r : res A) : Prop :=
  match r with ROk _ s' => Q (toks s') | RPanic _ => False | _ => True end.
Definition Qc (ts : list tok) : Prop := cok ts = true.
Definition Qh (ts : list tok) : Prop := cok ts = true /\ headok ts = true.

Definition np {A} (m : M A) : Prop := forall s, cok (toks s) = true -> outc Qc (m s).
Definition nph {A} (m : M A) : Prop := forall s, cok (toks s) = true -> headok (toks s) = true -> outc Qc (m s).
Definition npq {A} (m : M A) : Prop := forall s, cok (toks s) = true -> outc Qh (m s).

Lemma nph_of_np : forall A (m : M A), np m -> nph m.
Proof. intros A m H s Hc _. apply H. exact Hc. Qed.

Lemma np_ret : forall A (a : A), np (ret a). Proof. intros A a s H. exact H. Qed.
Lemma np_err : forall A, np (@err A). Proof. intros A s H. exact I. Qed.

Lemma np_bind : forall A B (m : M A) (k : A -> M B), np m -> (forall a, np (k a)) -> np (bind m k).
Proof.
  intros A B m k Hm Hk s Hc. unfold bind. specialize (Hm s Hc).
  destruct (m s) as [a s1| | |]; cbn in *; auto. apply Hk. exact Hm.
Qed.
Lemma nph_bind : forall A B (m : M A) (k : A -> M B), nph m -> (forall a, np (k a)) -> nph (bind m k).
Proof.
  intros A B m k Hm Hk s Hc Hh. unfold bind. specialize (Hm s Hc Hh).
  destruct (m s) as [a s1| | |]; cbn in *; auto. apply Hk. exact Hm.
Qed.
Lemma npq_bind : forall A B (m : M A) (k : A -> M B), npq m -> (forall a, nph (k a)) -> np (bind m k).
Proof.
  intros A B m k Hm Hk s Hc. unfold bind. specialize (Hm s Hc).
  destruct (m s) as [a s1| | |]; cbn in *; auto. destruct Hm. apply Hk; assumption.
Qed.
Lemma npq_bind_np : forall A B (m : M A) (k : A -> M B), np m -> (forall a, npq (k a)) -> npq (bind m k).
Proof.
  intros A B m k Hm Hk s Hc. unfold bind. specialize (Hm s Hc).
  destruct (m s) as [a s1| | |]; cbn in *; auto. apply Hk. exact Hm.
Qed.

(* components that leave the token list alone and never panic *)
Definition tframed {A} (m : M A) : Prop :=
  forall s, match m s with ROk _ s' => toks s' = toks s | RPanic _ => False | _ => True end.
Lemma np_framed : forall A (m : M A), tframed m -> np m.
Proof. intros A m Hf s Hc. specialize (Hf s). destruct (m s); cbn in *; auto. unfold Qc. rewrite Hf. exact Hc. Qed.
Lemma nph_framed_bind : forall A B (m : M A) (k : A -> M B), tframed m -> (forall a, nph (k a)) -> nph (bind m k).
Proof.
  intros A B m k Hf Hk s Hc Hh. unfold bind. specialize (Hf s).
  destruct (m s) as [a s1| | |]; cbn in *; auto. apply Hk; rewrite Hf; assumption.
Qed.
Lemma tf_peek : tframed peek. Proof. intro s. reflexivity. Qed.
Lemma tf_peek2 : tframed peek2. Proof. intro s. reflexivity. Qed.
Lemma tf_get : forall A (f : st -> A), tframed (get f). Proof. intros A f s. reflexivity. Qed.
Lemma tf_next_is : forall t, tframed (next_is t). Proof. intros t s. reflexivity. Qed.
Lemma tf_upd : forall f, (forall s, toks (f s) = toks s) -> tframed (upd f).
Proof. intros f H s. cbn. apply H. Qed.
Lemma tf_bump : forall C, tframed (bump C).
Proof. intros C s. unfold bump. destruct (c_expr_limit C) as [l|]; [destruct (l <? S (ht s))|]; cbn; auto. Qed.

Lemma np_next : np next_or_error.
Proof.
  intros s Hc. unfold next_or_error. destruct (toks s) as [|t r] eqn:Ht; [exact I|].
  assert (Hr : t <> TLexErr -> cok r = true) by (apply cok_tail; exact Hc).
  destruct t; cbn; try exact I; apply Hr; discriminate.
Qed.
Lemma np_expect : forall p, np (expect p).
Proof. intro p. unfold expect. apply np_bind; [apply np_next|]. intro t. destruct (p t); [apply np_ret | apply np_err]. Qed.
Lemma np_expect_ident : np expect_ident.
Proof. unfold expect_ident. apply np_bind; [apply np_next|]. intro t. destruct t; try apply np_err. apply np_ret. Qed.

(* after a Content / VariableEnd / TagEnd token the stream is at template level again *)
Lemma np_closer_then : forall A c (k : tok -> M A),
  closes c = true -> (forall t, nph (k t)) -> np (bind (expect_tok c) k).
Proof.
  intros A c k Hcl Hk s Hc. unfold bind, expect_tok, expect, bind, next_or_error.
  destruct (toks s) as [|t r] eqn:Ht; [exact I|].
  assert (Hgo : t <> TLexErr ->
     outc Qc (match (if tok_eqb c t then ret t else err) (set_toks r s) with
              | ROk a s' => k a s' | RErr s' => RErr s' | RPanic s' => RPanic s' | RFuel => RFuel end)).
  { intro Hn. destruct (tok_eqb c t) eqn:He; [|exact I].
    cbn [ret]. apply tok_eqb_closer in He; [|exact Hcl]. subst t.
    destruct (cok_closer _ _ Hc Hcl) as [Hh Hr]. apply Hk; assumption. }
  destruct t; try (apply Hgo; discriminate). exact I.
Qed.
Lemma npq_closer_ret : forall A c (a : A), closes c = true -> npq (bind (expect_tok c) (fun _ => ret a)).
Proof.
  intros A c a Hcl s Hc. unfold bind, expect_tok, expect, bind, next_or_error.
  destruct (toks s) as [|t r] eqn:Ht; [exact I|].
  assert (Hgo : t <> TLexErr ->
     outc Qh (match (if tok_eqb c t then ret t else err) (set_toks r s) with
              | ROk _ s' => ret a s' | RErr s' => RErr s' | RPanic s' => RPanic s' | RFuel => RFuel end)).
  { intro Hn. destruct (tok_eqb c t) eqn:He; [|exact I].
    cbn [ret]. apply tok_eqb_closer in He; [|exact Hcl]. subst t.
    destruct (cok_closer _ _ Hc Hcl) as [Hh Hr]. split; assumption. }
  destruct t; try (apply Hgo; discriminate). exact I.
Qed.

Lemma np_call : forall A (m : M A), np m -> np (call m).
Proof. intros A m H s Hc. unfold call. specialize (H (enter s) Hc). destruct (m (enter s)); cbn in *; auto. Qed.
Lemma nph_call : forall A (m : M A), nph m -> nph (call m).
Proof. intros A m H s Hc Hh. unfold call. specialize (H (enter s) Hc Hh). destruct (m (enter s)); cbn in *; auto. Qed.
Lemma np_sub_height : forall A (m : M A), np m -> np (sub_height m).
Proof. intros A m H s Hc. unfold sub_height. specialize (H (set_ht 0 s) Hc). destruct (m (set_ht 0 s)); cbn in *; auto. Qed.

Section NoPanic.
Variable C : cfg.

Lemma np_counted : forall A (m : M A), np m -> np (counted C m).
Proof.
  intros A m H s Hc. unfold counted. destruct (c_max_rd C <? rd (set_rd (S (rd s)) s)); [exact I|].
  specialize (H (set_rd (S (rd s)) s) Hc). destruct (m (set_rd (S (rd s)) s)); cbn in *; auto.
Qed.
Lemma nph_counted : forall A (m : M A), nph m -> nph (counted C m).
Proof.
  intros A m H s Hc Hh. unfold counted. destruct (c_max_rd C <? rd (set_rd (S (rd s)) s)); [exact I|].
  specialize (H (set_rd (S (rd s)) s) Hc Hh). destruct (m (set_rd (S (rd s)) s)); cbn in *; auto.
Qed.
Lemma np_elif_counted : forall A (m : M A), np m -> np (elif_counted C m).
Proof.
  intros A m H s Hc. unfold elif_counted.
  destruct (match c_elif_limit C with Some lim => lim <? el (set_el (S (el s)) s) | None => false end); [exact I|].
  specialize (H (set_el (S (el s)) s) Hc). destruct (m (set_el (S (el s)) s)); cbn in *; auto.
Qed.

Record all_np (f : nat) : Prop := {
  n_ipe : forall bp, np (inner_parse_expression C f bp);
  n_pe : forall bp, np (parse_expression C f bp);
  n_peb : forall bp, np (parse_expr_bp C f bp);
  n_bpl : forall bp n lhs, np (bp_loop C f bp n lhs);
  n_pi : np (parse_ident C f);
  n_il : forall e, np (ident_loop C f e);
  n_ps : forall e, np (parse_subscript C f e);
  n_pk : np (parse_kwargs C f);
  n_kl : forall ns acc, np (kwargs_loop C f ns acc);
  n_pf : forall e, np (parse_filter C f e);
  n_pm : np (parse_map C f);
  n_ml : forall l acc, np (map_loop C f l acc);
  n_pa : np (parse_array C f);
  n_al : forall l acc, np (array_loop C f l acc);
  n_plc : forall e, np (parse_list_comprehension C f e);
  n_pu : forall endp, nph (parse_until C f endp);
  n_ul : forall endp acc, nph (until_loop C f endp acc);
  n_pt : np (parse_tag C f);
  n_pfor : np (parse_for_loop C f);
  n_pif : np (parse_if C f);
  n_pset : np (parse_set C f);
  n_sfl : forall acc, npq (set_filters_loop C f acc) }.

Lemma all_np_0 : all_np 0.
Proof. constructor; intros; intros s; intros; exact I. Qed.

Ltac ih_np :=
  match goal with
  | IH : all_np ?f |- _ =>
    first
    [ first [ apply (n_bpl f IH) | apply (n_il f IH) | apply (n_kl f IH) | apply (n_ml f IH) | apply (n_al f IH) ]
    | apply np_call;
      first [ apply (n_ipe f IH) | apply (n_pe f IH) | apply (n_peb f IH) | apply (n_pi f IH) | apply (n_ps f IH)
            | apply (n_pk f IH) | apply (n_pf f IH) | apply (n_pm f IH) | apply (n_pa f IH) | apply (n_plc f IH)
            | apply (n_pt f IH) | apply (n_pfor f IH) | apply (n_pif f IH) | apply (n_pset f IH) ] ]
  end.

(* what may follow a closer: the statement loop or parse_until *)
Ltac nph_step :=
  match goal with
  | IH : all_np ?f |- _ =>
    first
    [ apply (n_ul f IH)
    | apply nph_bind; [apply nph_call; apply (n_pu f IH) | intro]
    | apply nph_call; apply (n_pu f IH)
    | apply nph_of_np ]
  end.

Ltac nstep :=
  first
  [ apply np_ret | apply np_err
  | apply np_expect_ident | apply np_next
  | apply np_framed; first [apply tf_peek | apply tf_peek2 | apply tf_get | apply tf_bump | apply tf_next_is]
  | apply np_framed; apply tf_upd; intro; reflexivity
  | match goal with
    | |- np (bind (expect_tok ?c) _) => apply np_closer_then; [reflexivity | intro; nph_step]
    | IH : all_np ?f |- np (bind (set_filters_loop C ?f _) _) =>
        apply npq_bind; [apply (n_sfl f IH) | intro; apply nph_framed_bind; [apply tf_upd; intro; reflexivity | intro; nph_step]]
    end
  | apply np_expect
  | apply np_bind; [|intro]
  | ih_np
  | match goal with
    | |- np (match ?x with _ => _ end) => destruct x
    | |- np (if ?x then _ else _) => destruct x
    end ].

Lemma all_np_S : forall f, all_np f -> all_np (S f).
Proof.
  intros f IH.
  constructor; intros;
    first [ rewrite inner_parse_expression_eq | rewrite parse_expression_eq | rewrite parse_expr_bp_eq | rewrite bp_loop_eq
          | rewrite parse_ident_eq | rewrite ident_loop_eq | rewrite parse_subscript_eq | rewrite parse_kwargs_eq
          | rewrite kwargs_loop_eq | rewrite parse_filter_eq | rewrite parse_map_eq | rewrite map_loop_eq
          | rewrite parse_array_eq | rewrite array_loop_eq | rewrite parse_list_comprehension_eq | rewrite parse_until_eq
          | rewrite until_loop_eq | rewrite parse_tag_eq | rewrite parse_for_loop_eq | rewrite parse_if_eq
          | rewrite parse_set_eq | rewrite set_filters_loop_eq ];
    cbv zeta.
  - apply np_counted, np_sub_height, np_call, (n_peb f IH).
  - apply np_call, (n_ipe f IH).
  - repeat nstep.
  - repeat nstep.
  - repeat nstep.
  - repeat nstep.
  - repeat nstep.
  - repeat nstep.
  - repeat nstep.
  - repeat nstep.
  - repeat nstep.
  - repeat nstep.
  - repeat nstep.
  - repeat nstep.
  - repeat nstep.
  - (* parse_until *)
    apply nph_counted, nph_call, (n_ul f IH).
  - (* until_loop: the only place that looks at a token at template level *)
    intros s Hc Hh. unfold bind at 1. unfold peek at 1.
    destruct (toks s) as [|t r] eqn:Ht; cbn [hd_error].
    + cbn. unfold Qc. rewrite Ht. reflexivity.
    + assert (Hr : t <> TLexErr -> cok r = true) by (apply cok_tail; exact Hc).
      destruct t; cbn in Hh; try discriminate Hh.
      * (* TText *)
        unfold bind at 1. unfold next_or_error at 1. rewrite Ht.
        destruct (cok_closer _ _ Hc eq_refl) as [Hh' Hr'].
        apply (n_ul f IH); assumption.
      * (* TVarStart *)
        unfold bind at 1. unfold next_or_error at 1. rewrite Ht.
        match goal with |- outc Qc (?k (set_toks r s)) => assert (Hk : np k) by (repeat nstep) end.
        apply Hk. cbn [toks set_toks]. apply Hr. discriminate.
      * (* TTagStart *)
        unfold bind at 1. unfold next_or_error at 1. rewrite Ht.
        match goal with |- outc Qc (?k (set_toks r s)) => assert (Hk : np k) by (repeat nstep) end.
        apply Hk. cbn [toks set_toks]. apply Hr. discriminate.
      * (* TLexErr *) exact I.
  - repeat nstep.
  - repeat nstep.
  - (* parse_if *)
    repeat first [ apply np_elif_counted | nstep ].
  - repeat nstep.
  - (* set_filters_loop *)
    apply npq_bind_np; [apply np_framed, tf_next_is|]. intro p. destruct p.
    + apply npq_bind_np; [apply np_expect|]. intro.
      apply npq_bind_np; [apply np_call, (n_pf f IH)|]. intro. apply (n_sfl f IH).
    + apply npq_closer_ret. reflexivity.
Qed.

Lemma all_np_any : forall f, all_np f.
Proof. induction f; [apply all_np_0 | apply all_np_S; assumption]. Qed.

Theorem parse_never_panics : forall fuel ts,
  cok ts = true -> headok ts = true ->
  match parse C fuel ts with RPanic _ => False | _ => True end.
Proof.
  intros fuel ts Hc Hh. unfold parse.
  assert (H : nph (call (call (parse_until C fuel (fun _ => false))))).
  { apply nph_call, nph_call, (n_pu _ (all_np_any fuel)). }
  specialize (H (init ts) Hc Hh).
  destruct (call (call (parse_until C fuel (fun _ => false))) (init ts)); cbn in *; auto.
Qed.

End NoPanic.

(* ---------------- the lexer's streams satisfy the hypothesis *)

(* the shape of what basic_tokenize + whitespace_filter yields: template-level tokens in the
   Template state, anything else inside {{ }} / {% %}, each closed by its own end token; the
   stream may stop anywhere and ends at the first error item *)
Inductive lmode := MT | MI (tag : bool).
Definition inside_tok (t : tok) : bool :=
  match t with TText | TVarStart | TVarEnd | TTagStart | TTagEnd | TLexErr => false | _ => true end.
Fixpoint lexer_shaped (m : lmode) (ts : list tok) : bool :=
  match ts with
  | [] => true
  | t :: r =>
    match t with
    | TLexErr => true
    | TText => match m with MT => lexer_shaped MT r | _ => false end
    | TVarStart => match m with MT => lexer_shaped (MI false) r | _ => false end
    | TTagStart => match m with MT => lexer_shaped (MI true) r | _ => false end
    | TVarEnd => match m with MI false => lexer_shaped MT r | _ => false end
    | TTagEnd => match m with MI true => lexer_shaped MT r | _ => false end
    | _ => match m with MI b => lexer_shaped (MI b) r | MT => false end
    end
  end.

Lemma shaped_headok : forall ts, lexer_shaped MT ts = true -> headok ts = true.
Proof. intros [|t r] H; [reflexivity|]. destruct t; cbn in *; congruence. Qed.

Lemma shaped_cok : forall ts m, lexer_shaped m ts = true -> cok ts = true.
Proof.
  induction ts as [|t r IH]; intros m H; [reflexivity|].
  destruct t; cbn [lexer_shaped] in H; cbn [cok closes]; try reflexivity;
    destruct m as [|[|]]; try discriminate H;
    try (rewrite (IH _ H); try rewrite (shaped_headok _ H); reflexivity).
Qed.

Theorem parse_never_panics_on_lexer_streams : forall C fuel ts,
  lexer_shaped MT ts = true ->
  match parse C fuel ts with RPanic _ => False | _ => True end.
Proof.
  intros C fuel ts H. apply parse_never_panics; [apply (shaped_cok _ _ H) | apply (shaped_headok _ H)].
Qed.
