(* C09, structural half: the ported fusion pass only merges variable-path loads (and a directly
   following write), never swallows a jump target, and re-targets every jump to the group that
   starts where the jump pointed. *)
From TeraV Require Import Model.Value Model.Instr Model.Optimize Gen.Tables.
Local Open Scope nat_scope.

(* ---------- expansion of fused instructions ---------- *)

Definition expand1 (x : instr) : list instr :=
  match x with
  | LoadPath (n :: attrs) => LoadName n :: map LoadAttr attrs
  | WritePath (n :: attrs) => LoadName n :: map LoadAttr attrs ++ [WriteTop]
  | i => [i]
  end.
Definition expand (c : list instr) : list instr := flat_map expand1 c.
Definition gsize (x : instr) : nat := length (expand1 x).

(* original index at which group number n starts *)
Definition group_start (o : list instr) (n : nat) : nat := length (expand (firstn n o)).

Definition is_fused (x : instr) : bool :=
  match x with LoadPath _ | WritePath _ => true | _ => false end.
Definition unfused (p : chunk) : Prop := forall x, In x p -> is_fused (fst x) = false.

(* index_map entries for the groups of o, the first group having new index olen *)
Fixpoint imap_of (olen : nat) (o : list instr) : list nat :=
  match o with
  | [] => [olen]
  | g :: o' => repeat olen (gsize g) ++ imap_of (S olen) o'
  end.

Lemma gsize_pos g : 0 < gsize g.
Proof.
  unfold gsize. destruct g; cbn; try lia; destruct p; cbn; lia.
Qed.

Lemma expand_app a b : expand (a ++ b) = expand a ++ expand b.
Proof. unfold expand. apply flat_map_app. Qed.

Lemma expand_length_ge o : length o <= length (expand o).
Proof.
  induction o as [|g o IH]; [cbn; lia|]. cbn [expand flat_map length]. rewrite app_length.
  pose proof (gsize_pos g). unfold gsize in *. fold (expand o). lia.
Qed.

Lemma group_start_0 o : group_start o 0 = 0.
Proof. reflexivity. Qed.

Lemma group_start_S g o n : group_start (g :: o) (S n) = gsize g + group_start o n.
Proof. unfold group_start. cbn [firstn expand flat_map]. rewrite app_length. reflexivity. Qed.

Lemma group_start_all o : group_start o (length o) = length (expand o).
Proof. unfold group_start. rewrite firstn_all. reflexivity. Qed.

Lemma nth_error_repeat_app {A} (x : A) k l n :
  n < k -> nth_error (repeat x k ++ l) n = Some x.
Proof.
  revert n. induction k as [|k IH]; intros n H; [lia|].
  destruct n; cbn; [reflexivity|]. apply IH. lia.
Qed.

Lemma nth_error_repeat_app_ge {A} (x : A) k l n :
  nth_error (repeat x k ++ l) (k + n) = nth_error l n.
Proof. induction k as [|k IH]; cbn; auto. Qed.

(* index_map at a group start is the group's new index *)
Lemma imap_at_start o : forall olen n, n <= length o ->
  nth_error (imap_of olen o) (group_start o n) = Some (olen + n).
Proof.
  induction o as [|g o IH]; intros olen n Hn.
  - cbn in Hn. assert (n = 0) by lia. subst. cbn. f_equal. lia.
  - destruct n as [|n].
    + rewrite group_start_0. cbn [imap_of]. rewrite nth_error_repeat_app by apply gsize_pos.
      f_equal. lia.
    + rewrite group_start_S. cbn [imap_of]. rewrite nth_error_repeat_app_ge.
      rewrite IH by (cbn in Hn; lia). f_equal. lia.
Qed.

Lemma imap_length o olen : length (imap_of olen o) = S (length (expand o)).
Proof.
  revert olen. induction o as [|g o IH]; intros olen; [reflexivity|].
  cbn [imap_of expand flat_map]. fold (expand o).
  rewrite !app_length, repeat_length, IH. unfold gsize. lia.
Qed.

(* ---------- the inner loop ---------- *)

Lemma collect_attrs_spec jt : forall rest j attrs sps r j',
  collect_attrs jt j rest = (attrs, sps, r, j') ->
  exists pre, rest = pre ++ r /\ map fst pre = map LoadAttr attrs /\
    sps = concat (map snd pre) /\ j' = j + length attrs /\
    (forall k, k < length attrs -> jt (j + k) = false).
Proof.
  induction rest as [|[i sp] rest IH]; intros j attrs sps r j' H; cbn [collect_attrs] in H.
  - inversion H; subst. exists []. cbn. repeat split; try lia; try (intros k Hk; lia).
  - assert (Hstop : (attrs, sps, r, j') = ([], [], (i, sp) :: rest, j) ->
              exists pre, (i, sp) :: rest = pre ++ r /\ map fst pre = map LoadAttr attrs /\
                sps = concat (map snd pre) /\ j' = j + length attrs /\
                (forall k, k < length attrs -> jt (j + k) = false)).
    { intros E. inversion E; subst. exists []. cbn. repeat split; try lia; try (intros k Hk; lia). }
    destruct i; try (apply Hstop; symmetry; exact H).
    destruct (jt j) eqn:Ej; [apply Hstop; symmetry; exact H|].
    destruct (collect_attrs jt (S j) rest) as [[[attrs0 sps0] r0] j0] eqn:E.
    inversion H; subst. destruct (IH _ _ _ _ _ E) as (pre & Hr & Hm & Hs & Hj & Hn).
    exists ((LoadAttr a, sp) :: pre). cbn [map fst snd app length concat]. repeat split.
    + rewrite Hr. reflexivity.
    + f_equal. exact Hm.
    + rewrite Hs. reflexivity.
    + lia.
    + intros k Hk. destruct k; [rewrite Nat.add_0_r; exact Ej|].
      replace (j + S k) with (S j + k) by lia. apply Hn. lia.
Qed.

(* ---------- the outer loop ---------- *)

(* k is the original (relative) index of the first instruction of some group, or one past the end *)
Definition is_start (o : list instr) (k : nat) : Prop :=
  exists n, n <= length o /\ group_start o n = k.

Lemma is_start_cons g o k : is_start o k -> is_start (g :: o) (gsize g + k).
Proof.
  intros [n [Hn Hs]]. exists (S n). split; [cbn; lia|]. rewrite group_start_S. lia.
Qed.

Lemma is_start_zero o : is_start o 0.
Proof. exists 0. split; [lia|reflexivity]. Qed.

(* fused instructions produced by the pass: a non-magic head variable *)
Definition fused_shape (g : instr) : Prop :=
  exists n attrs, is_magic n = false /\ (g = LoadPath (n :: attrs) \/ g = WritePath (n :: attrs)).

Definition go_spec (jt : nat -> bool) (i olen : nat) (rest : chunk) (res : chunk * list nat) : Prop :=
  expand (map fst (fst res)) = map fst rest /\
  snd res = imap_of olen (map fst (fst res)) /\
  (forall k, k <= length rest -> (k = length rest \/ jt (i + k) = true) -> is_start (map fst (fst res)) k) /\
  (forall x, In x (fst res) -> is_fused (fst x) = false -> In x rest) /\
  (forall x, In x (fst res) -> is_fused (fst x) = true -> fused_shape (fst x)).

Lemma unfused_tail x p : unfused (x :: p) -> unfused p.
Proof. intros H y Hy. apply H. right. exact Hy. Qed.

Lemma unfused_app_r a b : unfused (a ++ b) -> unfused b.
Proof. intros H y Hy. apply H. apply in_or_app. right. exact Hy. Qed.

(* one plain (non-fusing) step *)
Lemma go_spec_plain jt i olen x rest' o m :
  is_fused (fst x) = false ->
  go_spec jt (S i) (S olen) rest' (o, m) ->
  go_spec jt i olen (x :: rest') (x :: o, olen :: m).
Proof.
  intros Hx (H1 & H2 & H3 & H4 & H5). cbn [fst snd] in *. unfold go_spec. cbn [fst snd].
  assert (Hex : expand1 (fst x) = [fst x]) by (destruct x as [[] ?]; cbn in *; try reflexivity; discriminate).
  assert (Hg : gsize (fst x) = 1) by (unfold gsize; rewrite Hex; reflexivity).
  repeat split.
  - cbn [map expand flat_map]. rewrite Hex. cbn. f_equal. exact H1.
  - cbn [map imap_of]. rewrite Hg. cbn. f_equal. exact H2.
  - intros k Hk Hc. destruct k as [|k]; [apply is_start_zero|].
    cbn [map]. replace (S k) with (gsize (fst x) + k) by lia. apply is_start_cons.
    apply H3; [cbn in Hk; lia|]. destruct Hc as [Hc|Hc]; [left; cbn in Hc; lia|right].
    replace (S i + k) with (i + S k) by lia. exact Hc.
  - intros y [<-|Hy] Hf; [left; reflexivity|right; apply H4; assumption].
  - intros y [<-|Hy] Hf; [congruence|apply H5; assumption].
Qed.

(* one fusing step: a group of 1 + |attrs| (+1 when a write is absorbed) instructions *)
Lemma go_spec_group jt i olen n sp pre tailw r g gsp o m j :
  map fst pre = map LoadAttr (match g with LoadPath (_ :: a) | WritePath (_ :: a) => a | _ => [] end) ->
  expand1 g = LoadName n :: map fst pre ++ map fst tailw ->
  is_fused g = true -> fused_shape g ->
  j = S i + length pre + length tailw ->
  (forall k, 0 < k -> k <= length pre + length tailw -> jt (i + k) = false) ->
  go_spec jt j (S olen) r (o, m) ->
  go_spec jt i olen ((LoadName n, sp) :: pre ++ tailw ++ r)
          ((g, gsp) :: o, repeat olen (S (length pre + length tailw)) ++ m).
Proof.
  intros _ Hex Hf Hshape Hj Hnt (G1 & G2 & G3 & G4 & G5). cbn [fst snd] in *. unfold go_spec. cbn [fst snd].
  assert (Hgs : gsize g = S (length pre + length tailw)).
  { unfold gsize. rewrite Hex. cbn. rewrite app_length, !map_length. reflexivity. }
  repeat split.
  - cbn [map fst expand flat_map]. fold (expand (map fst o)). rewrite G1, Hex.
    cbn [map fst app]. rewrite !map_app. rewrite <- !app_assoc. reflexivity.
  - cbn [map fst imap_of]. rewrite Hgs. f_equal. exact G2.
  - intros q Hq Hc. cbn [map fst].
    destruct (Nat.eq_dec q 0) as [->|Hq0]; [apply is_start_zero|].
    cbn [length] in Hq, Hc. rewrite !app_length in Hq, Hc.
    destruct (Nat.le_gt_cases q (length pre + length tailw)) as [Hle|Hgt].
    + exfalso. destruct Hc as [Hc|Hc]; [lia|].
      rewrite Hnt in Hc by lia. discriminate.
    + replace q with (gsize g + (q - S (length pre + length tailw))) by (rewrite Hgs; lia).
      apply is_start_cons. apply G3; [lia|].
      destruct Hc as [Hc|Hc]; [left; lia|right].
      replace (j + (q - S (length pre + length tailw))) with (i + q) by lia. exact Hc.
  - intros y [<-|Hy] Hfy; [cbn in Hfy; congruence|].
    right. apply in_or_app. right. apply in_or_app. right. apply G4; assumption.
  - intros y [<-|Hy] Hfy; [exact Hshape|apply G5; assumption].
Qed.

Lemma opt_go_spec jt : forall fuel i olen rest,
  length rest < fuel -> unfused rest ->
  go_spec jt i olen rest (opt_go fuel jt i olen rest).
Proof.
  induction fuel as [|f IH]; intros i olen rest Hf Hu; [lia|].
  cbn [opt_go]. destruct rest as [|[ins sp] rest'].
  - unfold go_spec. cbn [fst snd map expand flat_map imap_of length]. split; [reflexivity|].
    split; [reflexivity|]. split; [|split].
    + intros k Hk _. assert (k = 0) by lia. subst. apply is_start_zero.
    + intros x [].
    + intros x [].
  - assert (Hu' : unfused rest') by (eapply unfused_tail; eauto).
    assert (Hins : is_fused ins = false) by (apply (Hu (ins, sp)); left; reflexivity).
    assert (Hplain : forall o m, opt_go f jt (S i) (S olen) rest' = (o, m) ->
              go_spec jt i olen ((ins, sp) :: rest') ((ins, sp) :: o, olen :: m)).
    { intros o m E. apply go_spec_plain; [exact Hins|]. rewrite <- E. apply IH; [cbn in Hf; lia|exact Hu']. }
    destruct ins;
      try (destruct (opt_go f jt (S i) (S olen) rest') as [o m] eqn:E; apply Hplain; reflexivity).
    (* LoadName n *)
    destruct (is_magic n) eqn:Emagic.
    { destruct (opt_go f jt (S i) (S olen) rest') as [o m] eqn:E. apply Hplain; reflexivity. }
    destruct (collect_attrs jt (S i) rest') as [[[attrs sps] r] j] eqn:Ec.
    destruct (collect_attrs_spec jt _ _ _ _ _ _ Ec) as (pre & Hrest & Hpre & Hsps & Hj & Hnt).
    assert (Hlp : length pre = length attrs).
    { rewrite <- (map_length fst pre), Hpre, map_length. reflexivity. }
    assert (Hur : unfused r) by (rewrite Hrest in Hu'; eapply unfused_app_r; eauto).
    assert (Hlen : length rest' = length attrs + length r) by (rewrite Hrest, app_length; lia).
    (* the continuation used when no write is absorbed *)
    assert (Hnowrite : go_spec jt i olen ((LoadName n, sp) :: rest')
      (match attrs with
       | [] => let '(o, m) := opt_go f jt (S i) (S olen) rest' in ((LoadName n, sp) :: o, olen :: m)
       | _ :: _ => let '(o, m) := opt_go f jt j (S olen) r in
                   ((LoadPath (n :: attrs), sp ++ sps) :: o, repeat olen (S (length attrs)) ++ m)
       end)).
    { destruct attrs as [|a0 attrs'] eqn:Ea.
      - destruct (opt_go f jt (S i) (S olen) rest') as [o m] eqn:E. apply Hplain; reflexivity.
      - rewrite <- Ea in *.
        destruct (opt_go f jt j (S olen) r) as [o m] eqn:E.
        assert (Hgo : go_spec jt j (S olen) r (o, m)).
        { rewrite <- E. apply IH; [cbn in Hf; lia|exact Hur]. }
        rewrite Hrest. rewrite <- Hlp.
        replace (length pre) with (length pre + length (@nil (instr * list span_id))) by (cbn; lia).
        change (pre ++ r) with (pre ++ [] ++ r).
        apply (go_spec_group jt i olen n sp pre [] r (LoadPath (n :: attrs)) (sp ++ sps) o m j).
        + rewrite Hpre. reflexivity.
        + cbn [expand1 map fst]. rewrite Hpre. rewrite app_nil_r. reflexivity.
        + reflexivity.
        + exists n, attrs. split; [exact Emagic|left; reflexivity].
        + cbn [length]. lia.
        + intros q Hq0 Hq. cbn [length] in Hq. replace (i + q) with (S i + (q - 1)) by lia. apply Hnt. lia.
        + exact Hgo. }
    destruct r as [|[rins rsp] r'] eqn:Er; [exact Hnowrite|].
    destruct rins; try exact Hnowrite.
    destruct (jt j) eqn:Ejt; [exact Hnowrite|].
    (* a WriteTop that is not a jump target is absorbed *)
    destruct (opt_go f jt (S j) (S olen) r') as [o m] eqn:E.
    assert (Hgo : go_spec jt (S j) (S olen) r' (o, m)).
    { rewrite <- E. apply IH; [cbn in Hf, Hlen; cbn in Hlen; lia|]. eapply unfused_tail; eauto. }
    rewrite Hrest.
    replace (S (S (length attrs))) with (S (length pre + length [(WriteTop, rsp)])) by (cbn; lia).
    change (pre ++ (WriteTop, rsp) :: r') with (pre ++ [(WriteTop, rsp)] ++ r').
    apply (go_spec_group jt i olen n sp pre [(WriteTop, rsp)] r' (WritePath (n :: attrs)) (sp ++ sps) o m (S j)).
    + rewrite Hpre. reflexivity.
    + cbn [expand1 map fst]. rewrite Hpre. reflexivity.
    + reflexivity.
    + exists n, attrs. split; [exact Emagic|right; reflexivity].
    + cbn [length]. lia.
    + intros q Hq0 Hq. cbn [length] in Hq.
      destruct (Nat.eq_dec q (S (length pre))) as [->|Hne].
      * replace (i + S (length pre)) with j by lia. exact Ejt.
      * replace (i + q) with (S i + (q - 1)) by lia. apply Hnt. lia.
    + exact Hgo.
Qed.

(* ---------- re-targeting and the structure theorem ---------- *)

Definition targets_in_range (p : chunk) : Prop :=
  forall x t, In x p -> target_of (fst x) = Some t -> t <= length p.

(* i' is the optimised counterpart of the original instruction i *)
Definition rel (o : list instr) (i' i : instr) : Prop :=
  match target_of i with
  | Some t => exists t', i' = set_target i t' /\ t' <= length o /\ group_start o t' = t
  | None => i' = i
  end.

Lemma is_jump_target_intro p x t :
  In x p -> target_of (fst x) = Some t -> is_jump_target p t = true.
Proof.
  intros Hin Ht. unfold is_jump_target. apply existsb_exists. exists x. split; [exact Hin|].
  rewrite Ht. apply Nat.eqb_refl.
Qed.

Lemma target_unfused i t : target_of i = Some t -> is_fused i = false.
Proof. destruct i; cbn; intros H; try discriminate; reflexivity. Qed.

Lemma target_expand1 i t : target_of i = Some t -> expand1 i = [i].
Proof. destruct i; cbn; intros H; try discriminate; reflexivity. Qed.

Lemma set_target_expand1 i t t' : target_of i = Some t -> expand1 (set_target i t') = [set_target i t'].
Proof. destruct i; cbn; intros H; try discriminate; reflexivity. Qed.

Lemma set_target_gsize i t' : gsize (set_target i t') = gsize i.
Proof. destruct i; reflexivity. Qed.

Definition retarget_ok (P : nat -> nat -> Prop) (x y : instr * list span_id) : Prop :=
  snd y = snd x /\
  match target_of (fst x) with
  | Some t => exists n, fst y = set_target (fst x) n /\ P t n
  | None => fst y = fst x
  end.

Lemma map_opt_retarget (P : nat -> nat -> Prop) m : forall o_raw : chunk,
  (forall x t, In x o_raw -> target_of (fst x) = Some t -> exists n, nth_error m t = Some n /\ P t n) ->
  exists o, map_opt (retarget m) o_raw = Some o /\ Forall2 (retarget_ok P) o_raw o.
Proof.
  induction o_raw as [|x o_raw IH]; intros H.
  - exists []. split; [reflexivity|constructor].
  - destruct IH as (o & Ho & Hf). { intros y t Hy. apply H. right. exact Hy. }
    cbn [map_opt]. unfold retarget at 1.
    destruct (target_of (fst x)) as [t|] eqn:Et.
    + destruct (H x t (or_introl eq_refl) Et) as (n & Hn & HP). rewrite Hn, Ho.
      eexists. split; [reflexivity|]. constructor; [|exact Hf].
      split; [reflexivity|]. cbn [fst]. rewrite Et. exists n. auto.
    + rewrite Ho. eexists. split; [reflexivity|]. constructor; [|exact Hf].
      split; [reflexivity|]. rewrite Et. reflexivity.
Qed.

Lemma retarget_ok_gsize P x y : retarget_ok P x y -> gsize (fst y) = gsize (fst x).
Proof.
  intros [_ H]. destruct (target_of (fst x)) as [t|].
  - destruct H as (n & -> & _). apply set_target_gsize.
  - rewrite H. reflexivity.
Qed.

Lemma group_start_retarget P (a b : chunk) :
  Forall2 (retarget_ok P) a b -> forall n, group_start (map fst b) n = group_start (map fst a) n.
Proof.
  induction 1 as [|x y a b Hxy Hab IH]; intros n; [reflexivity|].
  destruct n; [reflexivity|]. cbn [map]. rewrite !group_start_S, IH.
  erewrite retarget_ok_gsize by eauto. reflexivity.
Qed.

Lemma Forall2_length' {A B} (R : A -> B -> Prop) a b : Forall2 R a b -> length a = length b.
Proof. induction 1; cbn; congruence. Qed.

Lemma Forall2_in_r {A B} (R : A -> B -> Prop) l l' : Forall2 R l l' ->
  forall y, In y l' -> exists x, In x l /\ R x y.
Proof.
  induction 1 as [|a b l l' Hab Hl IH]; intros y Hy; [contradiction|].
  destruct Hy as [<-|Hy]; [exists a; split; [left; reflexivity|exact Hab]|].
  destruct (IH y Hy) as (x & Hx & Hr). exists x. split; [right; exact Hx|exact Hr].
Qed.

Lemma rel_refl_notarget o i : target_of i = None -> rel o i i.
Proof. intros H. unfold rel. rewrite H. reflexivity. Qed.

Lemma expand1_no_target_inside i : is_fused i = true -> Forall (fun e => target_of e = None) (expand1 i).
Proof.
  destruct i; cbn; try discriminate; intros _; destruct p as [|n attrs]; cbn;
    repeat constructor;
    try (apply Forall_app; split); try (apply Forall_forall; intros e He; apply in_map_iff in He;
    destruct He as (a & <- & _); reflexivity); repeat constructor.
Qed.

Lemma Forall2_rel_same o l : Forall (fun e => target_of e = None) l -> Forall2 (rel o) l l.
Proof. induction 1; constructor; auto using rel_refl_notarget. Qed.

Lemma expand_rel og (P : nat -> nat -> Prop) :
  (forall t n, P t n -> n <= length og /\ group_start og n = t) ->
  forall a b : chunk, Forall2 (retarget_ok P) a b ->
  Forall2 (rel og) (expand (map fst b)) (expand (map fst a)).
Proof.
  intros HP. induction 1 as [|x y a b [_ Hxy] Hab IH]; [constructor|].
  cbn [map expand flat_map]. fold (expand (map fst a)) (expand (map fst b)).
  apply Forall2_app; [|exact IH].
  destruct (target_of (fst x)) as [t|] eqn:Et.
  - destruct Hxy as (n & -> & Hn). rewrite (target_expand1 _ _ Et), (set_target_expand1 _ _ _ Et).
    constructor; [|constructor]. unfold rel. rewrite Et. exists n.
    destruct (HP _ _ Hn). auto.
  - rewrite Hxy. destruct (is_fused (fst x)) eqn:Ef.
    + apply Forall2_rel_same. apply expand1_no_target_inside. exact Ef.
    + assert (expand1 (fst x) = [fst x]) as -> by (destruct (fst x); cbn in *; try reflexivity; discriminate).
      constructor; [|constructor]. apply rel_refl_notarget. exact Et.
Qed.

Theorem optimize_structure p :
  unfused p -> targets_in_range p ->
  exists o, optimize p = Some o /\
    (* the optimised code is the original with only path loads (+ write) merged,
       jumps re-pointed to the group that starts at their old target *)
    Forall2 (rel (map fst o)) (expand (map fst o)) (map fst p) /\
    (* no merged group contains a jump target other than as its first instruction *)
    (forall t, t <= length p -> (t = length p \/ is_jump_target p t = true) -> is_start (map fst o) t) /\
    length (expand (map fst o)) = length p /\
    (* fused instructions have a non-magic head variable *)
    (forall g, In g (map fst o) -> is_fused g = true -> fused_shape g).
Proof.
  intros Hu Hr. unfold optimize, optimize_raw.
  pose proof (opt_go_spec (is_jump_target p) (S (length p)) 0 0 p ltac:(lia) Hu) as Hs.
  destruct (opt_go (S (length p)) (is_jump_target p) 0 0 p) as [o_raw m] eqn:E.
  destruct Hs as (S1 & S2 & S3 & S4 & S5). cbn [fst snd] in *.
  set (P := fun t n => n <= length (map fst o_raw) /\ group_start (map fst o_raw) n = t).
  destruct (map_opt_retarget P m o_raw) as (o & Ho & Hf).
  { intros x t Hx Ht. assert (Hxp : In x p) by (apply S4; [exact Hx|eapply target_unfused; eauto]).
    assert (Htl : t <= length p) by (eapply Hr; eauto).
    assert (Hjt : is_jump_target p t = true) by (eapply is_jump_target_intro; eauto).
    destruct (S3 t Htl (or_intror Hjt)) as (n & Hn & Hg).
    exists n. split; [|split; assumption].
    rewrite S2, <- Hg. rewrite imap_at_start by exact Hn. reflexivity. }
  exists o. split; [exact Ho|].
  assert (Hgs : forall n, group_start (map fst o) n = group_start (map fst o_raw) n)
    by (eapply group_start_retarget; eauto).
  assert (Hlen : length (map fst o) = length (map fst o_raw))
    by (rewrite !map_length; symmetry; eapply Forall2_length'; eauto).
  split; [|split; [|split]].
  - rewrite <- S1. eapply expand_rel; [|exact Hf].
    intros t n [Hn Hg]. rewrite Hlen, Hgs. auto.
  - intros t Ht Hc. destruct (S3 t Ht) as (n & Hn & Hg).
    { destruct Hc; [left|right]; auto. }
    exists n. rewrite Hlen, Hgs. auto.
  - rewrite <- (map_length fst p), <- S1.
    rewrite <- (group_start_all (map fst o)), <- (group_start_all (map fst o_raw)), Hgs, Hlen. reflexivity.
  - intros g Hg Hfg. apply in_map_iff in Hg. destruct Hg as (y & <- & Hy).
    destruct (Forall2_in_r _ _ _ Hf y Hy) as (x & Hx & _ & Hxy).
    destruct (target_of (fst x)) as [t|] eqn:Et.
    + destruct Hxy as (n & Hyx & _). rewrite Hyx in Hfg.
      apply target_unfused in Et. destruct (fst x); cbn in *; congruence.
    + rewrite Hxy in *. apply (S5 x Hx Hfg).
Qed.

(* compiled chunks never contain fused instructions and their targets are in range: both are
   decidable, so the correspondence run checks them on every real listing *)
Definition unfusedb (p : chunk) : bool := forallb (fun x => negb (is_fused (fst x))) p.
Definition targets_in_rangeb (p : chunk) : bool :=
  forallb (fun x => match target_of (fst x) with Some t => Nat.leb t (length p) | None => true end) p.

Lemma unfusedb_ok p : unfusedb p = true -> unfused p.
Proof.
  unfold unfusedb, unfused. rewrite forallb_forall. intros H x Hx.
  specialize (H x Hx). destruct (is_fused (fst x)); [discriminate|reflexivity].
Qed.

Lemma targets_in_rangeb_ok p : targets_in_rangeb p = true -> targets_in_range p.
Proof.
  unfold targets_in_rangeb, targets_in_range. rewrite forallb_forall. intros H x t Hx Ht.
  specialize (H x Hx). rewrite Ht in H. apply Nat.leb_le. exact H.
Qed.
