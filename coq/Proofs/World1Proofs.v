(* Where two builders modelled the same Rust function, the models are proved equal here (on
   well-formed values: integers inside the range of their variant, as in Order.wf), and
   Model/World1.v is proved to agree with the toy world Model/World0.v on the World0 subset.
     keys            Key::eq / Key::cmp:  VFormat.v, Format.v, Component.v  vs  Order.v
     lookups         Map::get, get_attr, as_key, kwargs.get:  VFormat.v, World0.v, Component.v,
                     Builtins.v  vs  Order.v
     ==, <, in       World0.veq0 / vcmp0 / contains0  vs  Order.veq / vpcmp / contains
     numbers         Number.num_eq / num_partial_cmp (C13)  vs  Order.veq / vpcmp (C15)
     escape_html     Builtins.escape_html  vs  VFormat.escape_html
     filters/tests   World0.filter0 / test0  vs  World1.filter1 / test1 *)
From Coq Require Import List ZArith NArith Bool Lia String.
From TeraV Require Import Model.Value Model.Instr Model.VM Gen.Tables.
From TeraV Require Model.VFormat Model.World0 Model.Format Model.Number Model.Order Model.CollFilters
  Model.Builtins Model.Component Model.World1 Spec.Arith.
From TeraV Require Proofs.OrderProofs Proofs.NumCmpProofs.
Import ListNotations.
Open Scope Z_scope.

(* ================================================================== strings *)

Lemma str_cmp_vformat a : forall b, VFormat.str_cmp a b = Order.list_cmp N.compare a b.
Proof.
  induction a as [|x a IH]; intros [|y b]; cbn; trivial.
Qed.

Lemma str_cmp_format a : forall b, Format.str_cmp a b = Order.list_cmp N.compare a b.
Proof.
  induction a as [|x a IH]; intros [|y b]; cbn; trivial.
Qed.

Lemma list_eq2_eqb a : forall b, Order.list_eq2 N.eqb a b = list_eqb N.eqb a b.
Proof. induction a as [|x a IH]; intros [|y b]; cbn; trivial. all: try (rewrite IH; reflexivity). Qed.

Lemma is_prefix_w0 p : forall s, World0.is_prefix p s = Order.is_prefix p s.
Proof. induction p as [|x p IH]; intros [|y s]; cbn; trivial. all: try (rewrite IH; reflexivity). Qed.

Lemma is_substr_w0 p s : World0.is_substr p s = Order.str_contains s p.
Proof.
  induction s as [|c s IH]; cbn.
  - rewrite is_prefix_w0. reflexivity.
  - rewrite is_prefix_w0, IH. reflexivity.
Qed.

(* ================================================================== keys *)

Lemma unsigned_nonneg r z : rep_ok r z = true -> (r = U64 \/ r = U128) -> 0 <= z.
Proof. exact (OrderProofs.rep_ok_unsigned r z). Qed.

(* Key::eq: VFormat.v compares the integers whatever the variants are *)
Lemma key_eq_vformat a b : Order.key_wf a = true -> Order.key_wf b = true ->
  VFormat.key_eq a b = Order.key_eq a b.
Proof.
  intros Ha Hb.
  destruct a as [x|r z|s o], b as [y|r' z'|s' o']; cbn in *; trivial;
    try (destruct r; reflexivity); try (destruct r'; reflexivity).
  destruct r, r'; cbn; trivial.
  all: try (pose proof (unsigned_nonneg _ _ Ha ltac:(auto)));
       try (pose proof (unsigned_nonneg _ _ Hb ltac:(auto))).
  all: match goal with |- _ = (if ?c then _ else _) => destruct c eqn:E; trivial end.
  all: apply Z.ltb_lt in E; apply Z.eqb_neq; lia.
Qed.

(* outside the well-formed keys the two differ: an "unsigned" -1 *)
Example key_eq_vformat_differs_on_ill_formed :
  VFormat.key_eq (KInt I64 (-1)) (KInt U64 (-1)) = true /\ Order.key_eq (KInt I64 (-1)) (KInt U64 (-1)) = false.
Proof. split; reflexivity. Qed.

Lemma key_eq_component a b : Order.key_wf a = true -> Order.key_wf b = true ->
  Component.key_eqb a b = Order.key_eq a b.
Proof.
  intros Ha Hb.
  destruct a as [x|r z|s o], b as [y|r' z'|s' o']; cbn in *; trivial;
    try (destruct r; reflexivity); try (destruct r'; reflexivity).
  destruct r, r'; cbn; trivial.
  all: try (pose proof (unsigned_nonneg _ _ Ha ltac:(auto)));
       try (pose proof (unsigned_nonneg _ _ Hb ltac:(auto))).
  all: match goal with |- _ = (if ?c then _ else _) => destruct c eqn:E; trivial end.
  all: apply Z.ltb_lt in E; apply Z.eqb_neq; lia.
Qed.

Lemma key_eq_format a b : Order.key_wf a = true -> Order.key_wf b = true ->
  Format.fkey_eqb a b = Order.key_eq a b.
Proof.
  intros Ha Hb.
  destruct a as [x|r z|s o], b as [y|r' z'|s' o']; cbn in *; trivial;
    try (destruct r; reflexivity); try (destruct r'; reflexivity).
  destruct r, r'; cbn; trivial.
  all: try (pose proof (unsigned_nonneg _ _ Ha ltac:(auto)));
       try (pose proof (unsigned_nonneg _ _ Hb ltac:(auto))).
  all: match goal with |- _ = (if ?c then _ else _) => destruct c eqn:E; trivial end.
  all: apply Z.ltb_lt in E; apply Z.eqb_neq; lia.
Qed.

(* Key::cmp: the order format_map sorts with *)
Ltac key_cmp_tac Ha Hb strl :=
  match goal with
  | |- _ = Order.list_cmp _ _ _ => apply strl
  | |- _ => idtac
  end.

Lemma key_cmp_format a b : Order.key_wf a = true -> Order.key_wf b = true ->
  Format.fkey_cmp a b = Order.key_cmp a b.
Proof.
  intros Ha Hb.
  destruct a as [x|r z|s o], b as [y|r' z'|s' o']; cbn in *; trivial;
    try (destruct r; reflexivity); try (destruct r'; reflexivity);
    try (destruct o; reflexivity); try (destruct o'; reflexivity);
    try (destruct r, o'; reflexivity); try (destruct o, r'; reflexivity);
    try apply str_cmp_format; try (destruct x, y; reflexivity).
  all: destruct r, r'; cbn; trivial.
  all: try (pose proof (unsigned_nonneg _ _ Ha ltac:(auto)));
       try (pose proof (unsigned_nonneg _ _ Hb ltac:(auto))).
  all: match goal with |- _ = (if ?c then _ else _) => destruct c eqn:E; trivial end.
  all: apply Z.ltb_lt in E; first [apply Z.compare_lt_iff; lia | apply Z.compare_gt_iff; lia].
Qed.

Lemma key_cmp_vformat a b : Order.key_wf a = true -> Order.key_wf b = true ->
  VFormat.key_cmp a b = Order.key_cmp a b.
Proof.
  intros Ha Hb.
  destruct a as [x|r z|s o], b as [y|r' z'|s' o']; cbn in *; trivial;
    try (destruct r; reflexivity); try (destruct r'; reflexivity);
    try (destruct o; reflexivity); try (destruct o'; reflexivity);
    try (destruct r, o'; reflexivity); try (destruct o, r'; reflexivity);
    try apply str_cmp_vformat; try (destruct x, y; reflexivity).
  all: destruct r, r'; cbn; trivial.
  all: try (pose proof (unsigned_nonneg _ _ Ha ltac:(auto)));
       try (pose proof (unsigned_nonneg _ _ Hb ltac:(auto))).
  all: match goal with |- _ = (if ?c then _ else _) => destruct c eqn:E; trivial end.
  all: apply Z.ltb_lt in E; first [apply Z.compare_lt_iff; lia | apply Z.compare_gt_iff; lia].
Qed.

Lemma as_key_vformat v : VFormat.as_key v = Order.as_key v.
Proof. destruct v; reflexivity. Qed.

(* ================================================================== lookups *)

Definition kwf {V} (m : list (key * V)) : Prop := Forall (fun kv => Order.key_wf (fst kv) = true) m.

(* Map::get *)
Lemma map_get_vformat m k : kwf m -> Order.key_wf k = true ->
  VFormat.map_get m k = Order.map_get m k.
Proof.
  intros Hm Hk. induction Hm as [|[k' v] t Hk' _ IH]; cbn; trivial.
  cbn in Hk'. rewrite (key_eq_vformat k' k Hk' Hk), IH. reflexivity.
Qed.

(* a lookup with a string key needs no well-formedness: only string keys can equal it *)
Lemma key_eq_str_vformat k s o : VFormat.key_eq k (KStr s o) = Order.key_eq k (KStr s o).
Proof. destruct k as [b|r z|s' o']; cbn; trivial. destruct r; reflexivity. Qed.

Lemma map_get_str_vformat m s o : VFormat.map_get m (KStr s o) = Order.map_get m (KStr s o).
Proof.
  induction m as [|[k v] t IH]; cbn; trivial.
  rewrite key_eq_str_vformat, IH. reflexivity.
Qed.

(* Value::get_attr: VFormat.v looks the attribute up with Map::get; Order.v ports the linear
   scan below the cutoff and the hash lookup above it *)
Lemma get_attr_vformat v a : VFormat.get_attr v a = Order.get_attr v a.
Proof.
  rewrite OrderProofs.get_attr_spec. destruct v; trivial. cbn. apply map_get_str_vformat.
Qed.

(* kwargs.get(&Key::Str(name)) as Component.v writes it *)
Lemma key_eq_str_component k s o : Component.key_eqb k (KStr s o) = Order.key_eq k (KStr s o).
Proof. destruct k as [b|r z|s' o']; cbn; trivial. destruct r; reflexivity. Qed.

Lemma kw_get_component m n : Component.kw_get m n = Order.map_get m (KStr n false).
Proof.
  unfold Component.kw_get. induction m as [|[k v] t IH]; cbn; trivial.
  rewrite key_eq_str_component, IH. reflexivity.
Qed.

(* Kwargs::get as Builtins.v reads it (a list of the string-keyed entries) *)
Lemma str_eqb_sym (a b : str) : str_eqb a b = str_eqb b a.
Proof.
  unfold str_eqb. revert b. induction a as [|x a IH]; intros [|y b]; cbn; trivial.
  rewrite N.eqb_sym, IH. reflexivity.
Qed.

Lemma kw_strs_cons k v t :
  World1.kw_strs ((k, v) :: t) = match k with KStr s _ => [(s, v)] | _ => [] end ++ World1.kw_strs t.
Proof. reflexivity. Qed.

Lemma kw_find_strs k n : Builtins.kw_find n (World1.kw_strs k) = Order.map_get k (KStr n false).
Proof.
  induction k as [|[k' v] t IH]; [reflexivity|].
  rewrite kw_strs_cons. cbn [Order.map_get].
  destruct k' as [b|r z|s o]; cbn [app Builtins.kw_find].
  - rewrite IH. reflexivity.
  - rewrite IH. destruct r; reflexivity.
  - rewrite IH. cbn. rewrite (str_eqb_sym n s). reflexivity.
Qed.

Lemma kw_get_w0 k n : World0.kw_get k n = Builtins.kw_find n (World1.kw_strs k).
Proof. unfold World0.kw_get. rewrite kw_find_strs. apply map_get_str_vformat. Qed.

(* ================================================================== ==, <, in *)

(* no float anywhere (World0.v has no float arms) *)
Fixpoint ffree (v : value) : bool :=
  match v with
  | VFloat _ => false
  | VArr l => (fix go (l : list value) := match l with [] => true | x :: t => ffree x && go t end) l
  | VMap m => (fix go (m : list (key * value)) := match m with [] => true | kv :: t => ffree (snd kv) && go t end) m
  | _ => true
  end.

Lemma ffree_arr l : ffree (VArr l) = true <-> Forall (fun x => ffree x = true) l.
Proof.
  cbn. induction l as [|x t IH]; [split; constructor|].
  rewrite andb_true_iff, IH. split; [intros [A B]; constructor; trivial|intros H; inversion H; auto].
Qed.
Lemma ffree_map m : ffree (VMap m) = true <-> Forall (fun kv : key * value => ffree (snd kv) = true) m.
Proof.
  cbn. induction m as [|x t IH]; [split; constructor|].
  rewrite andb_true_iff, IH. split; [intros [A B]; constructor; trivial|intros H; inversion H; auto].
Qed.

Lemma kwf_of_wf m : Order.wf (VMap m) -> kwf m.
Proof. intros W. apply OrderProofs.wf_map in W as [K _]. exact K. Qed.

Lemma map_get_in {V} (m : list (key * V)) k v : Order.map_get m k = Some v -> exists k', In (k', v) m.
Proof.
  induction m as [|[k' v'] t IH]; cbn; [discriminate|].
  destruct (Order.key_eq k' k).
  - intros E; inversion E; subst. exists k'. left; reflexivity.
  - intros E. destruct (IH E) as [k'' H]. exists k''. right; exact H.
Qed.

(* PartialEq for Value *)
Theorem veq0_veq : forall a, Order.wf a -> ffree a = true ->
  forall b, Order.wf b -> ffree b = true -> World0.veq0 a b = Order.veq a b.
Proof.
  apply (OrderProofs.value_ind'
           (fun a => Order.wf a -> ffree a = true ->
                     forall b, Order.wf b -> ffree b = true -> World0.veq0 a b = Order.veq a b)).
  - intros _ _ b _ _. destruct b; reflexivity.
  - intros _ _ b _ _. destruct b; reflexivity.
  - intros x _ _ b _ _. destruct b; reflexivity.
  - intros r z Wa _ b Wb Fb. destruct b; try reflexivity; [|discriminate].
    cbn [World0.veq0 Order.veq]. rewrite OrderProofs.int_eq_x; trivial.
  - intros f _ F. discriminate.
  - intros s o _ _ b _ _. destruct b; try reflexivity. cbn. symmetry. apply list_eq2_eqb.
  - intros l IH Wa Fa b Wb Fb. destruct b as [| | | | | |l'| |]; try reflexivity.
    apply OrderProofs.wf_arr in Wa, Wb. apply ffree_arr in Fa, Fb.
    cbn [World0.veq0 Order.veq].
    revert l' Wb Fb. induction l as [|x t IHt]; intros [|y t'] Wb Fb; cbn; trivial.
    inversion IH; inversion Wa; inversion Fa; inversion Wb; inversion Fb; subst.
    rewrite (H1 H5 H9 y H13 H17). f_equal. apply IHt; trivial.
  - intros m IH Wa Fa b Wb Fb. destruct b as [| | | | | | |m'|]; try reflexivity.
    pose proof (kwf_of_wf _ Wa) as Ka. pose proof (kwf_of_wf _ Wb) as Kb.
    apply OrderProofs.wf_map in Wa as [_ [_ Va]]. apply OrderProofs.wf_map in Wb as [_ [_ Vb]].
    apply ffree_map in Fa, Fb.
    cbn [World0.veq0 Order.veq]. f_equal.
    induction m as [|[k x] t IHt]; cbn; trivial.
    inversion IH; inversion Ka; inversion Va; inversion Fa; subst. cbn in *.
    rewrite (map_get_vformat m' k Kb) by assumption.
    destruct (Order.map_get m' k) as [y|] eqn:G; trivial.
    destruct (map_get_in _ _ _ G) as [k' Hin].
    rewrite Forall_forall in Vb, Fb.
    rewrite (H1 H9 H13 y (Vb _ Hin) (Fb _ Hin)). f_equal. apply IHt; trivial.
  - intros bs _ _ b _ _. destruct b; try reflexivity. cbn. symmetry. apply list_eq2_eqb.
Qed.

(* the kinds World0.vcmp0 orders: undefined, none, bool, integer, string *)
Definition w0_scalar (v : value) : bool :=
  match v with VUndef | VNone | VBool _ | VInt _ _ | VStr _ _ => true | _ => false end.

(* PartialOrd for Value *)
Theorem vcmp0_vpcmp a b : Order.wf a -> Order.wf b -> w0_scalar a = true -> w0_scalar b = true ->
  World0.vcmp0 a b = Order.vpcmp a b.
Proof.
  intros Wa Wb Sa Sb. destruct a, b; try discriminate; try reflexivity.
  all: try (cbn [World0.vcmp0 Order.vpcmp]; rewrite OrderProofs.int_pcmp_x; trivial; fail).
  all: try (cbn; f_equal; apply str_cmp_vformat).
Qed.

(* arrays and byte strings are ordered by the engine (lexicographically); World0.v refuses them *)
Example vcmp0_differs_on_arrays :
  World0.vcmp0 (VArr [VInt U64 1]) (VArr [VInt U64 2]) = None /\
  Order.vpcmp (VArr [VInt U64 1]) (VArr [VInt U64 2]) = Some Lt.
Proof. split; reflexivity. Qed.

(* Value::contains *)
Theorem contains0_contains c n : Order.wf c -> ffree c = true -> Order.wf n -> ffree n = true ->
  World0.contains0 c n = Order.contains c n.
Proof.
  intros Wc Fc Wn Fn. destruct c as [| | | | |s o|l|m|]; try reflexivity.
  - cbn. destruct n; trivial. rewrite is_substr_w0. reflexivity.
  - cbn. f_equal. apply OrderProofs.wf_arr in Wc. apply ffree_arr in Fc.
    induction l as [|x t IH]; cbn; trivial. inversion Wc; inversion Fc; subst.
    rewrite (veq0_veq x) by assumption. f_equal. apply IH; trivial.
  - cbn. f_equal. rewrite as_key_vformat. destruct (Order.as_key n) as [k|] eqn:E; trivial.
    rewrite (map_get_vformat m k (kwf_of_wf _ Wc) (OrderProofs.as_key_wf n k Wn E)). reflexivity.
Qed.

(* ================================================================== numbers: C13 vs C15 *)

(* the two exact orders the builders specified their ports against are the same order *)
Definition fcls_x (x : Arith.xreal) : Order.fcls :=
  match x with
  | Arith.XNegInf => Order.FInf true
  | Arith.XPosInf => Order.FInf false
  | Arith.XNaN => Order.FNaN
  | Arith.XFin m e => Order.FFin m e
  end.

Lemma xcmp_bridge x y : Arith.xcmp x y = OrderProofs.xcmp (fcls_x x) (fcls_x y).
Proof. destruct x, y; reflexivity. Qed.

Lemma fcls_of_xval f : fcls_x (Arith.xval_float f) = Order.fcls_of f.
Proof. destruct f as [s|s| |s m e]; try reflexivity. destruct s; reflexivity. Qed.

Definition sk_num (v : value) : Order.fcls := fcls_x (NumCmpProofs.xval v).

Lemma sk_of_num v : NumCmpProofs.wf_num v -> OrderProofs.sk v = Some (OrderProofs.SNum (sk_num v)).
Proof.
  destruct v; cbn; try contradiction; intros _; unfold sk_num; cbn.
  - reflexivity.
  - rewrite fcls_of_xval. reflexivity.
Qed.

Lemma wf_of_wf_num v : NumCmpProofs.wf_num v -> Order.wf v.
Proof. destruct v; cbn; try contradiction; intros H; [exact H|reflexivity]. Qed.

(* PartialOrd, numeric arms: Number.v (f64 primitives of SpecFloat) = Order.v (exact dyadic
   comparison), for every pair of numbers the engine can hold *)
Theorem num_partial_cmp_vpcmp a b : NumCmpProofs.wf_num a -> NumCmpProofs.wf_num b ->
  Number.num_partial_cmp a b = Order.vpcmp a b.
Proof.
  intros Wa Wb.
  rewrite (NumCmpProofs.num_partial_cmp_exact a b Wa Wb).
  rewrite (OrderProofs.vpcmp_sk a b _ _ (wf_of_wf_num a Wa) (wf_of_wf_num b Wb) (sk_of_num a Wa) (sk_of_num b Wb)).
  cbn [OrderProofs.srank OrderProofs.scmp]. rewrite N.eqb_refl. rewrite xcmp_bridge. reflexivity.
Qed.

(* PartialEq, numeric arms *)
Theorem num_eq_veq a b : NumCmpProofs.wf_num a -> NumCmpProofs.wf_num b ->
  Number.num_eq a b = Order.veq a b.
Proof.
  intros Wa Wb.
  rewrite (NumCmpProofs.num_eq_exact a b Wa Wb).
  rewrite (OrderProofs.veq_sk a b _ _ (wf_of_wf_num a Wa) (wf_of_wf_num b Wb) (sk_of_num a Wa) (sk_of_num b Wb)).
  cbn [OrderProofs.scmp]. rewrite xcmp_bridge. reflexivity.
Qed.

(* ================================================================== escape_html *)

Lemma esc_lookup_find tbl c :
  match find (fun e : N * list N => N.eqb (fst e) c) tbl with Some e => snd e | None => [c] end
  = VFormat.esc_lookup tbl c.
Proof.
  induction tbl as [|[k r] t IH]; cbn; trivial. destruct (N.eqb k c); trivial.
Qed.

Theorem escape_html_builtins s : Builtins.escape_html s = VFormat.escape_html s.
Proof.
  unfold Builtins.escape_html, Builtins.escape_with, VFormat.escape_html.
  induction s as [|c s IH]; cbn [flat_map]; trivial. rewrite IH, esc_lookup_find. reflexivity.
Qed.

(* ================================================================== filters and tests of World0.v *)

(* dispatch: which model a World0 name reaches in World1 *)
Lemma filter_res_default v kw :
  World1.filter_res World0.n_default v kw = Some (World1.of_bres (Builtins.f_default kw v)).
Proof. reflexivity. Qed.
Lemma filter_res_length v kw :
  World1.filter_res World0.n_length v kw = Some (World1.of_bres (Builtins.f_length kw v)).
Proof. reflexivity. Qed.
Lemma filter_res_safe v kw : World1.filter_res World0.n_safe v kw = Some (World1.f_safe1 v).
Proof. reflexivity. Qed.
Lemma filter_res_upper_str s o kw :
  World1.filter_res World0.n_upper (VStr s o) kw =
  if World1.is_ascii_str s then Some (ROk (VStr (flat_map World1.ascii_upper s) false)) else None.
Proof. unfold World1.filter_res. cbn. destruct (World1.is_ascii_str s); reflexivity. Qed.

Theorem filter_default_w0 v k sc :
  World1.filter1 World0.n_default v k sc = World0.filter0 World0.n_default v k sc.
Proof.
  unfold World1.filter1. rewrite filter_res_default.
  change (World0.filter0 World0.n_default v k sc)
    with (Some (match World0.kw_get k World0.n_value with
                | None => RErr ErrMsg
                | Some d =>
                    match World0.kw_get k World0.n_boolean with
                    | Some (VBool true) => ROk (if is_truthy v then v else d)
                    | Some (VBool false) | None => ROk (if is_undefined v then d else v)
                    | Some _ => RErr ErrMsg
                    end
                end, false)).
  rewrite !kw_get_w0.
  unfold Builtins.f_default, Builtins.kw_must, Builtins.kw_get.
  change (Builtins.s2l "value") with World0.n_value.
  change (Builtins.s2l "boolean") with World0.n_boolean.
  change (World1.filter_is_safe World0.n_default) with false.
  destruct (Builtins.kw_find World0.n_value (World1.kw_strs k)) as [d|]; [|reflexivity].
  destruct (Builtins.kw_find World0.n_boolean (World1.kw_strs k)) as [bv|]; cbn.
  - destruct bv as [| |b| | | | | |]; try reflexivity. destruct b; cbn.
    + destruct (is_truthy v); reflexivity.
    + destruct v; reflexivity.
  - destruct v; reflexivity.
Qed.

Theorem filter_length_w0 v k sc :
  World1.filter1 World0.n_length v k sc = World0.filter0 World0.n_length v k sc.
Proof. unfold World1.filter1. rewrite filter_res_length. destruct v; reflexivity. Qed.

(* `safe` takes any value in the engine (ArgFromValue for Cow<str> formats it); World0.v only
   knows the string receiver *)
(* what ApplyFilter pushes (interpreter.rs: `if filter.is_safe() { res.mark_safe() }`) *)
Definition pushed (x : option (res value * bool)) : option (res value) :=
  match x with
  | Some (ROk r, safe) => Some (ROk (if safe then mark_safe r else r))
  | Some (RErr e, _) => Some (RErr e)
  | None => None
  end.

(* World0.v gives `safe` the is_safe flag, the engine's StoredFilter::is_safe is false for every
   built-in (Gen/SafeTables.v) and the filter mints the safe string itself: the same value is pushed *)
Theorem filter_safe_w0 s o k sc :
  pushed (World1.filter1 World0.n_safe (VStr s o) k sc) = pushed (World0.filter0 World0.n_safe (VStr s o) k sc).
Proof. reflexivity. Qed.

Example filter_safe_differs_on_non_strings :
  World0.filter0 World0.n_safe (VInt U64 1) [] (Scope [] [] None [] None) = Some (RErr ErrMsg, true) /\
  World1.filter1 World0.n_safe (VInt U64 1) [] (Scope [] [] None [] None) = Some (ROk (VStr [49%N] true), false).
Proof. split; vm_compute; reflexivity. Qed.

Lemma flat_map_singleton {A B} (f : A -> B) l : flat_map (fun c => [f c]) l = map f l.
Proof. induction l as [|x t IH]; cbn; [reflexivity|rewrite IH; reflexivity]. Qed.

(* `upper` on ASCII text (char::to_uppercase needs the Unicode tables elsewhere: World1 refuses
   to answer, World0 passes the character through) *)
Theorem filter_upper_w0 v k sc :
  (forall s o, v = VStr s o -> World1.is_ascii_str s = true) ->
  World1.filter1 World0.n_upper v k sc = World0.filter0 World0.n_upper v k sc.
Proof.
  intros H. destruct v as [| | | | |s o| | |]; try reflexivity.
  unfold World1.filter1. rewrite filter_res_upper_str, (H s o eq_refl).
  change (World0.filter0 World0.n_upper (VStr s o) k sc)
    with (Some (ROk (VStr (map World0.ascii_upper s) false), false)).
  change (World1.filter_is_safe World0.n_upper) with false.
  rewrite <- flat_map_singleton. reflexivity.
Qed.

Theorem test_defined_w0 v k : World1.test1 World0.n_defined v k = World0.test0 World0.n_defined v k.
Proof. reflexivity. Qed.
Theorem test_undefined_w0 v k : World1.test1 World0.n_undefined v k = World0.test0 World0.n_undefined v k.
Proof. reflexivity. Qed.

(* ================================================================== World1 extends World0 *)

(* Field by field: on the World0 subset (well-formed float-free values; orderings between
   undefined/none/bool/integer/string operands; filters default, upper on ASCII, safe on strings,
   length; tests defined, undefined) the full world answers what the toy world answers.
   NOT covered: w_format (World0 prints integers with VFormat.z_to_str, World1 with Format.dec:
   two decimal printers not proved equal here), w_math / w_negate / w_function / w_build_ctx
   (World0 has none of them: ErrOther / None). *)
Theorem world1_extends_world0 : forall tpls comps,
  let w1 := World1.world1 tpls comps in
  let w0 := World0.world0 tpls in
  w_templates w1 = w_templates w0 /\
  w_max_depth w1 = w_max_depth w0 /\
  w_escape w1 = w_escape w0 /\
  (forall v, w_as_key w1 v = w_as_key w0 v) /\
  (forall v a, w_get_attr w1 v a = w_get_attr w0 v a) /\
  (forall m k, kwf m -> Order.key_wf k = true -> w_map_get w1 m k = w_map_get w0 m k) /\
  (forall a b, Order.wf a -> ffree a = true -> Order.wf b -> ffree b = true -> w_eq w1 a b = w_eq w0 a b) /\
  (forall a b, Order.wf a -> Order.wf b -> w0_scalar a = true -> w0_scalar b = true ->
               w_cmp w1 a b = w_cmp w0 a b) /\
  (forall c n, Order.wf c -> ffree c = true -> Order.wf n -> ffree n = true ->
               w_contains w1 c n = w_contains w0 c n) /\
  (forall v k sc, w_filter w1 World0.n_default v k sc = w_filter w0 World0.n_default v k sc) /\
  (forall v k sc, w_filter w1 World0.n_length v k sc = w_filter w0 World0.n_length v k sc) /\
  (forall s o k sc, pushed (w_filter w1 World0.n_safe (VStr s o) k sc) = pushed (w_filter w0 World0.n_safe (VStr s o) k sc)) /\
  (forall v k sc, (forall s o, v = VStr s o -> World1.is_ascii_str s = true) ->
                  w_filter w1 World0.n_upper v k sc = w_filter w0 World0.n_upper v k sc) /\
  (forall v k, w_test w1 World0.n_defined v k = w_test w0 World0.n_defined v k) /\
  (forall v k, w_test w1 World0.n_undefined v k = w_test w0 World0.n_undefined v k).
Proof.
  intros tpls comps w1 w0. cbn.
  repeat match goal with |- _ /\ _ => split end.
  all: try reflexivity.
  all: try (intros; symmetry;
            first [apply as_key_vformat | apply get_attr_vformat | apply map_get_vformat; assumption
                  | apply veq0_veq; assumption | apply vcmp0_vpcmp; assumption
                  | apply contains0_contains; assumption]; fail).
  all: first [exact filter_default_w0 | exact filter_length_w0 | exact filter_upper_w0 | exact filter_safe_w0].
Qed.
