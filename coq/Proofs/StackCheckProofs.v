(* Soundness of the chunk validator of Model/StackCheck.v with respect to the concrete VM model
   (Model/VM.v `run`), for a whole validated world: induction on fuel, invariant
   "at ip the three stacks have the shape table[ip], relative to what was there on entry". *)
From TeraV Require Import Model.Value Model.Instr Model.Slice Model.VM Model.StackCheck
  Proofs.StackCheckSlice.
Local Open Scope nat_scope.

(* ---------- concretisation ---------- *)

Definition has_ty (v : value) (t : aty) : Prop :=
  match t with TAny => True | TMap => is_map v = true | TArr => is_array v = true end.
Definition loop_ok (f : loop_frame) (a : option nat) : Prop :=
  match a with None => True | Some t => lf_end_ip f = t end.

(* value stack = typed part ++ what was there on entry (untouched) *)
Definition SI (bv : list value) (tys : list aty) (st : list value) : Prop :=
  exists vs, st = vs ++ bv /\ Forall2 has_ty vs tys.
(* loop stack = typed frames ++ the caller's frames (their end_ip as on entry) *)
Definition LI (bl : list nat) (lo : list (option nat)) (ls : list loop_frame) : Prop :=
  exists fs rest, ls = fs ++ rest /\ Forall2 loop_ok fs lo /\ map lf_end_ip rest = bl.
Definition CI (bc ca : nat) (cs : list str) : Prop := length cs = ca + bc.

Definition Inv (bv : list value) (bl : list nat) (bc : nat) (a : astate) (s : state) : Prop :=
  SI bv (a_stack a) (stack s) /\ LI bl (a_loops a) (loops s) /\ CI bc (a_caps a) (caps s).

Lemma ty_sub_ok v a b : ty_sub a b = true -> has_ty v a -> has_ty v b.
Proof. destruct a, b; cbn; intros; try discriminate; auto. Qed.

Lemma lp_sub_ok f a b : lp_sub a b = true -> loop_ok f a -> loop_ok f b.
Proof.
  destruct b as [t|]; cbn; [|auto]. destruct a as [t'|]; [|discriminate].
  intros H. apply Nat.eqb_eq in H. subst. auto.
Qed.

Lemma all2_Forall2 {A B} (R : B -> A -> Prop) (f : A -> A -> bool) :
  (forall x a b, f a b = true -> R x a -> R x b) ->
  forall xs l l', Forall2 R xs l -> all2 f l l' = true -> Forall2 R xs l'.
Proof.
  intros Hf xs l l' H. revert l'. induction H as [|x a xs l Hx _ IH]; intros l' Ha.
  - destruct l'; [constructor|discriminate].
  - destruct l' as [|b l']; [discriminate|]. cbn in Ha. apply andb_prop in Ha. destruct Ha as [H1 H2].
    constructor; [exact (Hf _ _ _ H1 Hx)|exact (IH _ H2)].
Qed.

Lemma Inv_sub bv bl bc a b s : astate_sub a b = true -> Inv bv bl bc a s -> Inv bv bl bc b s.
Proof.
  unfold astate_sub. intros H (HS & HL & HC).
  apply andb_prop in H. destruct H as [H H3]. apply andb_prop in H. destruct H as [H1 H2].
  apply Nat.eqb_eq in H3. split; [|split].
  - destruct HS as (vs & E & F). exists vs. split; [exact E|]. exact (all2_Forall2 _ _ ty_sub_ok _ _ _ F H1).
  - destruct HL as (fs & rest & E & F & M). exists fs, rest. split; [exact E|split; [|exact M]].
    exact (all2_Forall2 _ _ lp_sub_ok _ _ _ F H2).
  - unfold CI in *. rewrite <- H3. exact HC.
Qed.

Lemma SI_nil bv : SI bv [] bv.
Proof. exists []. split; [reflexivity|constructor]. Qed.

Lemma SI_nil_inv bv st : SI bv [] st -> st = bv.
Proof. intros (vs & E & F). inversion F. subst. reflexivity. Qed.

Lemma SI_push bv ts st v t : SI bv ts st -> has_ty v t -> SI bv (t :: ts) (v :: st).
Proof. intros (vs & E & F) H. exists (v :: vs). split; [subst; reflexivity|constructor; assumption]. Qed.

Lemma SI_pop bv t ts st : SI bv (t :: ts) st -> exists v st', st = v :: st' /\ has_ty v t /\ SI bv ts st'.
Proof.
  intros (vs & E & F). inversion F as [|v t' vs' ts' Hv F']. subst.
  exists v, (vs' ++ bv). split; [reflexivity|split; [exact Hv|]]. exists vs'. split; [reflexivity|exact F'].
Qed.

Lemma SI_drop bv : forall n tys st r, SI bv tys st -> drop n tys = Some r ->
  exists vs st', st = vs ++ st' /\ length vs = n /\ SI bv r st'.
Proof.
  induction n as [|n IH]; intros tys st r H D.
  - cbn in D. injection D as <-. exists [], st. repeat split; auto.
  - cbn in D. destruct tys as [|t tys]; [discriminate|].
    destruct (SI_pop _ _ _ _ H) as (v & st' & -> & _ & H').
    destruct (IH _ _ _ H' D) as (vs & st'' & -> & L & H'').
    exists (v :: vs), st''. repeat split; [cbn; lia|exact H''].
Qed.

Lemma LI_push bl lo ls f a : LI bl lo ls -> loop_ok f a -> LI bl (a :: lo) (f :: ls).
Proof.
  intros (fs & rest & E & F & M) H. exists (f :: fs), rest.
  split; [rewrite E; reflexivity|split; [constructor; assumption|exact M]].
Qed.

Lemma LI_pop bl a lo ls : LI bl (a :: lo) ls -> exists f ls', ls = f :: ls' /\ loop_ok f a /\ LI bl lo ls'.
Proof.
  intros (fs & rest & E & F & M). inversion F as [|f a' fs' lo' Hf F' E1 E2]. rewrite E, <- E1.
  exists f, (fs' ++ rest). split; [reflexivity|split; [exact Hf|]]. exists fs', rest. auto.
Qed.

Lemma LI_base ls : LI (map lf_end_ip ls) [] ls.
Proof. exists [], ls. split; [reflexivity|split; [constructor|reflexivity]]. Qed.

Lemma LI_nil_inv bl ls : LI bl [] ls -> map lf_end_ip ls = bl.
Proof. intros (fs & rest & E & F & M). inversion F as [Hfs|]. rewrite E, <- Hfs. exact M. Qed.

Lemma Forall2_loop_ok_sim : forall fs lo fs', Forall2 loop_ok fs lo ->
  map lf_end_ip fs' = map lf_end_ip fs -> Forall2 loop_ok fs' lo.
Proof.
  intros fs lo fs' F. revert fs'. induction F as [|f a fs lo Hf _ IH]; intros fs' M.
  - destruct fs'; [constructor|discriminate].
  - destruct fs' as [|f' fs']; [discriminate|]. cbn in M. injection M as M1 M2.
    constructor; [|exact (IH _ M2)]. destruct a; cbn in *; congruence.
Qed.

Lemma LI_sim bl lo ls ls' : LI bl lo ls -> map lf_end_ip ls' = map lf_end_ip ls -> LI bl lo ls'.
Proof.
  intros (fs & rest & E & F & M) H. subst ls.
  rewrite map_app in H.
  exists (firstn (length fs) ls'), (skipn (length fs) ls').
  assert (H1 : map lf_end_ip (firstn (length fs) ls') = map lf_end_ip fs).
  { rewrite <- firstn_map, H. rewrite <- (map_length lf_end_ip fs), firstn_app, Nat.sub_diag, firstn_all.
    cbn. apply app_nil_r. }
  assert (H2 : map lf_end_ip (skipn (length fs) ls') = map lf_end_ip rest).
  { rewrite <- skipn_map, H. rewrite <- (map_length lf_end_ip fs), skipn_app, Nat.sub_diag, skipn_all.
    reflexivity. }
  split; [symmetry; apply firstn_skipn|split].
  - exact (Forall2_loop_ok_sim _ _ _ F H1).
  - rewrite H2. exact M.
Qed.

(* ---------- helpers of the VM that must not reach their panic arms ---------- *)

Lemma pop_n_app : forall n vs st acc, length vs = n -> pop_n n (vs ++ st) acc = Some (rev vs ++ acc, st).
Proof.
  induction n as [|n IH]; intros vs st acc L.
  - destruct vs; [reflexivity|discriminate].
  - destruct vs as [|v vs]; [discriminate|]. cbn in L. injection L as L. cbn [pop_n app].
    rewrite (IH vs st (v :: acc) L). cbn [rev]. rewrite <- app_assoc. reflexivity.
Qed.

Definition ok_err (e : errc) : Prop := match e with ErrPanic | ErrOther => False | _ => True end.

Lemma build_map_pairs_ok wd : forall k l e, length l = 2 * k -> build_map_pairs wd l = RErr e -> ok_err e.
Proof.
  induction k as [|k IH]; intros l e L H.
  - destruct l; [discriminate|discriminate].
  - destruct l as [|a [|b l]]; try (cbn in L; lia). cbn [build_map_pairs] in H.
    destruct (w_as_key wd a); [|injection H as <-; exact I].
    destruct (build_map_pairs wd l) as [r|e'] eqn:E; cbn [res_bind] in H; [discriminate|].
    injection H as <-. apply (IH l e'); [cbn in L; lia|exact E].
Qed.

Lemma build_map_spreads_ok wd : forall fl vs st acc, length vs = need_map fl ->
  match build_map_spreads wd fl (vs ++ st) acc with
  | ROk (_, rest) => rest = st
  | RErr e => ok_err e
  end.
Proof.
  induction fl as [|b fl IH]; intros vs st acc L.
  - destruct vs; [reflexivity|discriminate].
  - destruct b; cbn [need_map fold_right] in L; cbn [build_map_spreads].
    + destruct vs as [|v vs]; [discriminate|]. cbn [app]. injection L as L.
      destruct v; try exact I. apply IH. exact L.
    + destruct vs as [|v [|k vs]]; try discriminate. cbn [app]. cbn in L. injection L as L.
      destruct (w_as_key wd k); [|exact I]. apply IH. exact L.
Qed.

Lemma build_list_spreads_ok : forall fl vs st acc, length vs = need_list fl ->
  match build_list_spreads fl (vs ++ st) acc with
  | ROk (_, rest) => rest = st
  | RErr e => ok_err e
  end.
Proof.
  induction fl as [|b fl IH]; intros vs st acc L.
  - destruct vs; [reflexivity|discriminate].
  - destruct vs as [|v vs]; [discriminate|]. cbn in L. injection L as L.
    destruct b; cbn [build_list_spreads app].
    + destruct v; try exact I. apply IH. exact L.
    + apply IH. exact L.
Qed.

Lemma need_map_rev fl : need_map (rev fl) = need_map fl.
Proof.
  assert (H : forall a b, need_map (a ++ b) = need_map a + need_map b).
  { induction a as [|x a IH]; intros b; [reflexivity|].
    change (need_map ((x :: a) ++ b)) with ((if x then 1 else 2) + need_map (a ++ b)).
    change (need_map (x :: a)) with ((if x then 1 else 2) + need_map a). rewrite IH. lia. }
  induction fl as [|x fl IH]; [reflexivity|]. cbn [rev]. rewrite H, IH.
  change (need_map (x :: fl)) with ((if x then 1 else 2) + need_map fl).
  change (need_map [x]) with ((if x then 1 else 2) + 0). lia.
Qed.

Lemma subscript_ok wd opt val sub e : subscript wd opt val sub = RErr e -> ok_err e.
Proof.
  unfold subscript. destruct (opt && (is_undefined val || is_none val)); [discriminate|].
  destruct (is_undefined val); [intros H; injection H as <-; exact I|].
  destruct (is_undefined sub); [intros H; injection H as <-; exact I|].
  destruct (get_item wd val sub) as [v|e'] eqn:E; [discriminate|].
  destruct e'; intros H; injection H as <-; try exact I.
  unfold get_item in E. destruct val; try (exact (get_item_seq_no_panic _ _ E)).
  destruct (w_as_key wd sub); discriminate.
Qed.

Lemma slice_operand_err v e : slice_operand v = RErr e -> e = ErrRender.
Proof.
  unfold slice_operand. destruct (is_none v); [discriminate|]. destruct (is_undefined v); [congruence|].
  destruct (as_i128 v); [discriminate|]. destruct (is_u128 v); [discriminate|congruence].
Qed.

Lemma vm_slice_ok opt v a b c e : vm_slice opt v a b c = RErr e -> ok_err e.
Proof.
  intros H. destruct e; try exact I; [|exact (vm_slice_no_panic _ _ _ _ _ H)].
  revert H. unfold vm_slice. destruct (opt && (is_undefined v || is_none v)); [discriminate|].
  destruct (is_undefined v); [discriminate|].
  destruct (slice_operand a) as [x|e1] eqn:E1; cbn [res_bind]; [|rewrite (slice_operand_err _ _ E1); discriminate].
  destruct (slice_operand b) as [y|e2] eqn:E2; cbn [res_bind]; [|rewrite (slice_operand_err _ _ E2); discriminate].
  destruct (slice_operand c) as [z|e3] eqn:E3; cbn [res_bind]; [|rewrite (slice_operand_err _ _ E3); discriminate].
  destruct (value_slice v x y z) as [r|e]; [discriminate|]. destruct e; discriminate.
Qed.

Lemma path_walk_ok wd : forall attrs cur e, path_walk_v wd cur attrs = RErr e -> ok_err e.
Proof.
  induction attrs as [|a r IH]; intros cur e H; [discriminate|]. cbn [path_walk_v] in H.
  destruct (is_undefined cur); [injection H as <-; exact I|].
  destruct (w_get_attr wd cur a) as [nx|]; [exact (IH _ _ H)|].
  destruct r; [discriminate|injection H as <-; exact I].
Qed.

Lemma load_path_ok wd s p e : p <> [] -> load_path_v wd s p = RErr e -> ok_err e.
Proof.
  intros Hp. destruct p as [|n attrs]; [congruence|]. cbn [load_path_v].
  destruct attrs as [|a r]; [discriminate|].
  destruct (is_undefined (get_value s n)); [intros H; injection H as <-; exact I|].
  apply path_walk_ok.
Qed.

Lemma write_walk_ok wd : forall attrs cur e, write_walk_v wd cur attrs = RErr e -> ok_err e.
Proof.
  induction attrs as [|a r IH]; intros cur e H; [discriminate|]. cbn [write_walk_v] in H.
  destruct (w_get_attr wd cur a) as [nx|]; [exact (IH _ _ H)|injection H as <-; exact I].
Qed.

Lemma write_path_ok wd s p e : p <> [] -> write_path_v wd s p = RErr e -> ok_err e.
Proof.
  intros Hp. destruct p as [|n attrs]; [congruence|]. cbn [write_path_v].
  match goal with |- context[is_undefined ?r] => destruct (is_undefined r) end; [intros H; injection H as <-; exact I|].
  match goal with |- context[write_walk_v wd ?r attrs] => destruct (write_walk_v wd r attrs) as [v|e'] eqn:E end.
  - destruct (is_undefined v); [intros H; injection H as <-; exact I|discriminate].
  - intros H. injection H as <-. exact (write_walk_ok _ _ _ _ E).
Qed.

Lemma is_map_kwargs v : is_map v = true -> exists m, v = VMap m.
Proof. destruct v; try discriminate. eauto. Qed.

Lemma is_array_inv v : is_array v = true -> exists l, v = VArr l.
Proof. destruct v; try discriminate. eauto. Qed.

(* ---------- the validated world ---------- *)

(* the registries really hold what the registry record lists: a listed name is never
   "not registered" for the model's lookup functions *)
Definition world_respects (wd : world) (reg : registry) : Prop :=
  (forall n, mem_str n (r_filters reg) = true -> forall v k sc, w_filter wd n v k sc <> None) /\
  (forall n, mem_str n (r_tests reg) = true -> forall v k, w_test wd n v k <> None) /\
  (forall n, mem_str n (r_functions reg) = true -> forall k sc, w_function wd n k sc <> None).

Lemma assoc_get_in {A} (l : list (str * A)) n x : assoc_get l n = Some x -> exists k, In (k, x) l.
Proof.
  induction l as [|[k v] t IH]; [discriminate|]. cbn [assoc_get].
  destruct (str_eqb k n).
  - intros H. injection H as <-. exists k. left. reflexivity.
  - intros H. destruct (IH H) as (k' & Hk). exists k'. right. exact Hk.
Qed.

Lemma nth_error_all_from tbl : forall c ip0 ip i,
  all_from tbl ip0 c = true -> nth_error c ip = Some i -> instr_ok tbl (ip0 + ip) i = true.
Proof.
  induction c as [|x c IH]; intros ip0 ip i H N; [destruct ip; discriminate|].
  cbn [all_from] in H. apply andb_prop in H. destruct H as [H1 H2].
  destruct ip as [|ip]; cbn in N.
  - injection N as <-. rewrite Nat.add_0_r. exact H1.
  - replace (ip0 + S ip) with (S ip0 + ip) by lia. exact (IH _ _ _ H2 N).
Qed.

Lemma nth_error_refs reg wd : forall c ip i r,
  refs_resolved reg wd c = true -> nth_error c ip = Some i -> ref_of i = Some r ->
  ref_resolved reg wd r = true.
Proof.
  unfold refs_resolved. induction c as [|x c IH]; intros ip i r H N R; [destruct ip; discriminate|].
  destruct ip as [|ip]; cbn in N.
  - injection N as ->. cbn [refs_of_chunk] in H. rewrite R in H. cbn in H. apply andb_prop in H. exact (proj1 H).
  - apply (IH ip i r); [|exact N|exact R]. cbn [refs_of_chunk] in H.
    destruct (ref_of x); [cbn in H; apply andb_prop in H; exact (proj2 H)|exact H].
Qed.


Lemma str_eqb_rfl (s : str) : str_eqb s s = true.
Proof. induction s as [|c s IH]; [reflexivity|]. cbn. rewrite N.eqb_refl. exact IH. Qed.

Lemma store_local_spec s n v :
  stack (store_local s n v) = stack s /\ map lf_end_ip (loops (store_local s n v)) = map lf_end_ip (loops s) /\
  caps (store_local s n v) = caps s /\ blocks (store_local s n v) = blocks s /\
  cur_block (store_local s n v) = cur_block s.
Proof.
  unfold store_local. destruct (loops s) as [|fr t] eqn:E; cbn; rewrite ?E; repeat split; reflexivity.
Qed.

(* the lookup of the current block's entry in State.blocks (interpreter.rs 455-462) *)
Definition find_block (cb : str) :=
  fix find (bs pre : list (str * list (list instr) * nat)) {struct bs} :=
    match bs with
    | [] => None
    | (bn, lin, lvl) :: t =>
        if str_eqb bn cb then Some (rev pre, (bn, lin, lvl), t) else find t ((bn, lin, lvl) :: pre)
    end.

Lemma find_block_spec cb : forall bs pre,
  match find_block cb bs pre with
  | Some (p, e, q) => rev pre ++ bs = p ++ e :: q
  | None => forall e, In e bs -> str_eqb (fst (fst e)) cb = false
  end.
Proof.
  induction bs as [|[[bn lin] lvl] t IH]; intros pre; cbn [find_block].
  - intros e [].
  - destruct (str_eqb bn cb) eqn:E; [reflexivity|].
    specialize (IH ((bn, lin, lvl) :: pre)). destruct (find_block cb t ((bn, lin, lvl) :: pre)) as [[[p e] q]|].
    + rewrite <- IH. cbn [rev]. rewrite <- app_assoc. reflexivity.
    + intros e [<-|He]; [exact E|exact (IH e He)].
Qed.

Ltac crack A := repeat (match type of A with
  | match (match ?x with _ => _ end) with _ => _ end = Some _ => destruct x
  | match ?x with _ => _ end = Some _ => destruct x
  end; cbn in A; try discriminate A).

Ltac popS HS Hstk v Hty :=
  let st' := fresh "st" in let Hst := fresh "Hst" in let HS' := fresh "HS" in
  destruct (SI_pop _ _ _ _ HS) as (v & st' & Hst & Hty & HS'); clear HS; rename HS' into HS;
  match type of Hst with
  | stack _ = _ => rename Hst into Hstk
  | ?x = _ => subst x
  end.

Ltac popL HL Hlps fr Hfr :=
  let ls' := fresh "ls" in let Hls := fresh "Hls" in let HL' := fresh "HL" in
  destruct (LI_pop _ _ _ _ HL) as (fr & ls' & Hls & Hfr & HL'); clear HL; rename HL' into HL;
  match type of Hls with
  | loops _ = _ => rename Hls into Hlps
  | ?x = _ => subst x
  end.

Ltac st_cbn := cbn [a_stack a_loops a_caps stack loops caps blocks cur_block push upd_stack upd_loops
                    upd_caps upd_blocks upd_setvars store_global upd_block_buffer].

Lemma str_eqb_eq : forall a b : str, str_eqb a b = true -> a = b.
Proof.
  unfold str_eqb. induction a as [|x a IH]; intros [|y b]; cbn; try discriminate; [reflexivity|].
  intros H. apply andb_prop in H. destruct H as [H1 H2]. apply N.eqb_eq in H1. subst. f_equal. exact (IH _ H2).
Qed.

(* a chunk whose references resolve holds no call of a name the registries lack *)
Lemma refs_collected (wd : world) (reg : registry) : world_respects wd reg ->
  forall c, refs_resolved reg wd c = true ->
  forall ip i, nth_error c ip = Some i ->
  match i with
  | ApplyFilter n => forall v k sc, w_filter wd n v k sc <> None
  | RunTest n => forall v k, w_test wd n v k <> None
  | CallFunction n => n = s_super \/ forall k sc, w_function wd n k sc <> None
  | RenderInlineComponent n | RenderBodyComponent n => assoc_get (w_components wd) n <> None
  | Include n => assoc_get (w_templates wd) n <> None
  | _ => True
  end.
Proof.
  intros (HF & HT & HFn) c HR ip i N.
  pose proof (fun r => nth_error_refs reg wd c ip i r HR N) as REF.
  destruct i; try exact I; specialize (REF _ eq_refl); cbn [ref_resolved] in REF.
  - unfold has_key in REF. destruct (assoc_get (w_templates wd) n); [discriminate|discriminate REF].
  - apply orb_prop in REF. destruct REF as [REF|REF].
    + left. exact (str_eqb_eq _ _ REF).
    + right. exact (HFn n REF).
  - unfold has_key in REF. destruct (assoc_get (w_components wd) n); [discriminate|discriminate REF].
  - unfold has_key in REF. destruct (assoc_get (w_components wd) n); [discriminate|discriminate REF].
  - exact (HF n REF).
  - exact (HT n REF).
Qed.

Section Sound.
  Variable W : Type.
  Variable wr : W -> str -> option W.
  Variable wd : world.
  Variable reg : registry.
  Hypothesis Hreg : world_respects wd reg.
  Hypothesis Hwd : world_checked reg wd = true.

  Definition good (c : list instr) : Prop := chunk_good reg wd c = true.
  Definition tpl_good (t : template) : Prop := template_good reg wd t = true.

  Definition block_name (e : str * list (list instr) * nat) : str := fst (fst e).
  Definition block_lin (e : str * list (list instr) * nat) : list (list instr) := snd (fst e).

  (* every chunk a super() could reach through the State is validated, and the current block
     has its entry *)
  Definition blocks_good (s : state) : Prop :=
    Forall (fun e => Forall good (block_lin e)) (blocks s) /\
    match cur_block s with Some cb => In cb (map block_name (blocks s)) | None => True end.

  Definition same_kind (o o' : sink W) : Prop :=
    match o, o' with SinkTop _, SinkTop _ | SinkBuf _, SinkBuf _ => True | _, _ => False end.

  (* what a run may end in: never the panic class, never TemplateNotFound; on normal
     termination the three stacks are as on entry and the block bookkeeping is restored *)
  Definition Post (bv : list value) (bl : list nat) (bc : nat) (s : state) (o : sink W) (r : rres W) : Prop :=
    match r with
    | RFail e => ok_err e
    | ROutOfFuel => True
    | RDone s' o' =>
        Inv bv bl bc a_empty s' /\ blocks s' = blocks s /\ cur_block s' = cur_block s /\ same_kind o o'
    end.

  Definition table_ok (c : list instr) (tbl : table) : Prop :=
    length tbl = S (length c) /\
    (forall ip i, nth_error c ip = Some i -> instr_ok tbl ip i = true) /\
    (forall a, nth_error tbl (length c) = Some (Some a) -> astate_sub a a_empty = true).

  Lemma check_table_ok c a0 tbl : check_table c a0 tbl = true ->
    table_ok c tbl /\ exists a, nth_error tbl 0 = Some (Some a) /\ astate_sub a0 a = true.
  Proof.
    unfold check_table. intros H.
    apply andb_prop in H. destruct H as [H H4]. apply andb_prop in H. destruct H as [H H3].
    apply andb_prop in H. destruct H as [H1 H2]. apply Nat.eqb_eq in H1.
    split; [split; [exact H1|split]|].
    - intros ip i N. exact (nth_error_all_from tbl c 0 ip i H3 N).
    - intros a E. rewrite E in H4. exact H4.
    - destruct (nth_error tbl 0) as [[a|]|]; try discriminate. exists a. auto.
  Qed.

  Lemma same_kind_refl o : same_kind o o.
  Proof. destruct o; exact I. Qed.

  Lemma same_kind_trans o1 o2 o3 : same_kind o1 o2 -> same_kind o2 o3 -> same_kind o1 o3.
  Proof. destruct o1, o2, o3; cbn; auto. Qed.

  Lemma post_trans bv bl bc s o s1 o1 r :
    Post bv bl bc s1 o1 r -> blocks s1 = blocks s -> cur_block s1 = cur_block s -> same_kind o o1 ->
    Post bv bl bc s o r.
  Proof.
    destruct r as [s' o'|e|]; cbn; auto. intros (HI & HB & HC & HK) E1 E2 K.
    split; [exact HI|split; [congruence|split; [congruence|exact (same_kind_trans _ _ _ K HK)]]].
  Qed.

  Lemma blocks_good_eq s s1 : blocks s1 = blocks s -> cur_block s1 = cur_block s -> blocks_good s -> blocks_good s1.
  Proof. unfold blocks_good. intros -> ->. auto. Qed.

  Lemma sink_write_kind o t o' : sink_write W wr o t = Some o' -> same_kind o o'.
  Proof.
    destruct o; cbn.
    - destruct (wr w t); [|discriminate]. intros H. injection H as <-. exact I.
    - intros H. injection H as <-. exact I.
  Qed.

  (* emit touches the innermost capture buffer or the sink, nothing else *)
  Lemma emit_spec s o t s1 o1 : emit W wr s o t = Some (s1, o1) ->
    stack s1 = stack s /\ loops s1 = loops s /\ length (caps s1) = length (caps s) /\
    blocks s1 = blocks s /\ cur_block s1 = cur_block s /\ same_kind o o1.
  Proof.
    unfold emit. destruct (caps s) as [|c ct] eqn:E.
    - destruct (sink_write W wr o t) as [o'|] eqn:Es; [|discriminate]. intros H. injection H as <- <-.
      rewrite E. repeat split; auto. exact (sink_write_kind _ _ _ Es).
    - intros H. injection H as <- <-. cbn. repeat split; auto. apply same_kind_refl.
  Qed.

  Lemma write_value_spec ae s o v s1 o1 : write_value W wr wd ae s o v = Some (s1, o1) ->
    stack s1 = stack s /\ loops s1 = loops s /\ length (caps s1) = length (caps s) /\
    blocks s1 = blocks s /\ cur_block s1 = cur_block s /\ same_kind o o1.
  Proof. unfold write_value. destruct (negb ae || value_is_safe v); apply emit_spec. Qed.


  Lemma Inv_sim bv bl bc a s s2 :
    stack s2 = stack s -> map lf_end_ip (loops s2) = map lf_end_ip (loops s) ->
    length (caps s2) = length (caps s) -> Inv bv bl bc a s -> Inv bv bl bc a s2.
  Proof.
    intros E1 E2 E3 (HS & HL & HC). split; [rewrite E1; exact HS|split; [exact (LI_sim _ _ _ _ HL E2)|]].
    unfold CI in *. rewrite E3. exact HC.
  Qed.

  (* after a nested run on the same State that ended balanced, the caller's shape still holds *)
  Lemma Inv_after bv bl bc a s s2 :
    Inv bv bl bc a s -> Inv (stack s) (map lf_end_ip (loops s)) (length (caps s)) a_empty s2 ->
    Inv bv bl bc a s2.
  Proof.
    intros H (HS & HL & HC). apply (Inv_sim _ _ _ _ s s2); [exact (SI_nil_inv _ _ HS)|exact (LI_nil_inv _ _ HL)|exact HC|exact H].
  Qed.

  Lemma world_tpl n t : assoc_get (w_templates wd) n = Some t -> tpl_good t.
  Proof.
    intros H. destruct (assoc_get_in _ _ _ H) as (k & Hk). unfold world_checked in Hwd.
    apply andb_prop in Hwd. destruct Hwd as [H1 _]. rewrite forallb_forall in H1. exact (H1 _ Hk).
  Qed.

  Lemma world_comp n d c : assoc_get (w_components wd) n = Some (d, c) -> good c.
  Proof.
    intros H. destruct (assoc_get_in _ _ _ H) as (k & Hk). unfold world_checked in Hwd.
    apply andb_prop in Hwd. destruct Hwd as [_ H2]. rewrite forallb_forall in H2. exact (H2 _ Hk).
  Qed.

  Lemma tpl_parts t : tpl_good t ->
    good (t_chunk t) /\ good (t_root_chunk t) /\
    forall b lin, assoc_get (t_lineage t) b = Some lin -> Forall good lin.
  Proof.
    unfold tpl_good, template_good. intros H. apply andb_prop in H. destruct H as [H H3].
    apply andb_prop in H. destruct H as [H1 H2]. split; [exact H1|split; [exact H2|]].
    intros b lin Hb. destruct (assoc_get_in _ _ _ Hb) as (k & Hk). rewrite forallb_forall in H3.
    specialize (H3 _ Hk). cbn in H3. apply Forall_forall. rewrite forallb_forall in H3. exact H3.
  Qed.

  Lemma lf_store_local_end fr n : lf_end_ip (lf_store_local fr n) = lf_end_ip fr.
  Proof. unfold lf_store_local. destruct (lf_key_name fr), (lf_value_name fr); reflexivity. Qed.

  Section Step.
    Variable f : nat.
    (* induction hypothesis *)
    Hypothesis IH : forall tpl ae depth ch tbl ip a s o bv bl bc,
      tpl_good tpl -> table_ok ch tbl -> refs_resolved reg wd ch = true ->
      nth_error tbl ip = Some (Some a) -> Inv bv bl bc a s -> blocks_good s ->
      Post bv bl bc s o (run W wr wd f tpl ae depth ch ip s o).

    Lemma go tpl ae depth ch tbl edges t a' s1 o1 bv bl bc :
      tpl_good tpl -> table_ok ch tbl -> refs_resolved reg wd ch = true ->
      forallb (edge_ok tbl) edges = true -> In (t, a') edges ->
      Inv bv bl bc a' s1 -> blocks_good s1 ->
      Post bv bl bc s1 o1 (run W wr wd f tpl ae depth ch t s1 o1).
    Proof.
      intros HT HK HR HE HI Hinv HB.
      rewrite forallb_forall in HE. specialize (HE _ HI). unfold edge_ok in HE. cbn [fst snd] in HE.
      destruct (nth_error tbl t) as [[b|]|] eqn:E; try discriminate.
      exact (IH tpl ae depth ch tbl t b s1 o1 bv bl bc HT HK HR E (Inv_sub _ _ _ _ _ _ HE Hinv) HB).
    Qed.

    (* running a validated chunk from its start on any state: the shape used by every nested
       run (include, component, block, super) *)
    Lemma run_chunk tpl ae depth c s o :
      tpl_good tpl -> good c -> blocks_good s ->
      Post (stack s) (map lf_end_ip (loops s)) (length (caps s)) s o (run W wr wd f tpl ae depth c 0 s o).
    Proof.
      intros HT HG HB. unfold good, chunk_good in HG. apply andb_prop in HG. destruct HG as [HC HR].
      unfold check_chunk, check_chunk_from in HC.
      destruct (check_table_ok _ _ _ HC) as (HK & a & E & Hs).
      apply (IH tpl ae depth c _ 0 a s o _ _ _ HT HK HR E); [|exact HB].
      apply (Inv_sub _ _ _ a_empty a s Hs). split; [apply SI_nil|split; [apply LI_base|reflexivity]].
    Qed.

    Ltac branches := repeat match goal with
      | |- Post _ _ _ _ _ (RFail ErrRender) => exact I
      | |- Post _ _ _ _ _ (RFail ErrMsg) => exact I
      | |- Post _ _ _ _ _ (RFail ErrIo) => exact I
      | |- Post _ _ _ _ _ ROutOfFuel => exact I
      | |- Post _ _ _ _ _ (if ?c then _ else _) => destruct c
      | |- Post _ _ _ _ _ (match ?x with _ => _ end) => destruct x
      end.

    Lemma step tpl ae depth ch tbl ip a s o bv bl bc :
      tpl_good tpl -> table_ok ch tbl -> refs_resolved reg wd ch = true ->
      nth_error tbl ip = Some (Some a) -> Inv bv bl bc a s -> blocks_good s ->
      Post bv bl bc s o (run W wr wd (S f) tpl ae depth ch ip s o).
    Proof.
      intros HT HK HR E Hinv HB.
      cbn [run]. unfold fail.
      destruct (nth_error ch ip) as [i|] eqn:N.
      2: { assert (ip = length ch) as ->.
           { destruct HK as (HL & _). apply nth_error_None in N.
             assert (ip < length tbl) by (apply nth_error_Some; congruence). lia. }
           destruct HK as (_ & _ & HX). specialize (HX a E).
           split; [exact (Inv_sub _ _ _ _ _ _ HX Hinv)|split; [reflexivity|split; [reflexivity|apply same_kind_refl]]]. }
      pose proof (proj1 (proj2 HK) ip i N) as HI. unfold instr_ok in HI. rewrite E in HI.
      destruct (astep i ip a) as [edges|] eqn:A; [|discriminate].
      pose proof (fun t a' s1 o1 => go tpl ae depth ch tbl edges t a' s1 o1 bv bl bc HT HK HR HI) as GO.
      pose proof (fun r => nth_error_refs reg wd ch ip i r HR N) as REF.
      destruct a as [st lo ca]. destruct Hinv as (HS & HL & HC). cbn [a_stack a_loops a_caps] in HS, HL, HC.
      clear E HI.
      Ltac fin GO inT :=
        eapply post_trans;
        [eapply GO; [inT | split; [|split]; st_cbn; try assumption | try assumption ]
        | try reflexivity | try reflexivity | try apply same_kind_refl].
      Ltac simple_op GO :=
        unfold pop1, pop2; try match goal with H : stack _ = _ |- _ => rewrite H end; cbv beta iota; branches;
        fin GO ltac:(left; reflexivity); (apply SI_push; [assumption|exact I]).
      destruct i; cbn in A.
      - (* LoadConst *) injection A as <-. fin GO ltac:(left; reflexivity).
        apply SI_push; [assumption|]. destruct v; cbn; auto.
      - (* LoadName *) injection A as <-. simple_op GO.
      - (* LoadAttr *) crack A. injection A as <-. popS HS Hstk v Hv. simple_op GO.
      - (* LoadAttrOpt *) crack A. injection A as <-. popS HS Hstk v Hv. simple_op GO.
      - (* BinarySubscript *) crack A. injection A as <-. popS HS Hstk v Hv. popS HS Hstk v0 Hv0.
        unfold pop2. rewrite Hstk. cbv beta iota.
        destruct (subscript wd false v0 v) as [r|e] eqn:Es; [|exact (subscript_ok _ _ _ _ _ Es)].
        fin GO ltac:(left; reflexivity). apply SI_push; [assumption|exact I].
      - (* BinarySubscriptOpt *) crack A. injection A as <-. popS HS Hstk v Hv. popS HS Hstk v0 Hv0.
        unfold pop2. rewrite Hstk. cbv beta iota.
        destruct (subscript wd true v0 v) as [r|e] eqn:Es; [|exact (subscript_ok _ _ _ _ _ Es)].
        fin GO ltac:(left; reflexivity). apply SI_push; [assumption|exact I].
      - (* Slice *) crack A. injection A as <-. popS HS Hstk v Hv. popS HS Hstk v0 Hv0. popS HS Hstk v1 Hv1. popS HS Hstk v2 Hv2.
        rewrite Hstk. cbv beta iota.
        destruct (vm_slice false v2 v1 v0 v) as [r|e] eqn:Es; [|exact (vm_slice_ok _ _ _ _ _ _ Es)].
        fin GO ltac:(left; reflexivity). apply SI_push; [assumption|exact I].
      - (* SliceOpt *) crack A. injection A as <-. popS HS Hstk v Hv. popS HS Hstk v0 Hv0. popS HS Hstk v1 Hv1. popS HS Hstk v2 Hv2.
        rewrite Hstk. cbv beta iota.
        destruct (vm_slice true v2 v1 v0 v) as [r|e] eqn:Es; [|exact (vm_slice_ok _ _ _ _ _ _ Es)].
        fin GO ltac:(left; reflexivity). apply SI_push; [assumption|exact I].
      - (* WriteText *) injection A as <-.
        destruct (emit W wr s o t) as [[s1 o1]|] eqn:Ee; [|exact I].
        destruct (emit_spec _ _ _ _ _ Ee) as (E1 & E2 & E3 & E4 & E5 & E6).
        eapply post_trans; [eapply GO; [left; reflexivity|split; [|split]; st_cbn|]|exact E4|exact E5|exact E6].
        + rewrite E1. exact HS.
        + rewrite E2. exact HL.
        + unfold CI in *. rewrite E3. exact HC.
        + exact (blocks_good_eq _ _ E4 E5 HB).
      - (* WriteTop *) crack A. injection A as <-. popS HS Hstk v Hv.
        unfold pop1. rewrite Hstk. cbv beta iota. destruct (is_undefined v); [exact I|].
        match goal with |- context[write_value W wr wd ?b ?s1 o v] =>
          destruct (write_value W wr wd b s1 o v) as [[s2 o2]|] eqn:Ew; [|exact I] end.
        destruct (write_value_spec _ _ _ _ _ _ Ew) as (E1 & E2 & E3 & E4 & E5 & E6).
        eapply post_trans; [eapply GO; [left; reflexivity| |]|exact E4|exact E5|exact E6].
        + eapply Inv_sim; [exact E1|rewrite E2; reflexivity|exact E3|]. split; [exact HS|split; [exact HL|exact HC]].
        + exact (blocks_good_eq _ _ E4 E5 HB).
      - (* SetI *) crack A. injection A as <-. popS HS Hstk v Hv.
        unfold pop1. rewrite Hstk. cbv beta iota.
        destruct (store_local_spec (upd_stack s st0) n v) as (E1 & E2 & E3 & E4 & E5).
        eapply post_trans; [eapply GO; [left; reflexivity| |]|exact E4|exact E5|apply same_kind_refl].
        + eapply Inv_sim; [exact E1|exact E2|rewrite E3; reflexivity|]. split; [exact HS|split; [exact HL|exact HC]].
        + exact (blocks_good_eq _ _ E4 E5 HB).
      - (* SetGlobal *) crack A. injection A as <-. popS HS Hstk v Hv.
        unfold pop1. rewrite Hstk. cbv beta iota. fin GO ltac:(left; reflexivity).
      - (* Include *) injection A as <-.
        pose proof (REF _ eq_refl) as Hr. cbn in Hr. unfold has_key in Hr.
        destruct (assoc_get (w_templates wd) n) as [t2|] eqn:Et; [|discriminate].
        pose proof (world_tpl _ _ Et) as HT2. destruct (tpl_parts _ HT2) as (_ & HG2 & _).
        destruct (caps s) as [|c ct] eqn:Ec.
        + match goal with |- context[run W wr wd f t2 ae depth (t_root_chunk t2) 0 ?i ?oo] =>
            assert (Hbg : blocks_good i) by (split; [constructor|exact I]);
            pose proof (run_chunk t2 ae depth (t_root_chunk t2) i oo HT2 HG2 Hbg) as P;
            destruct (run W wr wd f t2 ae depth (t_root_chunk t2) 0 i oo) as [s' o1|e|] end;
          [|exact P|exact I].
          destruct P as (_ & _ & _ & K).
          eapply post_trans; [eapply GO; [left; reflexivity|split; [exact HS|split; [exact HL|cbn [a_caps]; rewrite Ec; exact HC]]|exact HB]
                             |reflexivity|reflexivity|exact K].
        + match goal with |- context[run W wr wd f t2 ae depth (t_root_chunk t2) 0 ?i ?oo] =>
            assert (Hbg : blocks_good i) by (split; [constructor|exact I]);
            pose proof (run_chunk t2 ae depth (t_root_chunk t2) i oo HT2 HG2 Hbg) as P;
            destruct (run W wr wd f t2 ae depth (t_root_chunk t2) 0 i oo) as [s' o1|e|] end;
          [|exact P|exact I].
          destruct P as (_ & _ & _ & K). destruct o1 as [w1|c1]; [destruct K|].
          fin GO ltac:(left; reflexivity).
      - (* BuildMap *) destruct (drop (k + (k + 0)) st) as [r|] eqn:D; [|discriminate]. injection A as <-.
        destruct (SI_drop _ _ _ _ _ HS D) as (vs & st' & Hstk & Lv & HS').
        rewrite Hstk. change (2 * k) with (k + (k + 0)). rewrite (pop_n_app _ vs st' [] Lv).
        destruct (build_map_pairs wd (rev vs ++ [])) as [pairs|e] eqn:Eb.
        + fin GO ltac:(left; reflexivity). apply SI_push; [assumption|reflexivity].
        + refine (build_map_pairs_ok wd k _ e _ Eb). rewrite app_nil_r, rev_length. lia.
      - (* BuildList *) destruct (drop k st) as [r|] eqn:D; [|discriminate]. injection A as <-.
        destruct (SI_drop _ _ _ _ _ HS D) as (vs & st' & Hstk & Lv & HS').
        rewrite Hstk. rewrite (pop_n_app _ vs st' [] Lv).
        fin GO ltac:(left; reflexivity). apply SI_push; [assumption|reflexivity].
      - (* BuildMapWithSpreads *)
        match type of A with match drop ?k st with _ => _ end = _ => destruct (drop k st) as [r|] eqn:D; [|discriminate] end.
        injection A as <-. destruct (SI_drop _ _ _ _ _ HS D) as (vs & st' & Hstk & Lv & HS').
        assert (Lv' : length vs = need_map (rev f0)) by (rewrite need_map_rev; exact Lv).
        pose proof (build_map_spreads_ok wd (rev f0) vs st' [] Lv') as P. rewrite Hstk.
        destruct (build_map_spreads wd (rev f0) (vs ++ st') []) as [[m rest]|e]; [subst rest|exact P].
        fin GO ltac:(left; reflexivity). apply SI_push; [assumption|reflexivity].
      - (* BuildListWithSpreads *)
        match type of A with match drop ?k st with _ => _ end = _ => destruct (drop k st) as [r|] eqn:D; [|discriminate] end.
        injection A as <-. destruct (SI_drop _ _ _ _ _ HS D) as (vs & st' & Hstk & Lv & HS').
        assert (Lv' : length vs = need_list (rev f0)) by (unfold need_list in *; rewrite rev_length; exact Lv).
        pose proof (build_list_spreads_ok (rev f0) vs st' [] Lv') as P. rewrite Hstk.
        destruct (build_list_spreads (rev f0) (vs ++ st') []) as [[m rest]|e]; [subst rest|exact P].
        fin GO ltac:(left; reflexivity). apply SI_push; [assumption|reflexivity].
      - (* CallFunction *) crack A. injection A as <-. popS HS Hstk kw Hkw.
        unfold pop1. rewrite Hstk. cbv beta iota.
        pose proof (REF _ eq_refl) as Hr. unfold ref_resolved in Hr.
        destruct (str_eqb n [115%N; 117%N; 112%N; 101%N; 114%N]) eqn:Esup.
        + (* super() *)
          cbn [cur_block upd_stack blocks].
          destruct (cur_block s) as [cb|] eqn:Ecb; [|exact I].
          fold (find_block cb).
          pose proof (find_block_spec cb (blocks s) []) as FS.
          destruct HB as (HB1 & HB2). rewrite Ecb in HB2.
          destruct (find_block cb (blocks s) []) as [[[pre [[bn lin] lvl]] post]|].
          2: { exfalso. apply in_map_iff in HB2. destruct HB2 as (e & He1 & He2).
               specialize (FS e He2). unfold block_name in He1. rewrite He1, str_eqb_rfl in FS. discriminate. }
          cbn [rev app] in FS.
          destruct (nth_error lin (S lvl)) as [bchunk|] eqn:En; [|exact I].
          assert (Hlin : Forall good lin).
          { rewrite FS in HB1. apply Forall_app in HB1. destruct HB1 as (_ & HB1). inversion HB1. assumption. }
          assert (Hbc : good bchunk).
          { rewrite Forall_forall in Hlin. apply Hlin. exact (nth_error_In _ _ En). }
          match goal with |- context[run W wr wd f tpl ae depth bchunk 0 ?s2 ?oo] =>
            assert (Hbg : blocks_good s2);
            [|pose proof (run_chunk tpl ae depth bchunk s2 oo HT Hbc Hbg) as P;
              destruct (run W wr wd f tpl ae depth bchunk 0 s2 oo) as [s3 o3|e|]] end;
          [| |exact P|exact I].
          { split; cbn [blocks cur_block upd_caps upd_blocks upd_stack].
            - rewrite FS in HB1. apply Forall_app in HB1. destruct HB1 as (HBa & HBb).
              apply Forall_app. split; [exact HBa|]. inversion HBb. constructor; assumption.
            - rewrite FS in HB2. rewrite map_app in *. exact HB2. }
          destruct P as (PI & PB & PC & PK). destruct o3 as [w3|text]; [destruct PK|].
          cbn [blocks cur_block upd_caps upd_blocks upd_stack caps] in PB, PC.
          eapply post_trans; [eapply GO; [left; reflexivity| |]| | |apply same_kind_refl].
          * destruct PI as (PS & PL & PCc). cbn [stack loops caps upd_caps upd_blocks upd_stack] in PS, PL, PCc.
            split; [|split]; st_cbn.
            -- rewrite (SI_nil_inv _ _ PS). apply SI_push; [exact HS|exact I].
            -- exact (LI_sim _ _ _ _ HL (LI_nil_inv _ _ PL)).
            -- exact HC.
          * split; st_cbn.
            -- rewrite <- FS. exact HB1.
            -- rewrite PC, <- FS. exact HB2.
          * st_cbn. symmetry. exact FS.
          * st_cbn. rewrite PC. symmetry. exact Ecb.
        + (* a registered function *)
          apply orb_prop in Hr. destruct Hr as [Hr|Hr]; [unfold s_super in Hr; congruence|].
          destruct (is_map_kwargs _ Hkw) as (m & ->). cbn [kwargs_of].
          destruct Hreg as (_ & _ & HF). specialize (HF n Hr m (scope_of (upd_stack s st0))).
          destruct (w_function wd n m (scope_of (upd_stack s st0))) as [[[v|e] safe]|]; [|exact I|congruence].
          fin GO ltac:(left; reflexivity). apply SI_push; [assumption|exact I].
      - (* RenderInlineComponent *) crack A. injection A as <-. popS HS Hstk kw Hkw.
        unfold pop1. rewrite Hstk. cbv beta iota.
        destruct (is_map_kwargs _ Hkw) as (m & ->). cbn [kwargs_of].
        pose proof (REF _ eq_refl) as Hr. cbn in Hr. unfold has_key in Hr.
        destruct (assoc_get (w_components wd) n) as [[def cchunk]|] eqn:Ecmp; [|discriminate].
        pose proof (world_comp _ _ _ Ecmp) as Hcc.
        destruct (w_build_ctx wd def m None) as [cctx|]; [|exact I].
        destruct (w_max_depth wd <? S depth); [exact I|].
        assert (Hbg : blocks_good (new_state cctx)) by (split; [constructor|exact I]).
        pose proof (run_chunk tpl ae (S depth) cchunk (new_state cctx) (SinkBuf []) HT Hcc Hbg) as P.
        destruct (run W wr wd f tpl ae (S depth) cchunk 0 (new_state cctx) (SinkBuf [])) as [s' o1|e|]; [|exact P|exact I].
        destruct P as (_ & _ & _ & K). destruct o1 as [w1|text]; [destruct K|].
        fin GO ltac:(left; reflexivity). apply SI_push; [assumption|exact I].
      - (* RenderBodyComponent *) crack A. injection A as <-. popS HS Hstk kw Hkw. popS HS Hstk body Hbody.
        unfold pop1. rewrite Hstk. cbv beta iota.
        destruct (is_map_kwargs _ Hkw) as (m & ->). cbn [kwargs_of].
        pose proof (REF _ eq_refl) as Hr. cbn in Hr. unfold has_key in Hr.
        destruct (assoc_get (w_components wd) n) as [[def cchunk]|] eqn:Ecmp; [|discriminate].
        pose proof (world_comp _ _ _ Ecmp) as Hcc.
        cbn [stack upd_stack]. cbv beta iota.
        destruct (w_build_ctx wd def m (Some (mark_safe body))) as [cctx|]; [|exact I].
        destruct (w_max_depth wd <? S depth); [exact I|].
        assert (Hbg : blocks_good (new_state cctx)) by (split; [constructor|exact I]).
        pose proof (run_chunk tpl ae (S depth) cchunk (new_state cctx) (SinkBuf []) HT Hcc Hbg) as P.
        destruct (run W wr wd f tpl ae (S depth) cchunk 0 (new_state cctx) (SinkBuf [])) as [s' o1|e|]; [|exact P|exact I].
        destruct P as (_ & _ & _ & K). destruct o1 as [w1|text]; [destruct K|].
        fin GO ltac:(left; reflexivity). apply SI_push; [assumption|exact I].
      - (* ApplyFilter *) crack A. injection A as <-. popS HS Hstk kw Hkw. popS HS Hstk v Hv.
        unfold pop2. rewrite Hstk. cbv beta iota.
        destruct (is_map_kwargs _ Hkw) as (m & ->). cbn [kwargs_of].
        pose proof (REF _ eq_refl) as Hr. cbn in Hr.
        destruct Hreg as (HF & _ & _). specialize (HF n Hr v m (scope_of (upd_stack s st1))).
        destruct (w_filter wd n v m (scope_of (upd_stack s st1))) as [[[r|e] safe]|]; [|exact I|congruence].
        fin GO ltac:(left; reflexivity). apply SI_push; [assumption|exact I].
      - (* RunTest *) crack A. injection A as <-. popS HS Hstk kw Hkw. popS HS Hstk v Hv.
        unfold pop2. rewrite Hstk. cbv beta iota.
        destruct (is_map_kwargs _ Hkw) as (m & ->). cbn [kwargs_of].
        pose proof (REF _ eq_refl) as Hr. cbn in Hr.
        destruct Hreg as (_ & HF & _). specialize (HF n Hr v m).
        destruct (w_test wd n v m) as [[r|e]|]; [|exact I|congruence].
        fin GO ltac:(left; reflexivity). apply SI_push; [assumption|exact I].
      - (* RenderBlock *) injection A as <-.
        destruct (assoc_get (t_lineage tpl) n) as [[|bchunk lin_rest]|] eqn:El; try exact I.
        destruct (tpl_parts _ HT) as (_ & _ & HLin). specialize (HLin _ _ El).
        assert (Hbc : good bchunk) by (inversion HLin; assumption).
        set (s1 := upd_blocks s ((n, bchunk :: lin_rest, 0) :: blocks s) (Some n)).
        assert (Hbg : blocks_good s1).
        { destruct HB as (HB1 & HB2). split; cbn [s1 blocks cur_block upd_blocks].
          - constructor; assumption.
          - left. reflexivity. }
        match goal with |- Post _ _ _ _ _ (if ?c then _ else _) => destruct c end.
        + (* the captured block: capture stack detached for the run, restored afterwards *)
          assert (Hbg' : blocks_good (upd_caps s1 [])) by exact Hbg.
          pose proof (run_chunk tpl ae depth bchunk (upd_caps s1 []) (SinkBuf []) HT Hbc Hbg') as P.
          destruct (run W wr wd f tpl ae depth bchunk 0 (upd_caps s1 []) (SinkBuf [])) as [s2 o2|e|]; [|exact P|exact I].
          destruct P as (PI & PB & PC & PK). destruct o2 as [w2|text]; [destruct PK|].
          cbn [s1 blocks upd_blocks upd_caps] in PB.
          eapply post_trans; [eapply GO; [left; reflexivity| |]| | |apply same_kind_refl].
          * destruct PI as (PS & PL & _). cbn [s1 stack loops upd_caps upd_blocks] in PS, PL.
            split; [|split]; st_cbn.
            -- rewrite (SI_nil_inv _ _ PS). exact HS.
            -- exact (LI_sim _ _ _ _ HL (LI_nil_inv _ _ PL)).
            -- exact HC.
          * apply (blocks_good_eq s); [st_cbn; rewrite PB; reflexivity|reflexivity|exact HB].
          * st_cbn. rewrite PB. reflexivity.
          * reflexivity.
        + pose proof (run_chunk tpl ae depth bchunk s1 o HT Hbc Hbg) as P.
          destruct (run W wr wd f tpl ae depth bchunk 0 s1 o) as [s2 o2|e|]; [|exact P|exact I].
          destruct P as (PI & PB & PC & PK).
          cbn [s1 blocks upd_blocks] in PB.
          eapply post_trans; [eapply GO; [left; reflexivity| |]| | |exact PK].
          * refine (Inv_sim _ _ _ _ s2 _ eq_refl eq_refl eq_refl _).
            exact (Inv_after bv bl bc (mkA st lo ca) s s2 (conj HS (conj HL HC)) PI).
          * apply (blocks_good_eq s); [st_cbn; rewrite PB; reflexivity|reflexivity|exact HB].
          * st_cbn. rewrite PB. reflexivity.
          * reflexivity.
      - (* Jump *) injection A as <-. fin GO ltac:(left; reflexivity).
      - (* PopJumpIfFalse *) crack A. injection A as <-. popS HS Hstk v Hv.
        unfold pop1. rewrite Hstk. cbv beta iota.
        destruct (is_truthy v); [fin GO ltac:(left; reflexivity)|fin GO ltac:(right; left; reflexivity)].
      - (* JumpIfFalseOrPop *) crack A. injection A as <-. popS HS Hstk v Hv.
        unfold pop1. rewrite Hstk. cbv beta iota.
        destruct (is_truthy v); [fin GO ltac:(left; reflexivity)|fin GO ltac:(right; left; reflexivity)].
        rewrite Hstk. apply SI_push; assumption.
      - (* JumpIfTrueOrPop *) crack A. injection A as <-. popS HS Hstk v Hv.
        unfold pop1. rewrite Hstk. cbv beta iota.
        destruct (is_truthy v); [fin GO ltac:(right; left; reflexivity)|fin GO ltac:(left; reflexivity)].
        rewrite Hstk. apply SI_push; assumption.
      - (* Capture *) injection A as <-. fin GO ltac:(left; reflexivity).
        unfold CI in *. cbn [length]. rewrite HC. reflexivity.
      - (* EndCapture *) crack A. injection A as <-.
        destruct (caps s) as [|c t] eqn:Ec; [unfold CI in HC; cbn in HC; lia|].
        fin GO ltac:(left; reflexivity).
        + apply SI_push; [assumption|exact I].
        + unfold CI in *. cbn [length] in HC. lia.
      - (* StartIterate *) crack A. injection A as <-. popS HS Hstk v Hv.
        unfold pop1. rewrite Hstk. cbv beta iota.
        destruct (iter_items v); [|exact I]. destruct (kv && negb (is_map v)); [exact I|].
        fin GO ltac:(left; reflexivity). apply LI_push; [assumption|exact I].
      - (* StartIterateComprehension *) crack A. injection A as <-. popS HS Hstk v Hv.
        unfold pop1. rewrite Hstk. cbv beta iota.
        destruct (iter_items v); [|exact I]. destruct (kv && negb (is_map v)); [exact I|].
        fin GO ltac:(left; reflexivity). apply LI_push; [assumption|exact I].
      - (* Iterate *) crack A. injection A as <-. popL HL Hlps fr Hfr.
        rewrite Hlps. cbv beta iota. destruct (lf_rest fr) eqn:Er.
        + fin GO ltac:(right; left; reflexivity). rewrite Hlps. apply LI_push; assumption.
        + fin GO ltac:(left; reflexivity). apply LI_push; [assumption|].
          cbn [loop_ok]. unfold lf_advance. rewrite Er. reflexivity.
      - (* StoreLocal *) crack A. injection A as <-. popL HL Hlps fr Hfr.
        rewrite Hlps. cbv beta iota. fin GO ltac:(left; reflexivity).
        apply LI_push; [assumption|]. destruct o0; cbn [loop_ok] in *; [rewrite lf_store_local_end; exact Hfr|exact I].
      - (* StoreDidNotIterate *) crack A. injection A as <-. popL HL Hlps fr Hfr.
        rewrite Hlps. cbv beta iota. fin GO ltac:(left; reflexivity).
        + apply SI_push; [assumption|exact I].
        + rewrite Hlps. apply LI_push; assumption.
      - (* Break *) crack A. injection A as <-. popL HL Hlps fr Hfr.
        rewrite Hlps. cbv beta iota. cbn [loop_ok] in Hfr. rewrite Hfr.
        fin GO ltac:(left; reflexivity). rewrite Hlps. apply LI_push; assumption.
      - (* PopLoop *) crack A. injection A as <-. popL HL Hlps fr Hfr.
        rewrite Hlps. cbn [tl]. fin GO ltac:(left; reflexivity).
      - (* AppendToList *) crack A. injection A as <-. popS HS Hstk v Hv. popS HS Hstk v0 Hv0.
        destruct (is_array_inv _ Hv0) as (l' & ->). rewrite Hstk. cbv beta iota.
        fin GO ltac:(left; reflexivity). apply SI_push; [assumption|reflexivity].
      - crack A. injection A as <-. popS HS Hstk v Hv. popS HS Hstk v0 Hv0. simple_op GO.
      - crack A. injection A as <-. popS HS Hstk v Hv. popS HS Hstk v0 Hv0. simple_op GO.
      - crack A. injection A as <-. popS HS Hstk v Hv. popS HS Hstk v0 Hv0. simple_op GO.
      - crack A. injection A as <-. popS HS Hstk v Hv. popS HS Hstk v0 Hv0. simple_op GO.
      - crack A. injection A as <-. popS HS Hstk v Hv. popS HS Hstk v0 Hv0. simple_op GO.
      - crack A. injection A as <-. popS HS Hstk v Hv. popS HS Hstk v0 Hv0. simple_op GO.
      - crack A. injection A as <-. popS HS Hstk v Hv. popS HS Hstk v0 Hv0. simple_op GO.
      - crack A. injection A as <-. popS HS Hstk v Hv. popS HS Hstk v0 Hv0. simple_op GO.
      - crack A. injection A as <-. popS HS Hstk v Hv. popS HS Hstk v0 Hv0. simple_op GO.
      - crack A. injection A as <-. popS HS Hstk v Hv. popS HS Hstk v0 Hv0. simple_op GO.
      - crack A. injection A as <-. popS HS Hstk v Hv. popS HS Hstk v0 Hv0. simple_op GO.
      - crack A. injection A as <-. popS HS Hstk v Hv. popS HS Hstk v0 Hv0. simple_op GO.
      - crack A. injection A as <-. popS HS Hstk v Hv. popS HS Hstk v0 Hv0. simple_op GO.
      - crack A. injection A as <-. popS HS Hstk v Hv. popS HS Hstk v0 Hv0. simple_op GO.
      - crack A. injection A as <-. popS HS Hstk v Hv. popS HS Hstk v0 Hv0. simple_op GO.
      - (* Not *) crack A. injection A as <-. popS HS Hstk v Hv. simple_op GO.
      - (* Negative *) crack A. injection A as <-. popS HS Hstk v Hv. simple_op GO.
      - (* LoadPath *) crack A. injection A as <-.
        match goal with |- context[load_path_v wd s ?pp] => destruct (load_path_v wd s pp) as [v|e] eqn:El end.
        + fin GO ltac:(left; reflexivity). apply SI_push; [assumption|exact I].
        + refine (load_path_ok _ _ _ _ _ El). discriminate.
      - (* WritePath *) crack A. injection A as <-.
        match goal with |- context[write_path_v wd s ?pp] => destruct (write_path_v wd s pp) as [v|e] eqn:El end.
        + match goal with |- context[write_value W wr wd ?b s o v] =>
            destruct (write_value W wr wd b s o v) as [[s2 o2]|] eqn:Ew; [|exact I] end.
          destruct (write_value_spec _ _ _ _ _ _ Ew) as (E1 & E2 & E3 & E4 & E5 & E6).
          eapply post_trans; [eapply GO; [left; reflexivity| |]|exact E4|exact E5|exact E6].
          * eapply Inv_sim; [exact E1|rewrite E2; reflexivity|exact E3|]. split; [exact HS|split; [exact HL|exact HC]].
          * exact (blocks_good_eq _ _ E4 E5 HB).
        + refine (write_path_ok _ _ _ _ _ El). discriminate.
    Qed.
  End Step.

  Theorem run_sound : forall fuel tpl ae depth ch tbl ip a s o bv bl bc,
    tpl_good tpl -> table_ok ch tbl -> refs_resolved reg wd ch = true ->
    nth_error tbl ip = Some (Some a) -> Inv bv bl bc a s -> blocks_good s ->
    Post bv bl bc s o (run W wr wd fuel tpl ae depth ch ip s o).
  Proof.
    induction fuel as [|f IH]; intros; [exact I|]. eapply (step f IH); eassumption.
  Qed.

  Definition no_panic (e : errc) : Prop := e <> ErrPanic /\ e <> ErrOther.

  Lemma ok_err_no_panic e : ok_err e -> no_panic e.
  Proof. destruct e; cbn; intros H; try destruct H; split; discriminate. Qed.

  (* a validated chunk, run from its start on any State (whatever is already on its stacks) *)
  Theorem chunk_sound : forall fuel tpl ae depth c s o,
    tpl_good tpl -> good c -> blocks_good s ->
    match run W wr wd fuel tpl ae depth c 0 s o with
    | RFail e => no_panic e
    | ROutOfFuel => True
    | RDone s' o' =>
        stack s' = stack s /\ map lf_end_ip (loops s') = map lf_end_ip (loops s) /\
        length (caps s') = length (caps s) /\ blocks s' = blocks s /\ cur_block s' = cur_block s
    end.
  Proof.
    intros fuel tpl ae depth c s o HT HG HB.
    pose proof (run_chunk fuel (run_sound fuel) tpl ae depth c s o HT HG HB) as P.
    destruct (run W wr wd fuel tpl ae depth c 0 s o) as [s' o'|e|]; [|exact (ok_err_no_panic _ P)|exact I].
    destruct P as ((PS & PL & PC) & PB & PCb & _).
    split; [exact (SI_nil_inv _ _ PS)|split; [exact (LI_nil_inv _ _ PL)|split; [exact PC|split; [exact PB|exact PCb]]]].
  Qed.

  (* any table check_table accepts will do (infer is only one way to find it) *)
  Theorem table_sound : forall fuel tpl ae depth c tbl s o,
    tpl_good tpl -> check_table c a_empty tbl = true -> refs_resolved reg wd c = true -> blocks_good s ->
    match run W wr wd fuel tpl ae depth c 0 s o with
    | RFail e => no_panic e
    | ROutOfFuel => True
    | RDone s' o' =>
        stack s' = stack s /\ map lf_end_ip (loops s') = map lf_end_ip (loops s) /\
        length (caps s') = length (caps s) /\ blocks s' = blocks s /\ cur_block s' = cur_block s
    end.
  Proof.
    intros fuel tpl ae depth c tbl s o HT HC HR HB.
    destruct (check_table_ok _ _ _ HC) as (HK & a & E & Hs).
    assert (Hinv : Inv (stack s) (map lf_end_ip (loops s)) (length (caps s)) a s).
    { apply (Inv_sub _ _ _ a_empty a s Hs). split; [apply SI_nil|split; [apply LI_base|reflexivity]]. }
    pose proof (run_sound fuel tpl ae depth c tbl 0 a s o _ _ _ HT HK HR E Hinv HB) as P.
    destruct (run W wr wd fuel tpl ae depth c 0 s o) as [s' o'|e|]; [|exact (ok_err_no_panic _ P)|exact I].
    destruct P as ((PS & PL & PC) & PB & PCb & _).
    split; [exact (SI_nil_inv _ _ PS)|split; [exact (LI_nil_inv _ _ PL)|split; [exact PC|split; [exact PB|exact PCb]]]].
  Qed.

  (* the per-chunk form with the two checks spelled out *)
  Theorem check_chunk_sound : forall fuel tpl ae depth c s o,
    tpl_good tpl -> check_chunk c = true -> refs_resolved reg wd c = true -> blocks_good s ->
    match run W wr wd fuel tpl ae depth c 0 s o with
    | RFail e => no_panic e
    | ROutOfFuel => True
    | RDone s' o' =>
        stack s' = stack s /\ map lf_end_ip (loops s') = map lf_end_ip (loops s) /\
        length (caps s') = length (caps s) /\ blocks s' = blocks s /\ cur_block s' = cur_block s
    end.
  Proof.
    intros fuel tpl ae depth c s o HT HC HR HB. apply (chunk_sound fuel tpl ae depth c s o HT); [|exact HB].
    unfold good, chunk_good. rewrite HC, HR. reflexivity.
  Qed.

  Lemma map_nil_inv {A B} (g : A -> B) l : map g l = [] -> l = [].
  Proof. destruct l; [reflexivity|discriminate]. Qed.

  (* VirtualMachine::render_to, whole template or one block *)
  Theorem render_sound : forall fuel tpl block c g w,
    tpl_good tpl ->
    match render_to W wr wd fuel tpl block c g w with
    | RFail e => no_panic e
    | ROutOfFuel => True
    | RDone s' _ => stack s' = [] /\ loops s' = [] /\ caps s' = []
    end.
  Proof.
    intros fuel tpl block c g w HT. destruct (tpl_parts _ HT) as (_ & HG & _).
    unfold render_to.
    match goal with |- context[run W wr wd fuel tpl None 0 (t_root_chunk tpl) 0 ?s0 _] => set (st0 := s0) end.
    assert (HB : blocks_good st0) by (split; [constructor|exact I]).
    destruct block as [b|].
    - pose proof (chunk_sound fuel tpl None 0 (t_root_chunk tpl) st0 (SinkBuf []) HT HG HB) as P.
      destruct (run W wr wd fuel tpl None 0 (t_root_chunk tpl) 0 st0 (SinkBuf [])) as [s1 o1|e|]; [|exact P|exact I].
      destruct P as (P1 & P2 & P3 & _).
      destruct (wr w (block_buffer s1)); [|split; discriminate].
      split; [exact P1|split; [exact (map_nil_inv _ _ P2)|]]. destruct (caps s1); [reflexivity|discriminate].
    - pose proof (chunk_sound fuel tpl None 0 (t_root_chunk tpl) st0 (SinkTop w) HT HG HB) as P.
      destruct (run W wr wd fuel tpl None 0 (t_root_chunk tpl) 0 st0 (SinkTop w)) as [s1 o1|e|]; [|exact P|exact I].
      destruct P as (P1 & P2 & P3 & _).
      split; [exact P1|split; [exact (map_nil_inv _ _ P2)|]]. destruct (caps s1); [reflexivity|discriminate].
  Qed.

  (* Tera::render_component_to: a component chunk on a fresh State *)
  Theorem component_sound : forall fuel tpl ae name def cchunk cctx w,
    tpl_good tpl -> assoc_get (w_components wd) name = Some (def, cchunk) ->
    match run W wr wd fuel tpl ae 0 cchunk 0 (new_state cctx) (SinkTop w) with
    | RFail e => no_panic e
    | ROutOfFuel => True
    | RDone s' _ => stack s' = [] /\ loops s' = [] /\ caps s' = []
    end.
  Proof.
    intros fuel tpl ae name def cchunk cctx w HT Hc.
    assert (HB : blocks_good (new_state cctx)) by (split; [constructor|exact I]).
    pose proof (chunk_sound fuel tpl ae 0 cchunk (new_state cctx) (SinkTop w) HT (world_comp _ _ _ Hc) HB) as P.
    destruct (run W wr wd fuel tpl ae 0 cchunk 0 (new_state cctx) (SinkTop w)) as [s1 o1|e|]; [|exact P|exact I].
    destruct P as (P1 & P2 & P3 & _).
    split; [exact P1|split; [exact (map_nil_inv _ _ P2)|]]. destruct (caps s1); [reflexivity|discriminate].
  Qed.
End Sound.
