(* Proofs for the base64 part of C20. *)
From TeraV Require Import Model.Value Model.Utf8 Gen.CodecTables Model.Codec Spec.Codec Proofs.CodecProofs.
From Coq Require Import Lia ZArith NArith List Bool.
Import ListNotations.
Open Scope N_scope.
Ltac Zify.zify_post_hook ::= Z.to_euclidean_division_equations.

Definition url_of (a : b64_alpha) : bool := match a with ALPHA_URL_SAFE => true | ALPHA_STANDARD => false end.

(* ---- facts about the two alphabets, by computation over the 64 indices *)
Lemma sym_unsym a i : i < 64 -> unsym (alphabet_of a) (sym (alphabet_of a) i) = Some i.
Proof.
  intros H.
  assert (E : match unsym (alphabet_of a) (sym (alphabet_of a) i) with Some x => x =? i | None => false end = true).
  { destruct a.
    - exact (sweep (fun i => match unsym alpha_std (sym alpha_std i) with Some x => x =? i | None => false end) 64
                   ltac:(vm_compute; reflexivity) i H).
    - exact (sweep (fun i => match unsym alpha_url (sym alpha_url i) with Some x => x =? i | None => false end) 64
                   ltac:(vm_compute; reflexivity) i H). }
  destruct (unsym (alphabet_of a) (sym (alphabet_of a) i)); [|discriminate].
  apply N.eqb_eq in E. now subst.
Qed.

Lemma sym_char a i : i < 64 -> is_b64_char (url_of a) (sym (alphabet_of a) i) = true.
Proof.
  intros H. destruct a.
  - exact (sweep (fun i => is_b64_char false (sym alpha_std i)) 64 ltac:(vm_compute; reflexivity) i H).
  - exact (sweep (fun i => is_b64_char true (sym alpha_url i)) 64 ltac:(vm_compute; reflexivity) i H).
Qed.

Lemma sym_not_pad a i : i < 64 -> (sym (alphabet_of a) i =? 61) = false.
Proof.
  intros H. apply negb_true_iff. destruct a.
  - exact (sweep (fun i => negb (sym alpha_std i =? 61)) 64 ltac:(vm_compute; reflexivity) i H).
  - exact (sweep (fun i => negb (sym alpha_url i =? 61)) 64 ltac:(vm_compute; reflexivity) i H).
Qed.

Lemma sym_ascii a i : i < 64 -> sym (alphabet_of a) i < 128.
Proof.
  intros H. apply N.ltb_lt. destruct a.
  - exact (sweep (fun i => sym alpha_std i <? 128) 64 ltac:(vm_compute; reflexivity) i H).
  - exact (sweep (fun i => sym alpha_url i <? 128) 64 ltac:(vm_compute; reflexivity) i H).
Qed.

(* ---- one step of the suffix loop *)
Lemma scan_sym al off s m t idx ms fp lst :
  (s =? 61) = false -> unsym al s = Some m ->
  suffix_scan al off (s :: t) idx ms 0 fp lst = suffix_scan al off t (idx + 1) (ms ++ [m]) 0 fp s.
Proof.
  intros H1 H2. cbn [suffix_scan]. unfold PAD_BYTE. rewrite H1.
  change (0 <? 0) with false. cbv iota. rewrite H2. reflexivity.
Qed.

Lemma scan_pad al off t idx ms pads fp lst :
  2 <= idx ->
  suffix_scan al off (61 :: t) idx ms pads fp lst =
  suffix_scan al off t (idx + 1) ms (pads + 1) (if pads =? 0 then idx else fp) lst.
Proof.
  intros H. cbn [suffix_scan]. unfold PAD_BYTE. change (61 =? 61) with true. cbv iota.
  replace (idx <? 2) with false by (symmetry; apply N.ltb_ge; lia). reflexivity.
Qed.

(* ---- what decode_suffix returns in Indifferent mode, by number of morsels *)
Lemma suffix_cases al off l ms pads fp lst :
  l <> [] ->
  suffix_scan al off l 0 [] 0 0 0 = inr (ms, pads, fp, lst) ->
  decode_suffix al Indifferent false off l =
  match ms with
  | [m0; m1] => if nonzero ((m1 mod 16) * 16) then DErr (InvalidLastSymbol (off + 2 - 1) lst)
                else DOk [m0 * 4 + m1 / 16]
  | [m0; m1; m2] => if nonzero ((m2 mod 4) * 64) then DErr (InvalidLastSymbol (off + 3 - 1) lst)
                    else DOk [m0 * 4 + m1 / 16; (m1 mod 16) * 16 + m2 / 4]
  | [m0; m1; m2; m3] => DOk (quad_bytes m0 m1 m2 m3)
  | _ => decode_suffix al Indifferent false off l
  end.
Proof.
  intros Hl H. destruct ms as [|m0 [|m1 [|m2 [|m3 [|m4 ms]]]]]; try reflexivity.
  - unfold decode_suffix. rewrite H. destruct l; [contradiction|]. cbn.
    change (Pos.to_nat 1) with 1%nat. unfold quad_bytes. cbn [skipn firstn existsb].
    change (0 / 4) with 0. change (0 mod 4 * 64 + 0) with 0. rewrite N.add_0_r.
    change (nonzero 0) with false. rewrite !orb_false_r. reflexivity.
  - unfold decode_suffix. rewrite H. destruct l; [contradiction|]. cbn.
    change (Pos.to_nat 2) with 2%nat. unfold quad_bytes. cbn [skipn firstn existsb].
    rewrite N.add_0_r. rewrite !orb_false_r. reflexivity.
  - unfold decode_suffix. rewrite H. destruct l; [contradiction|]. cbn.
    change (Pos.to_nat 3) with 3%nat. unfold quad_bytes. cbn [skipn firstn existsb]. reflexivity.
Qed.

Lemma list_ind3 {A} (P : list A -> Prop) :
  P [] -> (forall a, P [a]) -> (forall a b, P [a; b]) ->
  (forall a b c t, P t -> P (a :: b :: c :: t)) -> forall l, P l.
Proof.
  intros H0 H1 H2 H3. fix IH 1. intros [|a [|b [|c t]]].
  - exact H0. - apply H1. - apply H2. - apply H3, IH.
Qed.

(* the six-bit fields of a byte triple *)
Lemma fields a b c :
  a < 256 -> b < 256 -> c < 256 ->
  exists a1 a0 b1 b0 c1 c0,
    a / 4 = a1 /\ a mod 4 = a0 /\ b / 16 = b1 /\ b mod 16 = b0 /\ c / 64 = c1 /\ c mod 64 = c0 /\
    a = 4 * a1 + a0 /\ b = 16 * b1 + b0 /\ c = 64 * c1 + c0 /\
    a1 < 64 /\ a0 < 4 /\ b1 < 16 /\ b0 < 16 /\ c1 < 4 /\ c0 < 64.
Proof. intros. eexists _, _, _, _, _, _. repeat split; lia. Qed.

Lemma quad_of_fields a1 a0 b1 b0 c1 c0 :
  a0 < 4 -> b1 < 16 -> b0 < 16 -> c1 < 4 -> c0 < 64 ->
  quad_bytes a1 (a0 * 16 + b1) (b0 * 4 + c1) c0 = [4 * a1 + a0; 16 * b1 + b0; 64 * c1 + c0].
Proof.
  intros. unfold quad_bytes.
  replace ((a0 * 16 + b1) / 16) with a0 by lia.
  replace ((a0 * 16 + b1) mod 16) with b1 by lia.
  replace ((b0 * 4 + c1) / 4) with b0 by lia.
  replace ((b0 * 4 + c1) mod 4) with c1 by lia.
  f_equal; [lia|]. f_equal; [lia|]. f_equal; lia.
Qed.

(* the encoder with its padding, as one recursion *)
Fixpoint enc_full (al : list N) (pad : bool) (l : list N) : list N :=
  match l with
  | a :: b :: c :: t =>
      sym al (a / 4) :: sym al ((a mod 4) * 16 + b / 16) :: sym al ((b mod 16) * 4 + c / 64)
      :: sym al (c mod 64) :: enc_full al pad t
  | [a; b] => [sym al (a / 4); sym al ((a mod 4) * 16 + b / 16); sym al ((b mod 16) * 4)]
              ++ (if pad then [61] else [])
  | [a] => [sym al (a / 4); sym al ((a mod 4) * 16)] ++ (if pad then [61; 61] else [])
  | [] => []
  end.

Lemma padding_add4 n : b64_padding (4 + n) = b64_padding n.
Proof. unfold b64_padding. replace ((4 + n) mod 4) with (n mod 4) by lia. reflexivity. Qed.

Lemma enc_body_full al l :
  b64_enc_body al l ++ b64_padding (N.of_nat (length (b64_enc_body al l))) = enc_full al true l /\
  b64_enc_body al l = enc_full al false l.
Proof.
  induction l as [| x | x y | x y z t [IH1 IH2]] using list_ind3.
  - split; reflexivity.
  - split; reflexivity.
  - split; reflexivity.
  - cbn [b64_enc_body enc_full]. split.
    + cbn [length app].
      replace (N.of_nat (S (S (S (S (length (b64_enc_body al t))))))) with (4 + N.of_nat (length (b64_enc_body al t))) by lia.
      rewrite padding_add4. now rewrite IH1.
    + now rewrite IH2.
Qed.

Lemma encode_engine_full e l :
  b64_encode_engine e l = enc_full (alphabet_of (fst (engine_cfg e))) (snd (engine_cfg e)) l.
Proof.
  unfold b64_encode_engine. destruct (engine_cfg e) as [a pad]. cbn [fst snd].
  destruct (enc_body_full (alphabet_of a) l) as [H1 H2]. destruct pad; assumption.
Qed.

Lemma enc_full_nonempty al pad l : l <> [] -> enc_full al pad l <> [].
Proof. destruct l as [|x [|y [|z t]]]; intros H; [contradiction| | |]; cbn; discriminate. Qed.

Lemma dq_step al m tr off a b c d e r :
  decode_quads al m tr off (a :: b :: c :: d :: e :: r) =
  match decode_chunk_4 al off a b c d with
  | DErr x => DErr x
  | DOk x => match decode_quads al m tr (off + 4) (e :: r) with DOk y => DOk (x ++ y) | DErr x => DErr x end
  end.
Proof. reflexivity. Qed.

Ltac symfact := first [apply sym_not_pad | apply sym_unsym]; lia.

Lemma dq_roundtrip a pad l :
  bytes l -> forall off,
  decode_quads (alphabet_of a) Indifferent false off (enc_full (alphabet_of a) pad l) = DOk l.
Proof.
  induction l as [| x | x y | x y z t IH] using list_ind3; intros Hb off.
  - reflexivity.
  - inversion_clear Hb as [|? ? Hx _].
    destruct pad; cbn [enc_full app decode_quads].
    + rewrite (suffix_cases _ _ _ [x / 4; x mod 4 * 16] 2 2 (sym (alphabet_of a) (x mod 4 * 16))); [| discriminate |].
      * replace (x mod 4 * 16 mod 16 * 16) with 0 by lia. change (nonzero 0) with false. cbv iota.
        do 2 f_equal. lia.
      * rewrite (scan_sym _ _ _ (x / 4)) by symfact. rewrite (scan_sym _ _ _ (x mod 4 * 16)) by symfact.
        rewrite !scan_pad by (cbn; lia). reflexivity.
    + rewrite (suffix_cases _ _ _ [x / 4; x mod 4 * 16] 0 0 (sym (alphabet_of a) (x mod 4 * 16))); [| discriminate |].
      * replace (x mod 4 * 16 mod 16 * 16) with 0 by lia. change (nonzero 0) with false. cbv iota.
        do 2 f_equal. lia.
      * rewrite (scan_sym _ _ _ (x / 4)) by symfact. rewrite (scan_sym _ _ _ (x mod 4 * 16)) by symfact.
        reflexivity.
  - assert (Hx : x < 256 /\ y < 256) by (inversion_clear Hb as [|? ? H1 H2]; inversion_clear H2; auto).
    destruct Hx as [Hx Hy].
    set (m0 := x / 4). set (m1 := x mod 4 * 16 + y / 16). set (m2 := y mod 16 * 4).
    assert (Hm : m0 < 64 /\ m1 < 64 /\ m2 < 64) by (subst m0 m1 m2; lia).
    destruct Hm as (Hm0 & Hm1 & Hm2).
    assert (Hres : (if nonzero (m2 mod 4 * 64) then DErr (InvalidLastSymbol (off + 3 - 1) (sym (alphabet_of a) m2))
                    else DOk [m0 * 4 + m1 / 16; m1 mod 16 * 16 + m2 / 4]) = DOk [x; y]).
    { replace (m2 mod 4 * 64) with 0 by (subst m2; lia). change (nonzero 0) with false. cbv iota.
      f_equal. f_equal; [subst m0 m1; lia|]. f_equal. subst m1 m2. lia. }
    destruct pad; cbn [enc_full app decode_quads]; fold m0 m1 m2.
    + rewrite (suffix_cases _ _ _ [m0; m1; m2] 1 3 (sym (alphabet_of a) m2)); [exact Hres | discriminate |].
      rewrite (scan_sym _ _ _ m0) by symfact. rewrite (scan_sym _ _ _ m1) by symfact.
      rewrite (scan_sym _ _ _ m2) by symfact.
      rewrite !scan_pad by (cbn; lia). reflexivity.
    + rewrite (suffix_cases _ _ _ [m0; m1; m2] 0 0 (sym (alphabet_of a) m2)); [exact Hres | discriminate |].
      rewrite (scan_sym _ _ _ m0) by symfact. rewrite (scan_sym _ _ _ m1) by symfact.
      rewrite (scan_sym _ _ _ m2) by symfact. reflexivity.
  - assert (Hx : x < 256 /\ y < 256 /\ z < 256 /\ bytes t).
    { inversion_clear Hb as [|? ? H1 H2]; inversion_clear H2 as [|? ? H3 H4]; inversion_clear H4; auto. }
    destruct Hx as (Hx & Hy & Hz & Ht).
    destruct (fields x y z Hx Hy Hz) as (a1 & a0 & b1 & b0 & c1 & c0 & E1 & E2 & E3 & E4 & E5 & E6 & Ex & Ey & Ez & B).
    destruct B as (Ba1 & Ba0 & Bb1 & Bb0 & Bc1 & Bc0).
    cbn [enc_full]. rewrite E1, E2, E3, E4, E5, E6.
    assert (Hq : quad_bytes a1 (a0 * 16 + b1) (b0 * 4 + c1) c0 = [x; y; z])
      by (rewrite quad_of_fields by assumption; now subst x y z).
    assert (Hm : a0 * 16 + b1 < 64 /\ b0 * 4 + c1 < 64) by lia. destruct Hm as [Hm1 Hm2].
    destruct t as [|w t'].
    + cbn [enc_full decode_quads].
      rewrite (suffix_cases _ _ _ [a1; a0 * 16 + b1; b0 * 4 + c1; c0] 0 0 (sym (alphabet_of a) c0)); [now rewrite Hq | discriminate |].
      rewrite (scan_sym _ _ _ a1) by symfact. rewrite (scan_sym _ _ _ (a0 * 16 + b1)) by symfact.
      rewrite (scan_sym _ _ _ (b0 * 4 + c1)) by symfact. rewrite (scan_sym _ _ _ c0) by symfact. reflexivity.
    + destruct (enc_full (alphabet_of a) pad (w :: t')) as [|e r] eqn:E.
      { exfalso. revert E. apply enc_full_nonempty. discriminate. }
      rewrite dq_step. unfold decode_chunk_4. rewrite !sym_unsym by lia. rewrite Hq.
      rewrite IH by assumption. reflexivity.
Qed.

(* ---- alphabet *)
Lemma enc_full_shape a pad l :
  bytes l ->
  exists body k,
    enc_full (alphabet_of a) pad l = body ++ repeat 61 k /\
    Forall (fun c => is_b64_char (url_of a) c = true) body /\
    (k <= 2)%nat /\ (pad = false -> k = 0%nat) /\
    (pad = true -> (length (enc_full (alphabet_of a) pad l) mod 4 = 0)%nat).
Proof.
  induction l as [| x | x y | x y z t IH] using list_ind3; intros Hb.
  - exists [], 0%nat. repeat split; auto.
  - inversion_clear Hb as [|? ? Hx _].
    exists [sym (alphabet_of a) (x / 4); sym (alphabet_of a) (x mod 4 * 16)], (if pad then 2 else 0)%nat.
    repeat split.
    + destruct pad; reflexivity.
    + repeat constructor; apply sym_char; lia.
    + destruct pad; lia.
    + now intros ->.
    + intros ->. reflexivity.
  - assert (Hx : x < 256 /\ y < 256) by (inversion_clear Hb as [|? ? H1 H2]; inversion_clear H2; auto).
    destruct Hx as [Hx Hy].
    exists [sym (alphabet_of a) (x / 4); sym (alphabet_of a) (x mod 4 * 16 + y / 16);
            sym (alphabet_of a) (y mod 16 * 4)], (if pad then 1 else 0)%nat.
    repeat split.
    + destruct pad; reflexivity.
    + repeat constructor; apply sym_char; lia.
    + destruct pad; lia.
    + now intros ->.
    + intros ->. reflexivity.
  - assert (Hx : x < 256 /\ y < 256 /\ z < 256 /\ bytes t).
    { inversion_clear Hb as [|? ? H1 H2]; inversion_clear H2 as [|? ? H3 H4]; inversion_clear H4; auto. }
    destruct Hx as (Hx & Hy & Hz & Ht).
    destruct (IH Ht) as (body & k & E & Hf & Hk & Hp0 & Hp1).
    exists (sym (alphabet_of a) (x / 4) :: sym (alphabet_of a) (x mod 4 * 16 + y / 16)
            :: sym (alphabet_of a) (y mod 16 * 4 + z / 64) :: sym (alphabet_of a) (z mod 64) :: body), k.
    repeat split; auto.
    + cbn [enc_full app]. now rewrite E.
    + repeat constructor; try (apply sym_char; lia). exact Hf.
    + intros Hp. specialize (Hp1 Hp). cbn [enc_full length].
      remember (length (enc_full (alphabet_of a) pad t)) as n. clear - Hp1.
      replace (S (S (S (S n)))) with (n + 1 * 4)%nat by lia. rewrite Nat.mod_add by discriminate. exact Hp1.
Qed.

Ltac symelt := right; eexists; (split; [|reflexivity]); lia.
Ltac padelts := repeat (apply Forall_cons; [now left|]); apply Forall_nil.

Lemma enc_full_chars a pad l :
  bytes l -> Forall (fun c => c = 61 \/ exists i, i < 64 /\ c = sym (alphabet_of a) i) (enc_full (alphabet_of a) pad l).
Proof.
  induction l as [| x | x y | x y z t IH] using list_ind3; intros Hb.
  - constructor.
  - inversion_clear Hb as [|? ? Hx _]. cbn [enc_full]. apply Forall_app. split.
    + apply Forall_cons; [symelt|]. apply Forall_cons; [symelt|]. apply Forall_nil.
    + destruct pad; padelts.
  - assert (Hx : x < 256 /\ y < 256) by (inversion_clear Hb as [|? ? H1 H2]; inversion_clear H2; auto).
    destruct Hx as [Hx Hy]. cbn [enc_full]. apply Forall_app. split.
    + apply Forall_cons; [symelt|]. apply Forall_cons; [symelt|]. apply Forall_cons; [symelt|]. apply Forall_nil.
    + destruct pad; padelts.
  - assert (Hx : x < 256 /\ y < 256 /\ z < 256 /\ bytes t).
    { inversion_clear Hb as [|? ? H1 H2]; inversion_clear H2 as [|? ? H3 H4]; inversion_clear H4; auto. }
    destruct Hx as (Hx & Hy & Hz & Ht). cbn [enc_full].
    apply Forall_cons; [symelt|]. apply Forall_cons; [symelt|]. apply Forall_cons; [symelt|].
    apply Forall_cons; [symelt|]. exact (IH Ht).
Qed.

(* ---- Engine::decode on an encoder's output *)
Lemma b64_bytes_roundtrip a pad l :
  bytes l ->
  b64_decode_bytes (alphabet_of a) Indifferent false (enc_full (alphabet_of a) pad l) = DOk l.
Proof.
  intros Hb. unfold b64_decode_bytes.
  set (out := enc_full (alphabet_of a) pad l).
  assert (Hpre : (N.of_nat (length out) mod 4 =? 1) && negb (last out 0 =? PAD_BYTE) &&
                 match unsym (alphabet_of a) (last out 0) with None => true | Some _ => false end = false).
  { destruct out as [|o out'] eqn:E; [reflexivity|].
    pose proof (enc_full_chars a pad l Hb) as Hc. fold out in Hc. rewrite E in Hc.
    rewrite Forall_forall in Hc.
    assert (Hl : In (last (o :: out') 0) (o :: out')).
    { clear. generalize o. induction out' as [|p q IH]; intros o'; [now left|]. right. apply IH. }
    destruct (Hc _ Hl) as [-> | (i & Hi & ->)].
    - unfold PAD_BYTE. change (61 =? 61) with true. cbn [negb]. now rewrite andb_false_r.
    - rewrite sym_unsym by assumption. now rewrite andb_false_r. }
  rewrite Hpre. now apply dq_roundtrip.
Qed.

(* ---- a character outside the alphabet (other than "=") makes the decoder fail *)
Lemma index_of_none x al i : ~ In x al -> index_of x al i = None.
Proof.
  revert i. induction al as [|y al IH]; intros i H; [reflexivity|]. cbn [index_of].
  destruct (N.eqb_spec y x) as [->|Hne]; [exfalso; apply H; now left|].
  apply IH. intros Hin. apply H. now right.
Qed.

Lemma alphabet_chars a : forallb (is_b64_char (url_of a)) (alphabet_of a) = true.
Proof. destruct a; vm_compute; reflexivity. Qed.

Lemma unsym_none a x : is_b64_char (url_of a) x = false -> unsym (alphabet_of a) x = None.
Proof.
  intros H. apply index_of_none. intros Hin.
  pose proof (alphabet_chars a) as Hc. rewrite forallb_forall in Hc. rewrite (Hc _ Hin) in H. discriminate.
Qed.

Lemma scan_invalid al x :
  unsym al x = None -> x <> 61 ->
  forall l off idx ms pads fp lst, In x l -> exists e, suffix_scan al off l idx ms pads fp lst = inl e.
Proof.
  intros Hu Hne. induction l as [|b t IH]; intros off idx ms pads fp lst Hin; [contradiction|].
  cbn [suffix_scan]. unfold PAD_BYTE.
  destruct (N.eqb_spec b 61) as [->|Hb].
  - destruct (idx <? 2); [eauto|]. apply IH. destruct Hin as [E|Hin]; [congruence | exact Hin].
  - destruct (0 <? pads); [eauto|].
    destruct (unsym al b) eqn:Eb; [|eauto].
    apply IH. destruct Hin as [E|Hin]; [subst; congruence | exact Hin].
Qed.

Lemma suffix_invalid al mode tr x off l :
  unsym al x = None -> x <> 61 -> In x l -> exists e, decode_suffix al mode tr off l = DErr e.
Proof.
  intros Hu Hne Hin. unfold decode_suffix.
  destruct (scan_invalid al x Hu Hne l off 0 [] 0 0 0 Hin) as [e ->]. eauto.
Qed.

Lemma chunk_invalid al x off a b c d :
  unsym al x = None -> In x [a; b; c; d] -> exists e, decode_chunk_4 al off a b c d = DErr e.
Proof.
  intros Hu Hin. unfold decode_chunk_4.
  destruct (unsym al a) eqn:Ea; [|eauto]. destruct (unsym al b) eqn:Eb; [|eauto].
  destruct (unsym al c) eqn:Ec; [|eauto]. destruct (unsym al d) eqn:Ed; [|eauto].
  exfalso. cbn in Hin. destruct Hin as [<-|[<-|[<-|[<-|[]]]]]; congruence.
Qed.

Lemma list_ind4 {A} (P : list A -> Prop) :
  (forall l, (length l <= 4)%nat -> P l) ->
  (forall a b c d e r, P (e :: r) -> P (a :: b :: c :: d :: e :: r)) -> forall l, P l.
Proof.
  intros H0 H1. fix IH 1. intros l.
  destruct l as [|a l1]; [apply H0; cbn; lia|]. destruct l1 as [|b l2]; [apply H0; cbn; lia|].
  destruct l2 as [|c l3]; [apply H0; cbn; lia|]. destruct l3 as [|d l4]; [apply H0; cbn; lia|].
  pose proof (IH l4) as IH4. destruct l4 as [|e r]; [apply H0; cbn; lia|]. apply H1, IH4.
Qed.

Lemma dq_short al mode tr off l : (length l <= 4)%nat -> decode_quads al mode tr off l = decode_suffix al mode tr off l.
Proof.
  intros H. destruct l as [|a [|b [|c [|d [|e r]]]]]; try reflexivity. cbn in H. lia.
Qed.

Lemma dq_invalid al mode tr x :
  unsym al x = None -> x <> 61 ->
  forall l off, In x l -> exists e, decode_quads al mode tr off l = DErr e.
Proof.
  intros Hu Hne. induction l as [l Hl | a b c d e r IH] using list_ind4; intros off Hin.
  - rewrite dq_short by assumption. now apply (suffix_invalid al mode tr x).
  - rewrite dq_step.
    assert (Hcase : In x [a; b; c; d] \/ In x (e :: r)).
    { cbn in Hin |- *. intuition. }
    destruct Hcase as [H|H].
    + destruct (chunk_invalid al x off a b c d Hu H) as [err ->]. eauto.
    + destruct (decode_chunk_4 al off a b c d); [|eauto].
      destruct (IH (off + 4) H) as [err ->]. eauto.
Qed.

Lemma b64_invalid_gen a mode tr x l :
  is_b64_char (url_of a) x = false -> x <> 61 -> In x l ->
  exists e, b64_decode_bytes (alphabet_of a) mode tr l = DErr e.
Proof.
  intros Hc Hne Hin. unfold b64_decode_bytes.
  match goal with |- context [if ?c then _ else _] => destruct c end; [eauto|].
  apply (dq_invalid _ _ _ x); auto. now apply unsym_none.
Qed.

(* ---- the filters *)
Lemma enc_full_ascii a pad l : bytes l -> Forall (fun c => c < 128) (enc_full (alphabet_of a) pad l).
Proof.
  intros Hb. eapply Forall_impl; [|exact (enc_full_chars a pad l Hb)].
  intros c [->|(i & Hi & ->)]; [lia | now apply sym_ascii].
Qed.

Lemma b64_filter_roundtrip u p s :
  scalars s ->
  exists t, b64_encode_filter u p s = ROk t /\ b64_decode_filter u t = ROk s.
Proof.
  intros Hs. pose proof (utf8_encode_bytes s Hs) as Hb.
  unfold b64_encode_filter, b64_decode_filter.
  destruct u, p; cbn [lookup_engine b64_encode_table lookup_bool b64_decode_table Bool.eqb andb];
    eexists; (split; [reflexivity|]); rewrite encode_engine_full; cbn [engine_cfg fst snd];
    rewrite utf8_encode_ascii by (now apply enc_full_ascii);
    rewrite b64_bytes_roundtrip by assumption; now rewrite utf8_roundtrip.
Qed.

Lemma b64_engine_roundtrip e l :
  bytes l ->
  b64_decode_bytes (alphabet_of (fst (engine_cfg e))) Indifferent false (b64_encode_engine e l) = DOk l.
Proof. intros H. rewrite encode_engine_full. now apply b64_bytes_roundtrip. Qed.

Lemma b64_engine_shape e l :
  bytes l ->
  exists body k,
    b64_encode_engine e l = body ++ repeat 61 k /\
    Forall (fun c => is_b64_char (url_of (fst (engine_cfg e))) c = true) body /\
    (k <= 2)%nat /\ (snd (engine_cfg e) = false -> k = 0%nat) /\
    (snd (engine_cfg e) = true -> (length (b64_encode_engine e l) mod 4 = 0)%nat).
Proof. intros H. rewrite encode_engine_full. now apply enc_full_shape. Qed.

(* ---- a text whose length is 1 mod 4 is never accepted *)
Lemma suffix_one al mode tr off x : exists e, decode_suffix al mode tr off [x] = DErr e.
Proof.
  unfold decode_suffix. cbn [suffix_scan]. unfold PAD_BYTE.
  destruct (x =? 61); [change (0 <? 2) with true; cbv iota; eauto|].
  change (0 <? 0) with false. cbv iota.
  destruct (unsym al x); [|eauto]. cbn. eauto.
Qed.

Lemma dq_bad_length al mode tr :
  forall l off, (length l mod 4 = 1)%nat -> exists e, decode_quads al mode tr off l = DErr e.
Proof.
  induction l as [l Hl | a b c d e r IH] using list_ind4; intros off Hm.
  - rewrite dq_short by assumption.
    destruct l as [|x [|y [|z [|w [|v t]]]]]; cbn in Hm, Hl; try discriminate; try lia.
    apply suffix_one.
  - rewrite dq_step. destruct (decode_chunk_4 al off a b c d); [|eauto].
    destruct (IH (off + 4)) as [err ->]; [|eauto].
    cbn [length] in Hm |- *. remember (length r) as n. clear - Hm.
    replace (S (S (S (S (S n))))) with (S n + 1 * 4)%nat in Hm by lia.
    now rewrite Nat.mod_add in Hm by discriminate.
Qed.

Lemma b64_bad_length al mode tr l :
  (length l mod 4 = 1)%nat -> exists e, b64_decode_bytes al mode tr l = DErr e.
Proof.
  intros H. unfold b64_decode_bytes.
  match goal with |- context [if ?c then _ else _] => destruct c end; [eauto|].
  now apply dq_bad_length.
Qed.

(* ---- whatever the decoder accepts is turned into a string only if it is well-formed UTF-8 *)
Lemma b64_decode_ok_utf8 u s t :
  b64_decode_filter u s = ROk t ->
  exists a mode tr bs, lookup_bool b64_decode_table u = Some (a, mode, tr) /\
    b64_decode_bytes (alphabet_of a) mode tr (utf8_encode s) = DOk bs /\ utf8_decode bs = Some t.
Proof.
  unfold b64_decode_filter. destruct (lookup_bool b64_decode_table u) as [[[a mode] tr]|]; [|discriminate].
  destruct (b64_decode_bytes (alphabet_of a) mode tr (utf8_encode s)) as [bs|] eqn:E; [|discriminate].
  destruct (utf8_decode bs) as [t'|] eqn:E2; [|discriminate]. intros [= <-]. eauto 8.
Qed.

(* ---- soundness: whatever the decoder accepts is the canonical unpadded encoding of its result,
   followed by at most two "=" *)
Lemma index_of_some b al i j :
  index_of b al i = Some j ->
  exists n, j = i + N.of_nat n /\ (n < length al)%nat /\ nth n al 0 = b.
Proof.
  revert i. induction al as [|x al IH]; intros i H; [discriminate|]. cbn [index_of] in H.
  destruct (N.eqb_spec x b) as [->|Hne].
  - injection H as <-. exists 0%nat. repeat split; [lia | cbn; lia].
  - destruct (IH _ H) as (n & -> & Hn & Hb). exists (S n). repeat split; [lia | cbn; lia | exact Hb].
Qed.

Lemma unsym_some a s m : unsym (alphabet_of a) s = Some m -> m < 64 /\ s = sym (alphabet_of a) m.
Proof.
  intros H. apply index_of_some in H. destruct H as (n & -> & Hn & Hb).
  assert (Hlen : length (alphabet_of a) = 64%nat) by (destruct a; reflexivity).
  rewrite Hlen in Hn. split; [lia|]. unfold sym. rewrite N.add_0_l, Nat2N.id. now rewrite Hb.
Qed.

Definition symrel (al : list N) (s m : N) : Prop := unsym al s = Some m /\ s <> 61.

Lemma scan_inv al off : forall l idx ms0 pads0 fp lst ms pads fp' lst',
  suffix_scan al off l idx ms0 pads0 fp lst = inr (ms, pads, fp', lst') ->
  exists syms k ms', l = syms ++ repeat 61 k /\ ms = ms0 ++ ms' /\ Forall2 (symrel al) syms ms' /\
                     (0 < pads0 -> syms = []).
Proof.
  induction l as [|b t IH]; intros idx ms0 pads0 fp lst ms pads fp' lst' H.
  - cbn in H. injection H as <- _ _ _. exists [], 0%nat, [].
    split; [reflexivity|]. split; [now rewrite app_nil_r|]. split; [constructor | auto].
  - cbn [suffix_scan] in H. unfold PAD_BYTE in H. destruct (N.eqb_spec b 61) as [->|Hb].
    + destruct (idx <? 2); [discriminate|].
      apply IH in H. destruct H as (syms & k & ms' & -> & -> & HF & Hp).
      rewrite (Hp ltac:(lia)) in *. inversion HF; subst.
      exists [], (S k), [].
      split; [reflexivity|]. split; [reflexivity|]. split; [constructor | auto].
    + destruct (N.ltb_spec 0 pads0) as [Hp|Hp]; [discriminate|].
      destruct (unsym al b) as [m|] eqn:Em; [|discriminate].
      apply IH in H. destruct H as (syms & k & ms' & -> & -> & HF & _).
      exists (b :: syms), k, (m :: ms'). repeat split.
      * now rewrite <- app_assoc.
      * constructor; [split; assumption | exact HF].
      * lia.
Qed.

Lemma F2_length {A B} (R : A -> B -> Prop) l l' : Forall2 R l l' -> length l = length l'.
Proof. induction 1; cbn; congruence. Qed.

Lemma nonzero_false x : nonzero x = false -> x = 0.
Proof. unfold nonzero. intros H. apply negb_false_iff in H. now apply N.eqb_eq. Qed.

Lemma suffix_sound a off l bs :
  (length l <= 4)%nat ->
  decode_suffix (alphabet_of a) Indifferent false off l = DOk bs ->
  exists k, l = enc_full (alphabet_of a) false bs ++ repeat 61 k /\ bytes bs.
Proof.
  intros Hlen H.
  destruct l as [|c t].
  { cbn in H. injection H as <-. exists 0%nat. split; [reflexivity | constructor]. }
  remember (c :: t) as l eqn:Hl.
  destruct (suffix_scan (alphabet_of a) off l 0 [] 0 0 0) as [e|[[[ms pads] fp] lst]] eqn:E.
  { unfold decode_suffix in H. rewrite E in H. discriminate. }
  destruct (scan_inv _ _ _ _ _ _ _ _ _ _ _ _ E) as (syms & k & ms' & El & Ems & HF & _).
  cbn [app] in Ems. subst ms.
  assert (Hne : l <> []) by (subst l; discriminate).
  pose proof (F2_length _ _ _ HF) as HL.
  assert (Hs : (length syms <= 4)%nat).
  { rewrite El in Hlen. rewrite app_length in Hlen. lia. }
  destruct ms' as [|m0 [|m1 [|m2 [|m3 [|m4 ms'']]]]].
  - unfold decode_suffix in H. rewrite E in H. subst l. cbn in H. discriminate.
  - unfold decode_suffix in H. rewrite E in H. subst l. cbn in H. discriminate.
  - rewrite (suffix_cases _ _ _ _ _ _ _ Hne E) in H.
    destruct (nonzero (m1 mod 16 * 16)) eqn:Enz; [discriminate|]. injection H as <-.
    apply nonzero_false in Enz.
    inversion HF as [|s0 ? syms1 ? [U0 _] HF1]; subst. inversion HF1 as [|s1 ? syms2 ? [U1 _] HF2]; subst.
    inversion HF2; subst.
    apply unsym_some in U0, U1. destruct U0 as [B0 ->], U1 as [B1 ->].
    exists k. split; [|repeat constructor; lia].
    rewrite El. cbn [enc_full app].
    replace ((m0 * 4 + m1 / 16) / 4) with m0 by lia.
    replace ((m0 * 4 + m1 / 16) mod 4 * 16) with m1 by lia. reflexivity.
  - rewrite (suffix_cases _ _ _ _ _ _ _ Hne E) in H.
    destruct (nonzero (m2 mod 4 * 64)) eqn:Enz; [discriminate|]. injection H as <-.
    apply nonzero_false in Enz.
    inversion HF as [|s0 ? syms1 ? [U0 _] HF1]; subst. inversion HF1 as [|s1 ? syms2 ? [U1 _] HF2]; subst.
    inversion HF2 as [|s2 ? syms3 ? [U2 _] HF3]; subst. inversion HF3; subst.
    apply unsym_some in U0, U1, U2. destruct U0 as [B0 ->], U1 as [B1 ->], U2 as [B2 ->].
    exists k. split; [|repeat constructor; lia].
    rewrite El. cbn [enc_full app].
    replace ((m0 * 4 + m1 / 16) / 4) with m0 by lia.
    replace ((m0 * 4 + m1 / 16) mod 4 * 16 + (m1 mod 16 * 16 + m2 / 4) / 16) with m1 by lia.
    replace ((m1 mod 16 * 16 + m2 / 4) mod 16 * 4) with m2 by lia. reflexivity.
  - rewrite (suffix_cases _ _ _ _ _ _ _ Hne E) in H. injection H as <-.
    inversion HF as [|s0 ? syms1 ? [U0 _] HF1]; subst. inversion HF1 as [|s1 ? syms2 ? [U1 _] HF2]; subst.
    inversion HF2 as [|s2 ? syms3 ? [U2 _] HF3]; subst. inversion HF3 as [|s3 ? syms4 ? [U3 _] HF4]; subst.
    inversion HF4; subst.
    apply unsym_some in U0, U1, U2, U3.
    destruct U0 as [B0 ->], U1 as [B1 ->], U2 as [B2 ->], U3 as [B3 ->].
    exists k. split; [|unfold quad_bytes; repeat constructor; lia].
    rewrite El. unfold quad_bytes. cbn [enc_full app].
    replace ((m0 * 4 + m1 / 16) / 4) with m0 by lia.
    replace ((m0 * 4 + m1 / 16) mod 4 * 16 + (m1 mod 16 * 16 + m2 / 4) / 16) with m1 by lia.
    replace ((m1 mod 16 * 16 + m2 / 4) mod 16 * 4 + (m2 mod 4 * 64 + m3) / 64) with m2 by lia.
    replace ((m2 mod 4 * 64 + m3) mod 64) with m3 by lia. reflexivity.
  - exfalso. cbn [length] in HL. lia.
Qed.

Lemma chunk_sound a off x y z w bs :
  decode_chunk_4 (alphabet_of a) off x y z w = DOk bs ->
  exists b0 b1 b2, bs = [b0; b1; b2] /\ b0 < 256 /\ b1 < 256 /\ b2 < 256 /\
    x = sym (alphabet_of a) (b0 / 4) /\ y = sym (alphabet_of a) (b0 mod 4 * 16 + b1 / 16) /\
    z = sym (alphabet_of a) (b1 mod 16 * 4 + b2 / 64) /\ w = sym (alphabet_of a) (b2 mod 64).
Proof.
  unfold decode_chunk_4.
  destruct (unsym (alphabet_of a) x) as [m0|] eqn:U0; [|discriminate].
  destruct (unsym (alphabet_of a) y) as [m1|] eqn:U1; [|discriminate].
  destruct (unsym (alphabet_of a) z) as [m2|] eqn:U2; [|discriminate].
  destruct (unsym (alphabet_of a) w) as [m3|] eqn:U3; [|discriminate].
  intros [= <-]. apply unsym_some in U0, U1, U2, U3.
  destruct U0 as [B0 ->], U1 as [B1 ->], U2 as [B2 ->], U3 as [B3 ->].
  unfold quad_bytes. eexists _, _, _. split; [reflexivity|].
  split; [lia|]. split; [lia|]. split; [lia|].
  replace ((m0 * 4 + m1 / 16) / 4) with m0 by lia.
  replace ((m0 * 4 + m1 / 16) mod 4 * 16 + (m1 mod 16 * 16 + m2 / 4) / 16) with m1 by lia.
  replace ((m1 mod 16 * 16 + m2 / 4) mod 16 * 4 + (m2 mod 4 * 64 + m3) / 64) with m2 by lia.
  replace ((m2 mod 4 * 64 + m3) mod 64) with m3 by lia. auto.
Qed.

Lemma dq_sound a : forall l off bs,
  decode_quads (alphabet_of a) Indifferent false off l = DOk bs ->
  exists k, l = enc_full (alphabet_of a) false bs ++ repeat 61 k /\ bytes bs.
Proof.
  induction l as [l Hl | x y z w e r IH] using list_ind4; intros off bs H.
  - rewrite dq_short in H by assumption. now apply suffix_sound in H.
  - rewrite dq_step in H.
    destruct (decode_chunk_4 (alphabet_of a) off x y z w) as [c3|] eqn:Ec; [|discriminate].
    destruct (decode_quads (alphabet_of a) Indifferent false (off + 4) (e :: r)) as [rest|] eqn:Er; [|discriminate].
    injection H as <-.
    apply chunk_sound in Ec. destruct Ec as (b0 & b1 & b2 & -> & B0 & B1 & B2 & -> & -> & -> & ->).
    destruct (IH _ _ Er) as (k & E & Hb). exists k. split.
    + cbn [app enc_full]. now rewrite E.
    + repeat constructor; assumption.
Qed.

Lemma b64_decode_sound a l bs :
  b64_decode_bytes (alphabet_of a) Indifferent false l = DOk bs ->
  exists k, l = enc_full (alphabet_of a) false bs ++ repeat 61 k /\ bytes bs.
Proof.
  unfold b64_decode_bytes.
  match goal with |- context [if ?c then _ else _] => destruct c end; [discriminate|].
  apply dq_sound.
Qed.

(* with the round trip: the accepted texts are exactly the unpadded encodings plus optional "=" *)
Lemma b64_engine_unpadded a l :
  b64_encode_engine (match a with ALPHA_STANDARD => STANDARD_NO_PAD | ALPHA_URL_SAFE => URL_SAFE_NO_PAD end) l
  = enc_full (alphabet_of a) false l.
Proof. rewrite encode_engine_full. destruct a; reflexivity. Qed.

Definition no_pad_engine (a : b64_alpha) : b64_engine :=
  match a with ALPHA_STANDARD => STANDARD_NO_PAD | ALPHA_URL_SAFE => URL_SAFE_NO_PAD end.

Lemma b64_decode_sound_engine a l bs :
  b64_decode_bytes (alphabet_of a) Indifferent false l = DOk bs ->
  exists k, l = b64_encode_engine (no_pad_engine a) bs ++ repeat 61 k /\ bytes bs.
Proof.
  intros H. apply b64_decode_sound in H. destruct H as (k & E & Hb). exists k. split; [|exact Hb].
  unfold no_pad_engine. now rewrite b64_engine_unpadded.
Qed.

(* ---- encoding in blocks: cutting the input at a multiple of 3 bytes is harmless (each block but the
   last encoded without padding), and cutting elsewhere is not *)
Lemma enc_full_app al pad l1 l2 :
  (length l1 mod 3 = 0)%nat -> enc_full al pad (l1 ++ l2) = enc_full al false l1 ++ enc_full al pad l2.
Proof.
  induction l1 as [| x | x y | x y z t IH] using list_ind3; intros H.
  - reflexivity.
  - cbn in H. discriminate.
  - cbn in H. discriminate.
  - cbn [app enc_full]. rewrite IH; [reflexivity|].
    cbn [length] in H. remember (length t) as n. clear - H.
    replace (S (S (S n))) with (n + 1 * 3)%nat in H by lia. now rewrite Nat.mod_add in H by discriminate.
Qed.

Lemma encode_blockwise e l1 l2 :
  (length l1 mod 3 = 0)%nat ->
  b64_encode_engine e (l1 ++ l2) =
  b64_encode_engine (no_pad_engine (fst (engine_cfg e))) l1 ++ b64_encode_engine e l2.
Proof.
  intros H. rewrite !encode_engine_full. rewrite enc_full_app by assumption.
  destruct e; reflexivity.
Qed.

Lemma encode_blockwise_needs_3 :
  exists e l1 l2, b64_encode_engine e (l1 ++ l2) <> b64_encode_engine e l1 ++ b64_encode_engine e l2 /\
                  b64_decode_bytes (alphabet_of (fst (engine_cfg e))) Indifferent false
                                   (b64_encode_engine e l1 ++ b64_encode_engine e l2) <> DOk (l1 ++ l2).
Proof. exists STANDARD, [97], [98]. vm_compute. split; discriminate. Qed.
