(* C07 format_is_utf8, at the level of Unicode scalar values: every scalar that
   Model/VFormat.format_value (Value::format, value/mod.rs 476-543) or escape_html
   (utils.rs 112-130) emits is either a scalar of a string stored inside the value (payloads,
   string keys; Bytes are printed by the model as they are) or an ASCII character. The Rust
   code assembles the same pieces as bytes of valid UTF-8 strings, whole strings at a time, so
   the `from_utf8_unchecked` sites (interpreter.rs 345-348, 858-861; mod.rs 127-135) see valid
   UTF-8 whenever the strings inside the value are. *)
From TeraV Require Import Model.Value Model.VFormat Gen.Tables.

Definition key_scalars (k : key) : list N := match k with KStr s _ => s | _ => [] end.

Fixpoint value_scalars (v : value) : list N :=
  match v with
  | VStr s _ => s
  | VBytes b => b
  | VArr l => flat_map value_scalars l
  | VMap m => flat_map (fun kv => key_scalars (fst kv) ++ value_scalars (snd kv)) m
  | _ => []
  end.

Definition ascii (c : N) : Prop := (c < 128)%N.

Lemma pos_digits_ascii fuel : forall n acc c, (forall d, In d acc -> ascii d) ->
  In c (pos_digits fuel n acc) -> ascii c.
Proof.
  induction fuel as [|f IH]; intros n acc c Hacc Hin; [exact (Hacc _ Hin)|].
  cbn [pos_digits] in Hin.
  assert (Hd : ascii (48 + n mod 10)%N).
  { unfold ascii. pose proof (N.mod_upper_bound n 10 ltac:(discriminate)). lia. }
  assert (Hacc' : forall d, In d ((48 + n mod 10)%N :: acc) -> ascii d).
  { intros d [<-|Hd']; [exact Hd|exact (Hacc _ Hd')]. }
  destruct (n / 10 =? 0)%N; [exact (Hacc' _ Hin)|exact (IH _ _ _ Hacc' Hin)].
Qed.

Lemma z_to_str_ascii z c : In c (z_to_str z) -> ascii c.
Proof.
  destruct z; cbn [z_to_str].
  - intros [<-|[]]. reflexivity.
  - unfold n_to_str. apply pos_digits_ascii. intros d [].
  - intros [<-|H]; [reflexivity|]. revert H. unfold n_to_str. apply pos_digits_ascii. intros d [].
Qed.

Lemma debug_char_scalars x c : In c (debug_char x) -> c = x \/ ascii c.
Proof.
  unfold debug_char.
  repeat match goal with |- context[if ?b then _ else _] => destruct b end; cbn;
    intros H; repeat (destruct H as [<-|H]; [try (left; reflexivity); right; reflexivity|]); destruct H.
Qed.

Lemma debug_str_scalars s c : In c (debug_str s) -> In c s \/ ascii c.
Proof.
  unfold debug_str. intros H. apply in_app_or in H. destruct H as [H|[<-|[]]]; [|right; reflexivity].
  destruct H as [<-|H]; [right; reflexivity|]. apply in_flat_map in H. destruct H as (x & Hx & Hc).
  destruct (debug_char_scalars _ _ Hc) as [->|Ha]; [left; exact Hx|right; exact Ha].
Qed.

Lemma join_with_in sep : forall l c, In c (join_with sep l) -> In c sep \/ exists x, In x l /\ In c x.
Proof.
  induction l as [|x t IH]; intros c H; [destruct H|]. cbn [join_with] in H. destruct t as [|y t'].
  - right. exists x. split; [left; reflexivity|exact H].
  - apply in_app_or in H. destruct H as [H|H]; [right; exists x; split; [left; reflexivity|exact H]|].
    apply in_app_or in H. destruct H as [H|H]; [left; exact H|].
    destruct (IH _ H) as [Hs|(z & Hz & Hc)]; [left; exact Hs|right; exists z; split; [right; exact Hz|exact Hc]].
Qed.

Lemma insert_entry_in {A} (e : key * A) : forall l x, In x (insert_entry e l) -> x = e \/ In x l.
Proof.
  induction l as [|y t IH]; intros x H; cbn [insert_entry] in H.
  - destruct H as [<-|[]]. left. reflexivity.
  - destruct (key_cmp (fst e) (fst y)).
    + destruct H as [<-|H]; [left; reflexivity|right; exact H].
    + destruct H as [<-|H]; [left; reflexivity|right; exact H].
    + destruct H as [<-|H]; [right; left; reflexivity|]. destruct (IH _ H) as [->|H']; [left; reflexivity|right; right; exact H'].
Qed.

Lemma sort_entries_in {A} : forall (m : list (key * A)) x, In x (sort_entries m) -> In x m.
Proof.
  unfold sort_entries. induction m as [|e t IH]; intros x H; [destruct H|]. cbn [fold_right] in H.
  destruct (insert_entry_in e _ _ H) as [->|H']; [left; reflexivity|right; exact (IH _ H')].
Qed.

Lemma format_key_scalars k c : In c (format_key k) -> In c (key_scalars k) \/ ascii c.
Proof.
  destruct k; cbn [format_key key_scalars].
  - intros H. right. destruct b; cbn in H; repeat (destruct H as [<-|H]; [reflexivity|]); destruct H.
  - intros H. right. exact (z_to_str_ascii _ _ H).
  - apply debug_str_scalars.
Qed.

Definition P (v : value) : Prop := forall c, In c (format_value v) -> In c (value_scalars v) \/ ascii c.

Definition elem (x : value) : str := match x with VStr s _ => debug_str s | _ => format_value x end.

Lemma elem_scalars x : P x -> forall c, In c (elem x) -> In c (value_scalars x) \/ ascii c.
Proof. intros HP c. destruct x; try exact (HP c). apply debug_str_scalars. Qed.

Lemma ascii_lit (l : str) c : forallb (fun d => d <? 128)%N l = true -> In c l -> ascii c.
Proof. intros H Hc. rewrite forallb_forall in H. apply N.ltb_lt. exact (H _ Hc). Qed.

Lemma P_arr l : Forall P l -> P (VArr l).
Proof.
  intros HF c H. change (format_value (VArr l)) with ([91%N] ++ join_with s_comma_sp (map elem l) ++ [93%N]) in H.
  apply in_app_or in H. destruct H as [[<-|[]]|H]; [right; reflexivity|].
  apply in_app_or in H. destruct H as [H|[<-|[]]]; [|right; reflexivity].
  destruct (join_with_in _ _ _ H) as [Hs|(x & Hx & Hc)]; [right; exact (ascii_lit s_comma_sp c eq_refl Hs)|].
  apply in_map_iff in Hx. destruct Hx as (v & <- & Hv). rewrite Forall_forall in HF.
  destruct (elem_scalars v (HF _ Hv) _ Hc) as [Hi|Ha]; [left|right; exact Ha].
  cbn [value_scalars]. apply in_flat_map. exists v. split; assumption.
Qed.

Definition entries_of (m : list (key * value)) : list (key * str) := map (fun kx => (fst kx, elem (snd kx))) m.

Lemma format_map_eq m :
  format_value (VMap m) =
  [123%N] ++ join_with s_comma_sp
               (map (fun kx => format_key (fst kx) ++ s_colon_sp ++ snd kx) (sort_entries (entries_of m)))
          ++ [125%N].
Proof.
  cbn [format_value]. do 5 f_equal. unfold entries_of.
  induction m as [|[k x] t IH]; [reflexivity|]. cbn [map fst snd]. rewrite <- IH. destruct x; reflexivity.
Qed.

Lemma P_map m : Forall (fun kv => P (snd kv)) m -> P (VMap m).
Proof.
  intros HF c H. rewrite format_map_eq in H.
  apply in_app_or in H. destruct H as [[<-|[]]|H]; [right; reflexivity|].
  apply in_app_or in H. destruct H as [H|[<-|[]]]; [|right; reflexivity].
  destruct (join_with_in _ _ _ H) as [Hs|(x & Hx & Hc)]; [right; exact (ascii_lit s_comma_sp c eq_refl Hs)|].
  apply in_map_iff in Hx. destruct Hx as ([k es] & <- & He). cbn [fst snd] in Hc.
  apply sort_entries_in in He. unfold entries_of in He. apply in_map_iff in He.
  destruct He as ([k' v] & Heq & Hkv). cbn [fst snd] in Heq. injection Heq as -> <-.
  rewrite Forall_forall in HF. specialize (HF _ Hkv). cbn [snd] in HF.
  assert (Hin : forall d, In d (key_scalars k ++ value_scalars v) -> In d (value_scalars (VMap m))).
  { intros d Hd. cbn [value_scalars]. apply in_flat_map. exists (k, v). split; [exact Hkv|exact Hd]. }
  apply in_app_or in Hc. destruct Hc as [Hc|Hc].
  - destruct (format_key_scalars _ _ Hc) as [Hi|Ha]; [left; apply Hin; apply in_or_app; left; exact Hi|right; exact Ha].
  - apply in_app_or in Hc. destruct Hc as [Hc|Hc]; [right; exact (ascii_lit s_colon_sp c eq_refl Hc)|].
    destruct (elem_scalars v HF _ Hc) as [Hi|Ha]; [left; apply Hin; apply in_or_app; right; exact Hi|right; exact Ha].
Qed.

Lemma format_value_scalars : forall v c, In c (format_value v) -> In c (value_scalars v) \/ (c < 128)%N.
Proof.
  fix IH 1. intros v. destruct v as [| |b|r z|f|s safe|l|m|b].
  - intros c [].
  - intros c [].
  - intros c H. right. destruct b; cbn in H; repeat (destruct H as [<-|H]; [reflexivity|]); destruct H.
  - intros c H. right. exact (z_to_str_ascii _ _ H).
  - intros c H. right. exact (ascii_lit s_float_placeholder c eq_refl H).
  - intros c H. left. exact H.
  - apply P_arr.
    exact ((fix go (l : list value) : Forall P l :=
              match l with [] => Forall_nil _ | x :: t => Forall_cons x (IH x) (go t) end) l).
  - apply P_map.
    exact ((fix go (m : list (key * value)) : Forall (fun kv => P (snd kv)) m :=
              match m with
              | [] => Forall_nil _
              | kx :: t => Forall_cons kx (IH (snd kx)) (go t)
              end) m).
  - intros c H. left. exact H.
Qed.

Lemma esc_lookup_scalars : forall tbl x c,
  forallb (fun kr => forallb (fun d => d <? 128)%N (snd kr)) tbl = true ->
  In c (esc_lookup tbl x) -> c = x \/ ascii c.
Proof.
  induction tbl as [|[k r] t IH]; intros x c Ht H; cbn [esc_lookup] in H.
  - destruct H as [<-|[]]. left. reflexivity.
  - cbn [forallb snd] in Ht. apply andb_prop in Ht. destruct Ht as [H1 H2].
    destruct (k =? x)%N; [right; exact (ascii_lit r c H1 H)|exact (IH _ _ H2 H)].
Qed.

(* the generated byte map (utils.rs escape_html, re-extracted on every run) only emits ASCII *)
Lemma escape_html_scalars s c : In c (escape_html s) -> In c s \/ (c < 128)%N.
Proof.
  unfold escape_html. intros H. apply in_flat_map in H. destruct H as (x & Hx & Hc).
  destruct (esc_lookup_scalars escape_html_map x c eq_refl Hc) as [->|Ha]; [left; exact Hx|right; exact Ha].
Qed.

Lemma written_scalars v c : In c (escape_html (format_value v)) -> In c (value_scalars v) \/ (c < 128)%N.
Proof.
  intros H. destruct (escape_html_scalars _ _ H) as [H'|Ha]; [exact (format_value_scalars _ _ H')|right; exact Ha].
Qed.
