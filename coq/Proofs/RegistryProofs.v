(* Proofs for C10/C11 about Model/Registry.v against Spec/Graph.v. *)
From Coq Require Import List NArith Bool Arith Lia Permutation.
From TeraV Require Import Model.Registry Spec.Graph.
Import ListNotations.

(* ================================================================== names *)

Lemma name_cmp_refl a : name_cmp a a = Eq.
Proof. induction a as [|x a IH]; simpl; auto. rewrite N.compare_refl. exact IH. Qed.

Lemma name_cmp_eq a : forall b, name_cmp a b = Eq -> a = b.
Proof.
  induction a as [|x a IH]; intros [|y b] H; simpl in H; try discriminate; auto.
  destruct (N.compare x y) eqn:E; try discriminate.
  apply N.compare_eq in E. subst. f_equal. auto.
Qed.

Lemma name_eqb_eq a b : name_eqb a b = true <-> a = b.
Proof.
  unfold name_eqb. split.
  - destruct (name_cmp a b) eqn:E; try discriminate. intros _. apply name_cmp_eq; auto.
  - intros ->. rewrite name_cmp_refl. reflexivity.
Qed.

Lemma name_eqb_refl a : name_eqb a a = true.
Proof. apply name_eqb_eq. reflexivity. Qed.

Lemma name_eqb_neq a b : name_eqb a b = false <-> a <> b.
Proof.
  split.
  - intros H E. apply name_eqb_eq in E. congruence.
  - intros H. destruct (name_eqb a b) eqn:E; auto. apply name_eqb_eq in E. contradiction.
Qed.

Lemma name_cmp_antisym a : forall b, name_cmp b a = CompOpp (name_cmp a b).
Proof.
  induction a as [|x a IH]; intros [|y b]; simpl; auto.
  rewrite (N.compare_antisym x y). destruct (N.compare x y); simpl; auto.
Qed.

Lemma name_cmp_lt_trans a : forall b c, name_cmp a b = Lt -> name_cmp b c = Lt -> name_cmp a c = Lt.
Proof.
  induction a as [|x a IH]; intros [|y b] [|z c] H1 H2; simpl in *; try discriminate; auto.
  destruct (N.compare x y) eqn:E1; try discriminate.
  - apply N.compare_eq in E1. subst y.
    destruct (N.compare x z) eqn:E2; try discriminate; auto. eauto.
  - destruct (N.compare y z) eqn:E2; try discriminate.
    + apply N.compare_eq in E2. subst z. rewrite E1. reflexivity.
    + assert (N.compare x z = Lt) as ->; auto.
      apply N.compare_lt_iff. apply N.compare_lt_iff in E1. apply N.compare_lt_iff in E2.
      eapply N.lt_trans; eauto.
Qed.

Lemma name_eqb_sym a b : name_eqb a b = name_eqb b a.
Proof.
  destruct (name_eqb a b) eqn:E.
  - apply name_eqb_eq in E. subst. symmetry. apply name_eqb_refl.
  - destruct (name_eqb b a) eqn:E2; auto. apply name_eqb_eq in E2. subst.
    rewrite name_eqb_refl in E. discriminate.
Qed.

Lemma nmem_In x l : nmem x l = true <-> In x l.
Proof.
  unfold nmem. rewrite existsb_exists. split.
  - intros [y [Hy E]]. apply name_eqb_eq in E. subst. auto.
  - intros H. exists x. split; auto. apply name_eqb_refl.
Qed.

Lemma ninsert_In x y l : In y (ninsert x l) <-> y = x \/ In y l.
Proof.
  induction l as [|z l IH]; simpl.
  - intuition.
  - destruct (name_cmp x z) eqn:E; simpl.
    + apply name_cmp_eq in E. subst. intuition.
    + intuition.
    + rewrite IH. intuition.
Qed.

Lemma nsort_In y l : In y (nsort l) <-> In y l.
Proof.
  unfold nsort. induction l as [|x l IH]; simpl; [tauto|].
  rewrite ninsert_In, IH. intuition.
Qed.

(* ================================================================== maps *)

Section MapFacts.
  Context {V : Type}.
  Implicit Types m : fmap V.

  Lemma mfind_In k m v : mfind k m = Some v -> In (k, v) m.
  Proof.
    induction m as [|[k' v'] m IH]; simpl; [discriminate|].
    destruct (name_eqb k k') eqn:E.
    - apply name_eqb_eq in E. subst. intros [= ->]. auto.
    - auto.
  Qed.

  Lemma mfind_keys k m v : mfind k m = Some v -> In k (mkeys m).
  Proof. intros H. apply mfind_In in H. apply (in_map fst) in H. exact H. Qed.

  Lemma mfind_none_keys k m : mfind k m = None <-> ~ In k (mkeys m).
  Proof.
    induction m as [|[k' v'] m IH]; simpl; [tauto|].
    destruct (name_eqb k k') eqn:E.
    - apply name_eqb_eq in E. subst. split; [discriminate|]. intros H. exfalso. auto.
    - apply name_eqb_neq in E. rewrite IH. intuition.
  Qed.

  Lemma mmem_keys k m : mmem k m = true <-> In k (mkeys m).
  Proof.
    unfold mmem. destruct (mfind k m) eqn:E.
    - apply mfind_keys in E. tauto.
    - apply mfind_none_keys in E. split; [discriminate|tauto].
  Qed.

  (* all keys of a sorted tail are above the head *)
  Lemma msorted_above k v m :
    msorted ((k, v) :: m) -> forall k', In k' (mkeys m) -> name_cmp k k' = Lt.
  Proof.
    revert k v. induction m as [|[k1 v1] m IH]; intros k v H k' Hin; simpl in *; [tauto|].
    destruct H as [H1 H2]. destruct Hin as [<-|Hin]; auto.
    eapply name_cmp_lt_trans; eauto.
  Qed.

  Lemma msorted_tail k v m : msorted ((k, v) :: m) -> msorted m.
  Proof. simpl. tauto. Qed.

  Lemma mfind_below k k' v' m :
    msorted ((k', v') :: m) -> name_cmp k k' = Lt -> mfind k ((k', v') :: m) = None.
  Proof.
    intros Hs Hlt. apply mfind_none_keys. simpl. intros [E|Hin].
    - subst. rewrite name_cmp_refl in Hlt. discriminate.
    - pose proof (msorted_above _ _ _ Hs _ Hin) as H.
      pose proof (name_cmp_lt_trans _ _ _ Hlt H) as H2.
      rewrite name_cmp_refl in H2. discriminate.
  Qed.

  Lemma minsert_sorted k v m : msorted m -> msorted (minsert k v m).
  Proof.
    induction m as [|[k1 v1] m IH]; intros Hs; [simpl; auto|].
    cbn [minsert]. destruct (name_cmp k k1) eqn:E.
    - apply name_cmp_eq in E. subst. exact Hs.
    - change (name_cmp k k1 = Lt /\ msorted ((k1, v1) :: m)). split; auto.
    - pose proof (msorted_tail _ _ _ Hs) as Ht. specialize (IH Ht).
      change (match minsert k v m with [] => True | (k', _) :: _ => name_cmp k1 k' = Lt end
              /\ msorted (minsert k v m)).
      split; auto.
      destruct m as [|[k2 v2] m']; cbn [minsert].
      + rewrite name_cmp_antisym, E. reflexivity.
      + destruct Hs as [H12 _]. destruct (name_cmp k k2); auto.
        * rewrite name_cmp_antisym, E. reflexivity.
        * rewrite name_cmp_antisym, E. reflexivity.
  Qed.

  Lemma mremove_sorted k m : msorted m -> msorted (mremove k m).
  Proof.
    induction m as [|[k1 v1] m IH]; intros Hs; simpl; auto.
    destruct (name_eqb k k1).
    - eapply msorted_tail; eauto.
    - pose proof (msorted_tail _ _ _ Hs) as Ht. specialize (IH Ht).
      simpl. split; auto.
      destruct (mremove k m) as [|[k2 v2] r] eqn:Er; auto.
      apply (msorted_above _ _ _ Hs).
      assert (In k2 (mkeys (mremove k m))) as Hin by (rewrite Er; simpl; auto).
      clear - Hin. induction m as [|[a b] m IH]; simpl in *; auto.
      destruct (name_eqb k a); simpl in *; tauto.
  Qed.

  Lemma mfind_minsert_same k v m : mfind k (minsert k v m) = Some v.
  Proof.
    induction m as [|[k1 v1] m IH]; simpl.
    - rewrite name_eqb_refl. reflexivity.
    - destruct (name_cmp k k1) eqn:E; simpl.
      + rewrite name_eqb_refl. reflexivity.
      + rewrite name_eqb_refl. reflexivity.
      + unfold name_eqb at 1. rewrite E. exact IH.
  Qed.

  Lemma mfind_minsert_other k k' v m : k' <> k -> mfind k' (minsert k v m) = mfind k' m.
  Proof.
    intros Hne. induction m as [|[k1 v1] m IH]; simpl.
    - apply name_eqb_neq in Hne. rewrite Hne. reflexivity.
    - destruct (name_cmp k k1) eqn:E; simpl.
      + apply name_cmp_eq in E. subst k1. apply name_eqb_neq in Hne. rewrite Hne. reflexivity.
      + apply name_eqb_neq in Hne. rewrite Hne. reflexivity.
      + rewrite IH. reflexivity.
  Qed.

  (* HashMap laws used by the undo list *)
  Lemma mremove_minsert k v m : mfind k m = None -> mremove k (minsert k v m) = m.
  Proof.
    induction m as [|[k1 v1] m IH]; simpl; intros H.
    - rewrite name_eqb_refl. reflexivity.
    - destruct (name_eqb k k1) eqn:E; [discriminate|].
      destruct (name_cmp k k1) eqn:C; simpl.
      + unfold name_eqb in E. rewrite C in E. discriminate.
      + rewrite name_eqb_refl. reflexivity.
      + rewrite E. f_equal. auto.
  Qed.

  Lemma minsert_minsert k v old m :
    msorted m -> mfind k m = Some old -> minsert k old (minsert k v m) = m.
  Proof.
    induction m as [|[k1 v1] m IH]; simpl; intros Hs H; [discriminate|].
    destruct (name_cmp k k1) eqn:C.
    - unfold name_eqb in H. rewrite C in H. injection H as ->.
      apply name_cmp_eq in C. subst. simpl. rewrite name_cmp_refl. reflexivity.
    - exfalso. pose proof (mfind_below k k1 v1 m Hs C) as Hn. simpl in Hn.
      rewrite Hn in H. discriminate.
    - unfold name_eqb in H. rewrite C in H. simpl. rewrite C. f_equal.
      apply IH; auto. simpl in Hs. tauto.
  Qed.

  Lemma minsert_same_twice k v v' m : minsert k v' (minsert k v m) = minsert k v' m.
  Proof.
    induction m as [|[k1 v1] m IH]; simpl.
    - rewrite name_cmp_refl. reflexivity.
    - destruct (name_cmp k k1) eqn:C; simpl.
      + rewrite name_cmp_refl. reflexivity.
      + rewrite name_cmp_refl. reflexivity.
      + rewrite C. f_equal. exact IH.
  Qed.

  (* two sorted lists with the same lookups are equal: the representation is canonical *)
  Lemma msorted_ext m1 : forall m2,
    msorted m1 -> msorted m2 -> (forall k, mfind k m1 = mfind k m2) -> m1 = m2.
  Proof.
    induction m1 as [|[k1 v1] m1 IH]; intros [|[k2 v2] m2] H1 H2 Hf; auto.
    - specialize (Hf k2). simpl in Hf. rewrite name_eqb_refl in Hf. discriminate.
    - specialize (Hf k1). simpl in Hf. rewrite name_eqb_refl in Hf. discriminate.
    - assert (k1 = k2 /\ v1 = v2) as [-> ->].
      { destruct (name_cmp k1 k2) eqn:C.
        - apply name_cmp_eq in C. subst. specialize (Hf k2). simpl in Hf.
          rewrite name_eqb_refl in Hf. injection Hf as ->. auto.
        - pose proof (mfind_below k1 k2 v2 m2 H2 C) as Hn.
          specialize (Hf k1). rewrite Hn in Hf. simpl in Hf. rewrite name_eqb_refl in Hf. discriminate.
        - assert (name_cmp k2 k1 = Lt) as C' by (rewrite name_cmp_antisym, C; reflexivity).
          pose proof (mfind_below k2 k1 v1 m1 H1 C') as Hn.
          specialize (Hf k2). rewrite Hn in Hf. simpl in Hf. rewrite name_eqb_refl in Hf. discriminate. }
      f_equal. apply IH; [eapply msorted_tail; eauto | eapply msorted_tail; eauto |].
      intros k. specialize (Hf k). simpl in Hf.
      destruct (name_eqb k k2) eqn:E; auto.
      apply name_eqb_eq in E. subst k.
      assert (mfind k2 m1 = None) as ->.
      { apply mfind_none_keys. intros Hin. pose proof (msorted_above _ _ _ H1 _ Hin) as H.
        rewrite name_cmp_refl in H. discriminate. }
      symmetry. apply mfind_none_keys. intros Hin. pose proof (msorted_above _ _ _ H2 _ Hin) as H.
      rewrite name_cmp_refl in H. discriminate.
  Qed.
End MapFacts.

(* ================================================================== resolve_spec *)

Section ResolveSpec.
  Context {V : Type}.
  Variable m : fmap V.
  Definition has (n : name) : Prop := In n (mkeys m).

  Lemma resolve_pre_some pre n r :
    resolve_pre pre m n = Some r ->
    exists l1 p l2, pre = l1 ++ p :: l2 /\ (forall q, In q l1 -> ~ has (q ++ n)) /\
                    has (p ++ n) /\ r = p ++ n.
  Proof.
    induction pre as [|p pre IH]; simpl; [discriminate|].
    destruct (mmem (p ++ n) m) eqn:E.
    - intros [= <-]. exists [], p, pre.
      split; [reflexivity|]. split; [intros q []|]. split; [|reflexivity].
      apply mmem_keys. exact E.
    - intros H. destruct (IH H) as (l1 & p' & l2 & -> & Hn & Hh & ->).
      exists (p :: l1), p', l2.
      split; [reflexivity|]. split; [|split; [exact Hh|reflexivity]].
      intros q [<-|Hq]; auto. intros Hh'. apply mmem_keys in Hh'. congruence.
  Qed.

  Lemma resolve_pre_none pre n :
    resolve_pre pre m n = None <-> forall p, In p pre -> ~ has (p ++ n).
  Proof.
    induction pre as [|p pre IH]; simpl.
    - split; [intros _ p Hp; destruct Hp | reflexivity].
    - destruct (mmem (p ++ n) m) eqn:E.
      + split; [discriminate|]. intros H. exfalso. apply (H p); auto. apply mmem_keys. exact E.
      + rewrite IH. split.
        * intros H q [<-|Hq]; auto. intros Hh. apply mmem_keys in Hh. congruence.
        * intros H q Hq. apply H. auto.
  Qed.

  (* exact name first, then the prefixes in order *)
  Theorem resolve_spec pre n r :
    resolve pre m n = Some r <-> resolves has pre n r.
  Proof.
    unfold resolve. split.
    - destruct (mmem n m) eqn:E.
      + intros [= <-]. apply res_exact. apply mmem_keys. exact E.
      + intros H. destruct (resolve_pre_some _ _ _ H) as (l1 & p & l2 & Hp & Hn & Hh & ->).
        eapply res_prefix; eauto. intros Hh'. apply mmem_keys in Hh'. congruence.
    - intros H. destruct H as [Hh | l1 p l2 Hn Hp Hq Hh].
      + apply mmem_keys in Hh. rewrite Hh. reflexivity.
      + assert (mmem n m = false) as -> by (destruct (mmem n m) eqn:E; auto; apply mmem_keys in E; contradiction).
        subst pre. clear Hn. induction l1 as [|q l1 IH]; simpl.
        * apply mmem_keys in Hh. rewrite Hh. reflexivity.
        * assert (mmem (q ++ n) m = false) as ->.
          { destruct (mmem (q ++ n) m) eqn:E; auto. apply mmem_keys in E. exfalso. apply (Hq q); simpl; auto. }
          apply IH. intros q' Hq'. apply Hq. simpl. auto.
  Qed.

  Theorem resolve_none_spec pre n :
    resolve pre m n = None <-> dangling has pre n.
  Proof.
    unfold resolve, dangling. destruct (mmem n m) eqn:E.
    - split; [discriminate|]. intros [H _]. exfalso. apply H. apply mmem_keys. exact E.
    - rewrite resolve_pre_none. split.
      + intros H. split; auto. intros Hh. apply mmem_keys in Hh. congruence.
      + tauto.
  Qed.

  Lemma resolve_in_keys pre n r : resolve pre m n = Some r -> In r (mkeys m).
  Proof.
    intros H. apply resolve_spec in H. destruct H; auto.
  Qed.
End ResolveSpec.

(* ================================================================== cycle walk *)

Lemma NoDup_snoc {A} (l : list A) (x : A) : NoDup l -> ~ In x l -> NoDup (l ++ [x]).
Proof.
  induction l as [|y l IH]; intros Hnd Hni; simpl.
  - constructor; [intros []|constructor].
  - inversion Hnd as [|? ? Hy Hl]; subst. constructor.
    + intros Hin. apply in_app_or in Hin. destruct Hin as [Hin|[<-|[]]]; auto.
      apply Hni. simpl. auto.
    + apply IH; auto. intros Hin. apply Hni. simpl. auto.
Qed.

Section DFSProofs.
  Context {A : Type} (eqb : A -> A -> bool) (succ : A -> list A).
  Hypothesis eqb_spec : forall x y, eqb x y = true <-> x = y.

  Definition edge (x y : A) : Prop := In y (succ x).
  Notation path := (path edge).
  Notation reach := (reach edge).
  Notation on_cycle := (on_cycle edge).

  Lemma amem_In x l : amem eqb x l = true <-> In x l.
  Proof.
    unfold amem. rewrite existsb_exists. split.
    - intros [y [Hy E]]. apply eqb_spec in E. subst. auto.
    - intros H. exists x. split; auto. apply eqb_spec. reflexivity.
  Qed.

  Lemma amem_false x l : amem eqb x l = false <-> ~ In x l.
  Proof.
    rewrite <- amem_In. destruct (amem eqb x l); split; intros H; congruence.
  Qed.

  Lemma path_app x l1 y l2 z : path x l1 y -> path y l2 z -> path x (l1 ++ l2) z.
  Proof. induction 1; simpl; auto. intros. econstructor; eauto. Qed.

  Lemma reach_refl x : reach x x.
  Proof. exists []. constructor. Qed.

  Lemma reach_step x y z : reach x y -> edge y z -> reach x z.
  Proof.
    intros [l Hl] He. exists (l ++ [z]). eapply path_app; eauto.
    econstructor; eauto. constructor.
  Qed.

  Lemma reach_trans x y z : reach x y -> reach y z -> reach x z.
  Proof. intros [l1 H1] [l2 H2]. exists (l1 ++ l2). eapply path_app; eauto. Qed.

  (* ---------------- Err => a cycle, reachable from the start *)

  Section Sound.
    Variable start : A.
    Definition sound_rec (rec : A -> list A -> list A -> rres (list A)) : Prop :=
      forall r st v,
        rec r st v = Err EkCircularInclude ->
        In r st ->
        (forall s, In s st -> reach s r) -> (forall s, In s st -> reach start s) ->
        leads_to_cycle edge start.

    Lemma dfs_loop_sound rec stack cur :
      sound_rec rec ->
      In cur stack ->
      (forall s, In s stack -> reach s cur) -> (forall s, In s stack -> reach start s) ->
      forall ns visited,
        incl ns (succ cur) ->
        dfs_loop eqb rec stack ns visited = Err EkCircularInclude ->
        leads_to_cycle edge start.
    Proof.
      intros Hrec Hcs Hs1 Hs2. induction ns as [|r rest IH]; intros visited Hincl H; simpl in H.
      - discriminate.
      - assert (edge cur r) as Her by (apply Hincl; simpl; auto).
        assert (incl rest (succ cur)) as Hincl' by (intros z Hz; apply Hincl; simpl; auto).
        destruct (amem eqb r stack) eqn:E1.
        + apply amem_In in E1. exists r. split; [apply Hs2; auto|].
          destruct (Hs1 _ E1) as [l Hl]. exists (l ++ [r]). split.
          * destruct l; discriminate.
          * eapply path_app; eauto. econstructor; eauto. constructor.
        + destruct (amem eqb r visited) eqn:E2; [eauto|].
          destruct (rec r (stack ++ [r]) visited) as [v'|e] eqn:E3.
          * eauto.
          * injection H as ->. eapply Hrec; eauto.
            -- apply in_or_app. right. simpl. auto.
            -- intros s Hin. apply in_app_or in Hin. destruct Hin as [Hin|[<-|[]]].
               ++ eapply reach_step; eauto.
               ++ apply reach_refl.
            -- intros s Hin. apply in_app_or in Hin. destruct Hin as [Hin|[<-|[]]]; auto.
               eapply reach_step; eauto.
    Qed.

    Lemma dfs_walk_sound fuel : sound_rec (dfs_walk eqb succ fuel).
    Proof.
      induction fuel as [|f IH]; intros r st v H Hin Hs1 Hs2; simpl in H; [discriminate|].
      eapply (dfs_loop_sound _ st r IH); eauto. apply incl_refl.
    Qed.
  End Sound.

  Theorem dfs_check_err_cycle fuel t :
    dfs_check eqb succ fuel t = Err EkCircularInclude -> leads_to_cycle edge t.
  Proof.
    unfold dfs_check. intros H. eapply (dfs_walk_sound t); eauto.
    - simpl; auto.
    - intros s [<-|[]]. apply reach_refl.
    - intros s [<-|[]]. apply reach_refl.
  Qed.

  (* ---------------- Ok => nothing reachable lies on a cycle (grey/black invariant) *)

  Definition closed (v : list A) : Prop := forall x, In x v -> forall y, edge x y -> In y v.
  Definition clean (v : list A) : Prop := forall x, In x v -> ~ on_cycle x.
  Definition disjoint (a b : list A) : Prop := forall x, In x a -> ~ In x b.

  Lemma closed_path v x l y : closed v -> In x v -> path x l y -> In y v.
  Proof. intros Hc Hx Hp. induction Hp; auto. apply IHHp. eapply Hc; eauto. Qed.

  Definition ok_rec (rec : A -> list A -> list A -> rres (list A)) : Prop :=
    forall r st v v',
      rec r st v = Ok v' -> In r st -> disjoint st v -> closed v -> clean v ->
      closed v' /\ clean v' /\ incl v v' /\ (forall y, edge r y -> In y v') /\ disjoint st v'.

  Lemma dfs_loop_ok rec stack :
    ok_rec rec ->
    forall ns visited v',
      dfs_loop eqb rec stack ns visited = Ok v' ->
      disjoint stack visited -> closed visited -> clean visited ->
      closed v' /\ clean v' /\ incl visited v' /\ (forall y, In y ns -> In y v') /\ disjoint stack v'.
  Proof.
    intros Hrec. induction ns as [|r rest IH]; intros visited v' H Hd Hc Hcl; simpl in H.
    - injection H as <-. repeat split; auto. apply incl_refl. intros y [].
    - destruct (amem eqb r stack) eqn:E1; [discriminate|].
      apply amem_false in E1.
      destruct (amem eqb r visited) eqn:E2.
      + apply amem_In in E2. destruct (IH _ _ H Hd Hc Hcl) as (A1 & A2 & A3 & A4 & A5).
        repeat split; auto. intros y [<-|Hy]; auto.
      + apply amem_false in E2.
        destruct (rec r (stack ++ [r]) visited) as [v1|e] eqn:E3; [|discriminate].
        assert (disjoint (stack ++ [r]) visited) as Hd1.
        { intros x Hx. apply in_app_or in Hx. destruct Hx as [Hx|[<-|[]]]; auto. }
        assert (In r (stack ++ [r])) as Hrin by (apply in_or_app; right; simpl; auto).
        destruct (Hrec _ _ _ _ E3 Hrin Hd1 Hc Hcl) as (B1 & B2 & B3 & B4 & B5).
        assert (~ In r v1) as Hr1.
        { apply B5. apply in_or_app. right. simpl. auto. }
        assert (closed (r :: v1)) as C1.
        { intros x [<-|Hx] y Hy; simpl; auto. right. eapply B1; eauto. }
        assert (clean (r :: v1)) as C2.
        { intros x [<-|Hx]; auto. intros [l [Hne Hp]].
          inversion Hp as [|? y l' ? He Hp']; subst; [congruence|].
          apply Hr1. eapply closed_path; [exact B1|apply B4; exact He|exact Hp']. }
        assert (disjoint stack (r :: v1)) as C3.
        { intros x Hx [<-|Hx']; auto. apply (B5 x); auto. apply in_or_app. auto. }
        destruct (IH _ _ H C3 C1 C2) as (A1 & A2 & A3 & A4 & A5).
        repeat split; auto.
        * intros x Hx. apply A3. simpl. auto.
        * intros y [<-|Hy]; auto. apply A3. simpl. auto.
  Qed.

  Lemma dfs_walk_ok fuel : ok_rec (dfs_walk eqb succ fuel).
  Proof.
    induction fuel as [|f IH]; intros r st v v' H Hin Hd Hc Hcl; simpl in H; [discriminate|].
    destruct (dfs_loop_ok _ st IH _ _ _ H Hd Hc Hcl) as (A1 & A2 & A3 & A4 & A5).
    repeat split; auto.
  Qed.

  Theorem dfs_check_ok_clean fuel t v :
    dfs_check eqb succ fuel t = Ok v -> forall x, reach t x -> ~ on_cycle x.
  Proof.
    unfold dfs_check. intros H.
    assert (disjoint [t] []) as Hd by (intros x _ []).
    assert (closed []) as Hc by (intros x []).
    assert (clean []) as Hcl by (intros x []).
    destruct (dfs_walk_ok fuel _ _ _ _ H (or_introl eq_refl) Hd Hc Hcl) as (A1 & A2 & _ & A4 & A5).
    assert (~ on_cycle t) as Ht.
    { intros [l [Hne Hp]]. inversion Hp as [|? y l' ? He Hp']; subst; [congruence|].
      apply (A5 t); simpl; auto. eapply closed_path; [exact A1|apply A4; exact He|exact Hp']. }
    intros x [l Hp]. inversion Hp as [|? y l' ? He Hp']; subst; auto.
    apply A2. eapply closed_path; [exact A1|apply A4; exact He|exact Hp'].
  Qed.

  (* ---------------- the walk fails only with a cycle or for lack of fuel *)

  Definition only_rec (rec : A -> list A -> list A -> rres (list A)) : Prop :=
    forall r st v e, rec r st v = Err e -> e = EkCircularInclude \/ e = EkFuel.

  Lemma dfs_loop_only rec stack : only_rec rec -> forall ns v e,
    dfs_loop eqb rec stack ns v = Err e -> e = EkCircularInclude \/ e = EkFuel.
  Proof.
    intros Hrec. induction ns as [|r rest IH]; intros v e H; simpl in H; [discriminate|].
    destruct (amem eqb r stack); [injection H as <-; auto|].
    destruct (amem eqb r v); [eauto|].
    destruct (rec r (stack ++ [r]) v) eqn:E; [eauto|].
    injection H as <-. eauto.
  Qed.

  Lemma dfs_walk_only fuel : only_rec (dfs_walk eqb succ fuel).
  Proof.
    induction fuel as [|f IH]; intros r st v e H; simpl in H.
    - injection H as <-. auto.
    - eapply dfs_loop_only; eauto.
  Qed.

  (* ---------------- fuel: the stack never repeats a node *)

  Section Fuel.
    Variable U : list A.
    Hypothesis succ_closed : forall x y, edge x y -> In y U.

    Definition fuel_rec (k : nat) (rec : A -> list A -> list A -> rres (list A)) : Prop :=
      forall r st v, NoDup st -> incl st U -> length U < k + length st -> rec r st v <> Err EkFuel.

    Lemma dfs_loop_fuel k rec stack cur :
      fuel_rec k rec -> NoDup stack -> incl stack U -> length U < S k + length stack ->
      forall ns v, incl ns (succ cur) -> dfs_loop eqb rec stack ns v <> Err EkFuel.
    Proof.
      intros Hrec Hnd Hin Hlen. induction ns as [|r rest IH]; intros v Hincl; simpl; [discriminate|].
      assert (incl rest (succ cur)) as Hincl' by (intros z Hz; apply Hincl; simpl; auto).
      destruct (amem eqb r stack) eqn:E1; [discriminate|].
      destruct (amem eqb r v); [auto|].
      apply amem_false in E1.
      destruct (rec r (stack ++ [r]) v) eqn:E; [auto|].
      intros [= ->]. revert E. apply Hrec.
      - apply NoDup_snoc; auto.
      - intros x Hx. apply in_app_or in Hx. destruct Hx as [Hx|[<-|[]]]; auto.
        eapply succ_closed. apply Hincl. simpl. auto.
      - rewrite app_length. simpl. lia.
    Qed.

    Lemma dfs_walk_fuel k : fuel_rec k (dfs_walk eqb succ k).
    Proof.
      induction k as [|k IH]; intros r st v Hnd Hin Hlen.
      - exfalso. pose proof (NoDup_incl_length Hnd Hin). simpl in Hlen. lia.
      - simpl. eapply dfs_loop_fuel; eauto. apply incl_refl.
    Qed.

    Lemma path_last_in x l y : path x l y -> l <> [] -> In y U.
    Proof.
      induction 1 as [|x y l z He Hp IH]; intros Hne; [congruence|].
      destruct l as [|w l'].
      - inversion Hp; subst. eapply succ_closed; eauto.
      - apply IH. discriminate.
    Qed.

    Lemma path_incl x l y : path x l y -> incl l U.
    Proof.
      induction 1 as [|x y l z He Hp IH]; intros w Hw; [destruct Hw|].
      destruct Hw as [<-|Hw]; auto. eapply succ_closed; eauto.
    Qed.

    (* check_include_cycles succeeds for every start iff the relation has no cycle;
       fuel = number of nodes suffices *)
    Theorem dfs_spec fuel :
      length U <= fuel ->
      ((forall t, In t U -> exists v, dfs_check eqb succ fuel t = Ok v) <-> acyclic edge).
    Proof.
      intros Hf. split.
      - intros H x Hc. assert (In x U) as Hx.
        { destruct Hc as [l [Hne Hp]]. eapply path_last_in; eauto. }
        destruct (H x Hx) as [v Hv].
        eapply dfs_check_ok_clean; eauto. apply reach_refl.
      - intros Hac t Ht. destruct (dfs_check eqb succ fuel t) as [v|e] eqn:E; [eauto|].
        exfalso. unfold dfs_check in E.
        destruct (dfs_walk_only _ _ _ _ _ E) as [-> | ->].
        + destruct (dfs_check_err_cycle fuel t E) as [y [_ Hy]]. exact (Hac y Hy).
        + revert E. apply dfs_walk_fuel.
          * constructor; [intros []|constructor].
          * intros z [<-|[]]. exact Ht.
          * simpl. lia.
    Qed.

    Theorem dfs_check_circular_iff fuel t :
      length U <= fuel -> In t U ->
      (dfs_check eqb succ fuel t = Err EkCircularInclude <-> leads_to_cycle edge t).
    Proof.
      intros Hf Ht. split; [apply dfs_check_err_cycle|].
      intros [y [Hr Hy]]. destruct (dfs_check eqb succ fuel t) as [v|e] eqn:E.
      - exfalso. eapply dfs_check_ok_clean; eauto.
      - unfold dfs_check in E. destruct (dfs_walk_only _ _ _ _ _ E) as [-> | ->]; auto.
        exfalso. revert E. apply dfs_walk_fuel.
        + constructor; [intros []|constructor].
        + intros z [<-|[]]. exact Ht.
        + simpl. lia.
    Qed.

    (* ---------------- ranks: the height of a node in an acyclic graph decreases along edges *)

    Lemma In_list_max a l : In a l -> a <= list_max l.
    Proof.
      induction l as [|b l IH]; intros Hin; [destruct Hin|].
      simpl. destruct Hin as [<-|Hin]; [lia|]. specialize (IH Hin). lia.
    Qed.

    Lemma list_max_witness n l : n < list_max l -> exists a, In a l /\ n < a.
    Proof.
      induction l as [|b l IH]; simpl; intros H; [lia|].
      destruct (Nat.max_dec b (list_max l)) as [E|E]; rewrite E in H.
      - exists b. auto.
      - destruct (IH H) as [a [Ha Hlt]]. exists a. auto.
    Qed.

    Lemma height_stable f : forall x, height succ f x < f -> height succ (S f) x = height succ f x.
    Proof.
      induction f as [|f IH]; intros x H; [lia|].
      cbn [height] in H.
      change (S (list_max (map (height succ (S f)) (succ x))) = S (list_max (map (height succ f) (succ x)))).
      f_equal. f_equal. apply map_ext_in. intros y Hy. apply IH.
      assert (height succ f y <= list_max (map (height succ f) (succ x))) by (apply In_list_max; apply in_map; auto).
      lia.
    Qed.

    Lemma height_path f : forall x k, k < height succ f x -> exists l y, path x l y /\ length l = k.
    Proof.
      induction f as [|f IH]; intros x k H; [simpl in H; lia|].
      destruct k as [|k].
      - exists [], x. split; [constructor|reflexivity].
      - cbn [height] in H. apply Nat.succ_lt_mono in H.
        destruct (list_max_witness _ _ H) as [a [Ha Hlt]].
        apply in_map_iff in Ha. destruct Ha as [y [<- Hy]].
        destruct (IH y k Hlt) as (l & z & Hp & Hl).
        exists (y :: l), z. split; [econstructor; eauto|simpl; congruence].
    Qed.

    Lemma path_split x l1 z l2 y : path x (l1 ++ z :: l2) y -> path x (l1 ++ [z]) z /\ path z l2 y.
    Proof.
      revert x. induction l1 as [|a l1 IH]; intros x H; simpl in *.
      - inversion H; subst. split; auto. econstructor; eauto. constructor.
      - inversion H; subst. destruct (IH _ H5) as [H1 H2]. split; auto. econstructor; eauto.
    Qed.

    Lemma acyclic_path_nodup : acyclic edge -> forall x l y, path x l y -> NoDup l.
    Proof.
      intros Hac x l y Hp. induction Hp as [|x y l z He Hp IH]; [constructor|].
      constructor; auto. intros Hin. apply in_split in Hin. destruct Hin as (l1 & l2 & ->).
      destruct (path_split _ _ _ _ _ Hp) as [H1 _].
      apply (Hac y). exists (l1 ++ [y]). split; [destruct l1; discriminate|exact H1].
    Qed.

    Lemma height_bound : acyclic edge -> forall f x, height succ f x <= S (length U).
    Proof.
      intros Hac f x. destruct (le_lt_dec (height succ f x) (S (length U))) as [|Hlt]; auto.
      exfalso. destruct (height_path f x (S (length U)) Hlt) as (l & y & Hp & Hl).
      pose proof (acyclic_path_nodup Hac _ _ _ Hp) as Hnd.
      pose proof (NoDup_incl_length Hnd (path_incl _ _ _ Hp)). lia.
    Qed.

    Definition rank (x : A) : nat := height succ (S (S (length U))) x.

    Theorem rank_decreases : acyclic edge -> forall x y, edge x y -> rank y < rank x.
    Proof.
      intros Hac x y He. unfold rank. set (F := S (S (length U))).
      assert (height succ (S F) x = height succ F x) as Hst.
      { apply height_stable. pose proof (height_bound Hac F x) as Hb. unfold F in *. lia. }
      rewrite <- Hst. cbn [height].
      assert (height succ F y <= list_max (map (height succ F) (succ x))) by (apply In_list_max; apply in_map; exact He).
      lia.
    Qed.

    Lemma rank_bound : acyclic edge -> forall x, rank x <= S (length U).
    Proof. intros Hac x. apply height_bound. exact Hac. Qed.
  End Fuel.
End DFSProofs.

(* ================================================================== C10: undo, atomicity, history *)

Lemma msorted_map_snd {V W} (g : name * V -> W) (m : fmap V) :
  msorted (map (fun p => (fst p, g p)) m) <-> msorted m.
Proof.
  induction m as [|[k v] m IH]; simpl; [tauto|].
  destruct m as [|[k2 v2] m']; simpl in *; tauto.
Qed.

Lemma sources_sorted m : msorted (sources m) <-> msorted m.
Proof. unfold sources. apply msorted_map_snd. Qed.

Lemma sources_minsert n e m : sources (minsert n e m) = minsert n (e_desc e) (sources m).
Proof.
  induction m as [|[k v] m IH]; simpl; auto.
  destruct (name_cmp n k); simpl; auto. rewrite IH. reflexivity.
Qed.

Lemma undo_snoc log kp m : undo (log ++ [kp]) m = undo log (undo_one m kp).
Proof. unfold undo. rewrite rev_app_distr. reflexivity. Qed.

Lemma undo_one_insert n e m :
  msorted m -> undo_one (minsert n e m) (n, mfind n m) = m.
Proof.
  intros Hs. unfold undo_one. simpl. destruct (mfind n m) as [old|] eqn:E.
  - apply minsert_minsert; auto.
  - apply mremove_minsert; auto.
Qed.

Lemma insert_all_undo b : forall m log ok m1 log1,
  msorted m -> insert_all m b log = (ok, m1, log1) ->
  undo log1 m1 = undo log m /\ msorted m1.
Proof.
  induction b as [|[n [t|]] b IH]; intros m log ok m1 log1 Hs H; simpl in H.
  - injection H as <- <- <-. auto.
  - apply IH in H; [|apply minsert_sorted; auto]. destruct H as [H1 H2]. split; auto.
    rewrite H1, undo_snoc, undo_one_insert; auto.
  - injection H as <- <- <-. auto.
Qed.

(* inserting a batch (duplicates allowed, possibly cut short by a syntax error) while recording
   the previous entries, then undoing in reverse, gives back the map *)
Theorem undo_restores m b ok m1 log :
  msorted m -> insert_all m b [] = (ok, m1, log) -> undo log m1 = m.
Proof. intros Hs H. apply insert_all_undo in H; auto. destruct H as [H _]. exact H. Qed.

Lemma with_tpls_same s : with_tpls s (st_tpls s) = s.
Proof. destruct s; reflexivity. Qed.

Theorem add_err_is_identity ev s b e s' :
  msorted (st_tpls s) -> add_batch ev s b = (Err e, s') -> s' = s.
Proof.
  intros Hs H. unfold add_batch in H.
  destruct (insert_all (st_tpls s) b []) as [[ok m1] log] eqn:E.
  pose proof (undo_restores _ _ _ _ _ Hs E) as Hu.
  destruct ok.
  - destruct (finalize ev (with_tpls s m1)) eqn:F; [discriminate|].
    injection H as _ <-. rewrite Hu. apply with_tpls_same.
  - injection H as _ <-. rewrite Hu. apply with_tpls_same.
Qed.

(* finalize returns the (name, descriptor) pairs it was given, with recomputed derived fields *)
Lemma finalize_src_sources ev sufs m tm comps :
  finalize_src ev sufs m = Ok (tm, comps) -> sources tm = m.
Proof.
  unfold finalize_src. intros H.
  destruct (first_loop ev m m [] [] []) as [[[par sz] tab]|]; [|discriminate].
  destruct (if ev_fix_d10 ev then _ else _); [|discriminate].
  destruct (negb _); [discriminate|].
  destruct (_ && _); [discriminate|].
  injection H as <- _. unfold sources. rewrite map_map. simpl.
  rewrite <- (map_id m) at 2. apply map_ext. intros [k v]. reflexivity.
Qed.

(* the autoescape suffixes only enter through the e_auto field *)
Lemma finalize_src_sufs ev sufs sufs' m :
  finalize_src ev sufs' m =
  match finalize_src ev sufs m with
  | Ok (tm, c) => Ok (set_auto sufs' tm, c)
  | Err e => Err e
  end.
Proof.
  unfold finalize_src.
  destruct (first_loop ev m m [] [] []) as [[[par sz] tab]|]; [|reflexivity].
  destruct (if ev_fix_d10 ev then _ else _); [|reflexivity].
  destruct (negb _); [reflexivity|].
  destruct (_ && _); [reflexivity|].
  f_equal. f_equal. unfold set_auto. rewrite map_map. apply map_ext. intros [k v]. reflexivity.
Qed.

Lemma sources_set_auto sufs m : sources (set_auto sufs m) = sources m.
Proof. unfold sources, set_auto. rewrite map_map. apply map_ext. intros [k v]. reflexivity. Qed.

Lemma set_auto_sorted sufs m : msorted (set_auto sufs m) <-> msorted m.
Proof. unfold set_auto. apply (msorted_map_snd (fun ne => _)). Qed.

(* the invariant: every field of the instance is the function `finalize` of the current
   (name, descriptor) set, the configuration and the current suffixes *)
Definition canonical (ev : env) (s : state) : Prop :=
  msorted (st_tpls s) /\ finalize ev s = Ok s.

Lemma canonical_init ev sufs : canonical ev (init sufs).
Proof.
  split; [exact I|]. unfold finalize, finalize_src, init. simpl.
  destruct (ev_fix_d10 ev); destruct (ev_fix_d13 ev); reflexivity.
Qed.

Lemma add_ok_canonical ev s b s' :
  msorted (st_tpls s) -> add_batch ev s b = (Ok tt, s') -> canonical ev s'.
Proof.
  intros Hs H. unfold add_batch in H.
  destruct (insert_all (st_tpls s) b []) as [[ok m1] log] eqn:E.
  destruct (insert_all_undo _ _ _ _ _ _ Hs E) as [_ Hs1].
  destruct ok; [|discriminate].
  destruct (finalize ev (with_tpls s m1)) as [s1|] eqn:F; [|discriminate].
  injection H as <-. unfold finalize in F. simpl in F.
  destruct (finalize_src ev (st_sufs s) (sources m1)) as [[tm comps]|] eqn:G; [|discriminate].
  injection F as <-. pose proof (finalize_src_sources _ _ _ _ _ G) as Hsrc.
  split; simpl.
  - apply sources_sorted. rewrite Hsrc. apply sources_sorted. exact Hs1.
  - unfold finalize. simpl. rewrite Hsrc, G. reflexivity.
Qed.

Lemma autoescape_canonical ev s sufs : canonical ev s -> canonical ev (autoescape_on s sufs).
Proof.
  intros [Hs Hf]. split; simpl.
  - apply set_auto_sorted. exact Hs.
  - unfold finalize in *. simpl. rewrite sources_set_auto.
    rewrite (finalize_src_sufs ev (st_sufs s) sufs).
    destruct (finalize_src ev (st_sufs s) (sources (st_tpls s))) as [[tm c]|]; [|discriminate].
    injection Hf as Hf. rewrite <- Hf. simpl. reflexivity.
Qed.

(* ---- add_template_file(s): the loop over files is the loop over the raw batch
   `files_batch fs` (key and source of every entry up to and including the first one that
   cannot be read or parsed); only the kind of the error differs *)
Lemma insert_files_as_batch fs : forall m log,
  insert_files m fs log =
  (files_first_err fs, snd (fst (insert_all m (files_batch fs) log)),
   snd (insert_all m (files_batch fs) log)) /\
  (fst (fst (insert_all m (files_batch fs) log)) = true <-> files_first_err fs = None).
Proof.
  induction fs as [|f fs IH]; intros m log.
  - simpl. split; [reflexivity|split; reflexivity].
  - cbn [insert_files files_batch files_first_err]. unfold add_file.
    destruct (fe_read f) as [ | | |[t|]]; cbn [insert_all fst snd];
      try (split; [reflexivity|split; discriminate]).
    apply IH.
Qed.

Theorem add_files_as_batch ev s fs :
  add_files ev s fs =
  (match files_first_err fs with
   | Some e => Err e
   | None => fst (add_batch ev s (files_batch fs))
   end,
   snd (add_batch ev s (files_batch fs))).
Proof.
  unfold add_files, add_batch.
  destruct (insert_files_as_batch fs (st_tpls s) []) as [-> Hok].
  destruct (insert_all (st_tpls s) (files_batch fs) []) as [[ok m1] log1]. cbn [fst snd] in *.
  destruct (files_first_err fs) as [e|].
  - destruct ok; [destruct Hok as [Hok _]; discriminate (Hok eq_refl)|]. reflexivity.
  - destruct ok; [|destruct Hok as [_ Hok]; discriminate (Hok eq_refl)].
    destruct (finalize ev (with_tpls s m1)); reflexivity.
Qed.

(* a file call that reports an error: the raw call on its batch reports one too *)
Lemma add_files_err_batch_err ev s fs e :
  fst (add_files ev s fs) = Err e -> exists e', fst (add_batch ev s (files_batch fs)) = Err e'.
Proof.
  rewrite add_files_as_batch. cbn [fst]. intros H.
  destruct (files_first_err fs) as [e0|] eqn:F; [|eauto].
  unfold add_batch. destruct (insert_files_as_batch fs (st_tpls s) []) as [_ Hok].
  destruct (insert_all (st_tpls s) (files_batch fs) []) as [[ok m1] log1]. cbn [fst snd] in *.
  destruct ok; [destruct Hok as [Hok _]; rewrite F in Hok; discriminate (Hok eq_refl)|].
  eexists. reflexivity.
Qed.

(* whatever fails -- a path that is not UTF-8, a file that cannot be opened or is not UTF-8,
   a syntax error, any error of finalize -- in whatever position of the batch: the instance is
   exactly what it was *)
Theorem add_files_err_is_identity ev s fs e s' :
  msorted (st_tpls s) -> add_files ev s fs = (Err e, s') -> s' = s.
Proof.
  intros Hs H.
  assert (fst (add_files ev s fs) = Err e) as H1 by (rewrite H; reflexivity).
  apply add_files_err_batch_err in H1. destruct H1 as [e' H1].
  rewrite add_files_as_batch in H. injection H as _ <-.
  destruct (add_batch ev s (files_batch fs)) as [r s1] eqn:E. cbn [fst snd] in *. subst r.
  eapply add_err_is_identity; eauto.
Qed.

Lemma add_files_ok_batch_ok ev s fs s' :
  add_files ev s fs = (Ok tt, s') -> add_batch ev s (files_batch fs) = (Ok tt, s').
Proof.
  rewrite add_files_as_batch. intros H. injection H as H1 H2.
  destruct (files_first_err fs); [discriminate|].
  destruct (add_batch ev s (files_batch fs)) as [r s1]. cbn [fst snd] in *. subst. reflexivity.
Qed.

Lemma add_files_ok_canonical ev s fs s' :
  msorted (st_tpls s) -> add_files ev s fs = (Ok tt, s') -> canonical ev s'.
Proof. intros Hs H. eapply add_ok_canonical; eauto using add_files_ok_batch_ok. Qed.

Inductive reachable (ev : env) : state -> Prop :=
| rch_init : forall sufs, reachable ev (init sufs)
| rch_step : forall s c, reachable ev s -> reachable ev (snd (step ev s c)).

(* induction over arbitrary histories: successful adds, failing adds of every kind (the
   error path is the same for all of them), autoescape_on *)
Theorem reachable_inv ev s : reachable ev s -> canonical ev s.
Proof.
  induction 1 as [sufs | s c Hr IH].
  - apply canonical_init.
  - destruct c as [b|sufs|fs]; simpl.
    + destruct (add_batch ev s b) as [[[]|e] s'] eqn:E; simpl.
      * eapply add_ok_canonical; eauto. apply IH.
      * apply add_err_is_identity in E; [|apply IH]. subst. exact IH.
    + apply autoescape_canonical. exact IH.
    + destruct (add_files ev s fs) as [[[]|e] s'] eqn:E; simpl.
      * eapply add_files_ok_canonical; eauto. apply IH.
      * apply add_files_err_is_identity in E; [|apply IH]. subst. exact IH.
Qed.

(* the (name, source) set a batch leaves behind *)
Definition override (m : smap) (b : list (name * source)) : smap :=
  fold_left (fun m p => match snd p with Some t => minsert (fst p) t m | None => m end) b m.

Lemma insert_all_sources b : forall m log m1 log1,
  insert_all m b log = (true, m1, log1) -> sources m1 = override (sources m) b.
Proof.
  induction b as [|[n [t|]] b IH]; intros m log m1 log1 H; simpl in H.
  - injection H as <- _. reflexivity.
  - apply IH in H. rewrite H. simpl. rewrite sources_minsert. reflexivity.
  - discriminate.
Qed.

(* a successful add leaves exactly the state that a fresh instance reaches when it is given
   the resulting (name, source) set in ONE batch b' -- in any order, with or without
   repetitions, as long as b' describes that set *)
Theorem add_ok_equals_fresh ev s b s' :
  msorted (st_tpls s) -> add_batch ev s b = (Ok tt, s') ->
  sources (st_tpls s') = override (sources (st_tpls s)) b /\
  forall b' m' log',
    insert_all [] b' [] = (true, m', log') -> sources m' = sources (st_tpls s') ->
    add_batch ev (init (st_sufs s)) b' = (Ok tt, s').
Proof.
  intros Hs H. pose proof (add_ok_canonical _ _ _ _ Hs H) as [Hs' Hf'].
  assert (st_sufs s' = st_sufs s) as Hsufs.
  { unfold add_batch in H. destruct (insert_all (st_tpls s) b []) as [[ok m1] log].
    destruct ok; [|discriminate]. destruct (finalize ev (with_tpls s m1)) as [s1|] eqn:F; [|discriminate].
    injection H as <-. unfold finalize in F. simpl in F.
    destruct (finalize_src _ _ _) as [[tm c]|]; [|discriminate]. injection F as <-. reflexivity. }
  split.
  - unfold add_batch in H. destruct (insert_all (st_tpls s) b []) as [[ok m1] log] eqn:E.
    destruct ok; [|discriminate]. destruct (finalize ev (with_tpls s m1)) as [s1|] eqn:F; [|discriminate].
    injection H as <-. unfold finalize in F. simpl in F.
    destruct (finalize_src _ _ _) as [[tm c]|] eqn:G; [|discriminate]. injection F as <-. simpl.
    rewrite (finalize_src_sources _ _ _ _ _ G). eapply insert_all_sources; eauto.
  - intros b' m' log' E Hsrc. unfold add_batch. simpl. rewrite E.
    unfold finalize in *. simpl. rewrite Hsrc, <- Hsufs.
    destruct (finalize_src ev (st_sufs s') (sources (st_tpls s'))) as [[tm c]|]; [|discriminate].
    injection Hf' as Hf'. rewrite <- Hf'. reflexivity.
Qed.

(* the file form: a successful add_template_files leaves the set `override old (files_batch fs)`
   and exactly the state a FRESH instance reaches when given that set in one call -- a raw batch
   b' or a list of files fs', in any order, with or without repetitions and explicit names *)
Theorem add_files_ok_equals_fresh ev s fs s' :
  msorted (st_tpls s) -> add_files ev s fs = (Ok tt, s') ->
  files_first_err fs = None /\
  sources (st_tpls s') = override (sources (st_tpls s)) (files_batch fs) /\
  (forall b' m' log',
     insert_all [] b' [] = (true, m', log') -> sources m' = sources (st_tpls s') ->
     add_batch ev (init (st_sufs s)) b' = (Ok tt, s')) /\
  (forall fs' m' log',
     insert_files [] fs' [] = (None, m', log') -> sources m' = sources (st_tpls s') ->
     add_files ev (init (st_sufs s)) fs' = (Ok tt, s')).
Proof.
  intros Hs H. pose proof (add_files_ok_batch_ok _ _ _ _ H) as Hb.
  destruct (add_ok_equals_fresh _ _ _ _ Hs Hb) as [Hsrc Hfresh].
  split; [|split; [exact Hsrc|split; [exact Hfresh|]]].
  - rewrite add_files_as_batch in H. destruct (files_first_err fs); [discriminate|reflexivity].
  - intros fs' m' log' E Hm.
    destruct (insert_files_as_batch fs' [] []) as [E1 Hok]. rewrite E in E1.
    injection E1 as F1 F2 F3.
    destruct (insert_all [] (files_batch fs') []) as [[ok m1] log1] eqn:E2. cbn [fst snd] in *.
    subst m1 log1. destruct Hok as [_ Hok]. rewrite (Hok (eq_sym F1)) in E2.
    rewrite add_files_as_batch, <- F1, (Hfresh _ _ _ E2 Hm). reflexivity.
Qed.

Lemma add_files_reachable ev s fs :
  reachable ev s -> reachable ev (snd (add_files ev s fs)) /\ canonical ev (snd (add_files ev s fs)).
Proof.
  intros Hr. assert (reachable ev (snd (add_files ev s fs))) as H.
  { exact (rch_step ev s (CAddFiles fs) Hr). }
  split; [exact H|apply reachable_inv; exact H].
Qed.

Lemma run_reachable ev h : forall s, reachable ev s -> reachable ev (snd (run ev s h)).
Proof.
  induction h as [|c h IH]; intros s Hr; simpl; auto.
  destruct (step ev s c) as [r s1] eqn:E.
  specialize (IH s1). destruct (run ev s1 h) as [rs s2] eqn:E2. simpl in *.
  apply IH. replace s1 with (snd (step ev s c)) by (rewrite E; reflexivity).
  constructor. exact Hr.
Qed.

(* observable behaviour is a function of the state; two histories of any shape -- any order,
   any grouping into batches, any failed attempts and replacements in between -- that end with
   the same (name, source) set and the same suffixes end in the SAME state *)
Theorem order_and_grouping_irrelevant ev sufs1 sufs2 h1 h2 :
  let s1 := snd (run ev (init sufs1) h1) in
  let s2 := snd (run ev (init sufs2) h2) in
  st_sufs s1 = st_sufs s2 -> sources (st_tpls s1) = sources (st_tpls s2) -> s1 = s2.
Proof.
  intros s1 s2 Hsufs Hsrc.
  assert (canonical ev s1) as [_ F1] by (apply reachable_inv, run_reachable, rch_init).
  assert (canonical ev s2) as [_ F2] by (apply reachable_inv, run_reachable, rch_init).
  unfold finalize in F1, F2. rewrite Hsufs, Hsrc in F1. rewrite F1 in F2. congruence.
Qed.

(* the sorted listing of a set is one batch that describes it *)
Definition listing (m : smap) : list (name * source) := map (fun nt => (fst nt, Some (snd nt))) m.

Lemma minsert_last {V} k (v : V) m :
  (forall k', In k' (mkeys m) -> name_cmp k' k = Lt) -> minsert k v m = m ++ [(k, v)].
Proof.
  induction m as [|[k1 v1] m IH]; intros H; simpl; auto.
  assert (name_cmp k k1 = Gt) as ->.
  { rewrite name_cmp_antisym, (H k1); simpl; auto. }
  f_equal. apply IH. intros k' Hk'. apply H. simpl. auto.
Qed.

Lemma msorted_app_below {V} (acc : fmap V) k v m :
  msorted (acc ++ (k, v) :: m) -> forall k', In k' (mkeys acc) -> name_cmp k' k = Lt.
Proof.
  induction acc as [|[a b] acc IH]; intros Hs k' Hin; [destruct Hin|].
  simpl in Hin. destruct Hin as [<-|Hin].
  - apply (msorted_above a b (acc ++ (k, v) :: m) Hs).
    unfold mkeys. rewrite map_app. apply in_or_app. right. simpl. auto.
  - apply IH; auto. eapply msorted_tail. exact Hs.
Qed.

Lemma override_listing m : forall acc, msorted (acc ++ m) -> override acc (listing m) = acc ++ m.
Proof.
  induction m as [|[k t] m IH]; intros acc Hs; simpl.
  - rewrite app_nil_r. reflexivity.
  - rewrite minsert_last by (eapply msorted_app_below; eauto).
    change (override (acc ++ [(k, t)]) (listing m) = acc ++ (k, t) :: m).
    rewrite IH; rewrite <- app_assoc; simpl; auto.
Qed.

(* ================================================================== find_parents *)

Lemma msorted_nodup {V} (m : fmap V) : msorted m -> NoDup (mkeys m).
Proof.
  induction m as [|[k v] m IH]; intros Hs; simpl; constructor.
  - intros Hin. pose proof (msorted_above _ _ _ Hs _ Hin) as H. rewrite name_cmp_refl in H. discriminate.
  - apply IH. eapply msorted_tail; eauto.
Qed.

Lemma keys_mfind {V} (m : fmap V) k : In k (mkeys m) -> exists v, mfind k m = Some v.
Proof.
  intros H. destruct (mfind k m) eqn:E; eauto. apply mfind_none_keys in E. contradiction.
Qed.

Lemma In_mfind {V} (m : fmap V) k v : NoDup (mkeys m) -> In (k, v) m -> mfind k m = Some v.
Proof.
  induction m as [|[k1 v1] m IH]; intros Hnd Hin; [destruct Hin|].
  simpl in Hnd. inversion Hnd as [|? ? Hni Hnd']; subst. simpl.
  destruct Hin as [E|Hin].
  - injection E as -> ->. rewrite name_eqb_refl. reflexivity.
  - destruct (name_eqb k k1) eqn:E.
    + apply name_eqb_eq in E. subst. exfalso. apply Hni. apply (in_map fst) in Hin. exact Hin.
    + auto.
Qed.

Section Parents.
  Variable pre : list name.
  Variable m : smap.

  (* the resolved extends relation: a partial function *)
  Definition ext (x y : name) : Prop :=
    exists t p, mfind x m = Some t /\ td_extends t = Some p /\ resolve pre m p = Some y.
  Definition is_root (x : name) : Prop := exists t, mfind x m = Some t /\ td_extends t = None.
  Definition is_dangling (x : name) : Prop :=
    exists t p, mfind x m = Some t /\ td_extends t = Some p /\ resolve pre m p = None.

  Lemma ext_fun x y z : ext x y -> ext x z -> y = z.
  Proof. intros (t & p & H1 & H2 & H3) (t' & p' & H1' & H2' & H3'). congruence. Qed.

  Lemma ext_in_keys x y : ext x y -> In y (mkeys m).
  Proof. intros (t & p & _ & _ & H). eapply resolve_in_keys; eauto. Qed.

  Lemma epath_app x l1 y l2 z : path ext x l1 y -> path ext y l2 z -> path ext x (l1 ++ l2) z.
  Proof. induction 1; simpl; auto. intros. econstructor; eauto. Qed.

  Lemma epath_snoc x l y z : path ext x l y -> ext y z -> path ext x (l ++ [z]) z.
  Proof. intros Hp He. eapply epath_app; eauto. econstructor; eauto. constructor. Qed.

  Lemma epath_in_keys x l y : path ext x l y -> incl l (mkeys m).
  Proof.
    induction 1 as [|x y l z He Hp IH]; intros w Hw; [destruct Hw|].
    destruct Hw as [<-|Hw]; auto. eapply ext_in_keys; eauto.
  Qed.

  (* what each outcome of the walk means, in terms of the relation alone *)
  Definition fp_spec (start : name) (r : rres (list name)) : Prop :=
    match r with
    | Ok ps => exists u, path ext start (rev ps) u /\ is_root u /\ NoDup (start :: ps)
    | Err EkMissingParent =>
        exists l u, path ext start l u /\ NoDup (start :: l) /\ is_dangling u
    | Err EkCircularExtend =>
        exists l u r, path ext start l u /\ NoDup (start :: l) /\ ext u r /\ In r (start :: l)
    | Err EkFuel => True
    | Err _ => False
    end.

  Lemma find_parents_sound fuel start : forall cn cur parents,
    mfind cn m = Some cur -> path ext start parents cn -> NoDup (start :: parents) ->
    fp_spec start (find_parents fuel pre m start cur parents).
  Proof.
    induction fuel as [|f IH]; intros cn cur parents Hc Hp Hnd; simpl; [exact I|].
    destruct (td_extends cur) as [p|] eqn:Ee.
    - destruct (resolve pre m p) as [r|] eqn:Er.
      + assert (ext cn r) as Hext by (exists cur, p; auto).
        destruct (name_eqb r start || nmem r parents) eqn:Eb.
        * simpl. exists parents, cn, r. repeat split; auto.
          apply orb_true_iff in Eb. destruct Eb as [Eb|Eb].
          -- apply name_eqb_eq in Eb. subst. simpl. auto.
          -- apply nmem_In in Eb. simpl. auto.
        * apply orb_false_iff in Eb. destruct Eb as [Eb1 Eb2].
          destruct (keys_mfind m r (resolve_in_keys _ _ _ _ Er)) as [pt Hpt]. rewrite Hpt.
          apply (IH r pt (parents ++ [r])); auto.
          -- eapply epath_snoc; eauto.
          -- apply name_eqb_neq in Eb1.
             assert (~ In r parents) as Hni by (rewrite <- nmem_In; congruence).
             inversion Hnd as [|? ? Hs Hnd']; subst.
             constructor.
             ++ intros Hin. apply in_app_or in Hin. destruct Hin as [Hin|[Hin|[]]]; auto.
             ++ apply NoDup_snoc; auto.
      + simpl. exists parents, cn. repeat split; auto. exists cur, p. auto.
    - simpl. exists cn. rewrite rev_involutive. repeat split; auto.
      + exists cur. auto.
      + inversion Hnd as [|? ? Hs Hnd']; subst. constructor.
        * rewrite <- in_rev. exact Hs.
        * apply NoDup_rev. exact Hnd'.
  Qed.

  (* fuel: parents never repeats, so its length is below the number of templates *)
  Lemma find_parents_fuel fuel start : forall cn cur parents,
    mfind cn m = Some cur -> path ext start parents cn -> NoDup (start :: parents) ->
    In start (mkeys m) -> NoDup (mkeys m) ->
    length m < fuel + length (start :: parents) ->
    find_parents fuel pre m start cur parents <> Err EkFuel.
  Proof.
    induction fuel as [|f IH]; intros cn cur parents Hc Hp Hnd Hs Hk Hlen.
    - exfalso. assert (incl (start :: parents) (mkeys m)) as Hincl.
      { intros w [<-|Hw]; auto. eapply epath_in_keys; eauto. }
      pose proof (NoDup_incl_length Hnd Hincl) as Hle. unfold mkeys in Hle. rewrite map_length in Hle.
      simpl in *. lia.
    - simpl. destruct (td_extends cur) as [p|] eqn:Ee; [|discriminate].
      destruct (resolve pre m p) as [r|] eqn:Er; [|discriminate].
      destruct (name_eqb r start || nmem r parents) eqn:Eb; [discriminate|].
      apply orb_false_iff in Eb. destruct Eb as [Eb1 Eb2].
      destruct (keys_mfind m r (resolve_in_keys _ _ _ _ Er)) as [pt Hpt]. rewrite Hpt.
      assert (ext cn r) as Hext by (exists cur, p; auto).
      apply (IH r pt (parents ++ [r])); auto.
      + eapply epath_snoc; eauto.
      + apply name_eqb_neq in Eb1.
        assert (~ In r parents) as Hni by (rewrite <- nmem_In; congruence).
        inversion Hnd as [|? ? Hs' Hnd']; subst. constructor.
        * intros Hin. apply in_app_or in Hin. destruct Hin as [Hin|[Hin|[]]]; auto.
        * apply NoDup_snoc; auto.
      + simpl. rewrite app_length. simpl in *. lia.
  Qed.

  (* completeness for the chain: every target resolves, nothing repeats => the chain, root first *)
  Lemma find_parents_complete start : forall l2 fuel cn cur parents u,
    mfind cn m = Some cur -> path ext cn l2 u -> is_root u ->
    NoDup (start :: parents ++ l2) -> length l2 < fuel ->
    find_parents fuel pre m start cur parents = Ok (rev (parents ++ l2)).
  Proof.
    induction l2 as [|y l2 IH]; intros fuel cn cur parents u Hc Hp Hr Hnd Hf;
      (destruct fuel as [|f]; [simpl in Hf; lia|]); simpl.
    - inversion Hp; subst. destruct Hr as (t & Ht & He). rewrite Hc in Ht. injection Ht as <-.
      rewrite He, app_nil_r. reflexivity.
    - inversion Hp as [|? ? ? ? Hext Hp']; subst.
      destruct Hext as (t & p & Ht & He & Hres). rewrite Hc in Ht. injection Ht as <-.
      rewrite He, Hres.
      assert (name_eqb y start || nmem y parents = false) as ->.
      { apply orb_false_iff. inversion Hnd as [|? ? Hs Hnd']; subst. split.
        - apply name_eqb_neq. intros ->. apply Hs. apply in_or_app. right. simpl. auto.
        - destruct (nmem y parents) eqn:E; auto. apply nmem_In in E. exfalso.
          apply NoDup_remove_2 in Hnd'. apply Hnd'. apply in_or_app. auto. }
      destruct (keys_mfind m y (resolve_in_keys _ _ _ _ Hres)) as [pt Hpt]. rewrite Hpt.
      rewrite (IH f y pt (parents ++ [y]) u); auto.
      + rewrite <- app_assoc. reflexivity.
      + rewrite <- app_assoc. exact Hnd.
      + simpl in Hf. lia.
  Qed.
End Parents.

(* ================================================================== what finalize establishes *)

Lemma filter_map_In {A B} (f : A -> option B) l y :
  In y (filter_map f l) <-> exists x, In x l /\ f x = Some y.
Proof.
  induction l as [|a l IH]; simpl.
  - split; [tauto|]. intros [x [[] _]].
  - destruct (f a) eqn:E; simpl; rewrite IH.
    + split.
      * intros [<-|[x [Hx Hf]]]; eauto.
      * intros [x [[<-|Hx] Hf]]; [left; congruence|right; eauto].
    + split.
      * intros [x [Hx Hf]]; eauto.
      * intros [x [[<-|Hx] Hf]]; [congruence|eauto].
Qed.

Lemma mfind_map {V W} (g : name -> V -> W) (m : fmap V) k :
  mfind k (map (fun nt => (fst nt, g (fst nt) (snd nt))) m) = option_map (g k) (mfind k m).
Proof.
  induction m as [|[k1 v1] m IH]; simpl; auto.
  destruct (name_eqb k k1) eqn:E; auto. apply name_eqb_eq in E. subst. reflexivity.
Qed.

Section Accept.
  Variable ev : env.
  Variable m : smap.
  Hypothesis m_sorted : msorted m.
  Let pre := ev_prefixes ev.

  Lemma parents_of_sound n t ps :
    In (n, t) m -> parents_of pre m n t = Ok ps ->
    exists u, path (ext pre m) n (rev ps) u /\ is_root m u /\ NoDup (n :: ps).
  Proof.
    intros Hin H. unfold parents_of in H.
    pose proof (find_parents_sound pre m (S (length m)) n n t []) as Hs.
    rewrite H in Hs. apply Hs.
    - apply In_mfind; auto. apply msorted_nodup; auto.
    - constructor.
    - constructor; [intros []|constructor].
  Qed.

  (* the parents of a parent are parents too *)
  Lemma parents_chain n t ps p tp :
    In (n, t) m -> parents_of pre m n t = Ok ps -> In p ps -> mfind p m = Some tp ->
    exists ps', parents_of pre m p tp = Ok ps' /\ incl ps' ps.
  Proof.
    intros Hin H Hp Htp. destruct (parents_of_sound _ _ _ Hin H) as (u & Hpath & Hroot & Hnd).
    apply in_rev in Hp. apply in_split in Hp. destruct Hp as (l1 & l2 & Hl).
    rewrite Hl in Hpath.
    assert (path (ext pre m) p l2 u) as Hp2.
    { clear - Hpath. revert n Hpath. induction l1 as [|a l1 IH]; intros n H; simpl in H.
      - inversion H; subst; auto.
      - inversion H; subst. eauto. }
    exists (rev l2). split.
    - unfold parents_of.
      rewrite (find_parents_complete pre m p l2 (S (length m)) p tp [] u); auto.
      + inversion Hnd as [|? ? _ Hnd']; subst.
        apply NoDup_rev in Hnd'. rewrite Hl in Hnd'. apply NoDup_remove_2 in Hnd' as Hni.
        apply NoDup_remove_1 in Hnd'. simpl. constructor.
        * intros Hin'. apply Hni. apply in_or_app. auto.
        * clear - Hnd'. induction l1; simpl in *; auto. inversion Hnd'; auto.
      + assert (NoDup (rev ps)) as Hr by (apply NoDup_rev; inversion Hnd; auto).
        assert (incl (rev ps) (mkeys m)) as Hi.
        { eapply epath_in_keys. rewrite Hl. exact Hpath. }
        pose proof (NoDup_incl_length Hr Hi) as Hle. rewrite Hl, app_length in Hle. simpl in Hle.
        unfold mkeys in Hle. rewrite map_length in Hle. lia.
    - intros w Hw. apply in_rev. rewrite Hl. apply in_or_app. right. simpl. right.
      exact (proj2 (in_rev l2 w) Hw).
  Qed.

  (* first loop: the parents table holds parents_of for every template *)
  Lemma first_loop_par todo : forall par sz tab par' sz' tab',
    NoDup (mkeys todo) ->
    first_loop ev m todo par sz tab = Ok (par', sz', tab') ->
    (forall n ps, ~ In n (mkeys todo) -> mfind n par = Some ps -> mfind n par' = Some ps) /\
    (forall n t, In (n, t) todo -> exists ps, parents_of pre m n t = Ok ps /\ mfind n par' = Some ps).
  Proof.
    induction todo as [|[n t] todo IH]; intros par sz tab par' sz' tab' Hnd H; simpl in H.
    - injection H as <- <- <-. split; auto. intros n t [].
    - fold pre in H. destruct (parents_of pre m n t) as [ps|] eqn:Ep; [|discriminate].
      destruct (if ev_fix_d10 ev then _ else _); [|discriminate].
      destruct (add_components _ _ _ _) as [tab1|]; [|discriminate].
      simpl in Hnd. inversion Hnd as [|? ? Hni Hnd']; subst.
      destruct (IH _ _ _ _ _ _ Hnd' H) as [A B]. split.
      + intros k ps' Hk Hf. apply A; [simpl in Hk; tauto|].
        rewrite mfind_minsert_other; auto. simpl in Hk. intros ->. tauto.
      + intros k t' [E|Hin].
        * injection E as <- <-. exists ps. split; auto. apply A; auto. apply mfind_minsert_same.
        * apply B. exact Hin.
  Qed.

  Lemma include_loop_ok succ todo :
    include_loop succ m todo = Ok tt ->
    forall n, In n (mkeys todo) -> exists v, dfs_check name_eqb succ (S (length m)) n = Ok v.
  Proof.
    induction todo as [|[k t] todo IH]; intros H n Hn; simpl in *; [destruct Hn|].
    unfold check_include_cycles in H.
    destruct (dfs_check name_eqb succ (S (length m)) k) as [v|] eqn:E; [|discriminate].
    destruct Hn as [<-|Hn]; eauto.
  Qed.

  Lemma inc_succ_fixed_closed par x y : In y (inc_succ_fixed pre m par x) -> In y (mkeys m).
  Proof.
    unfold inc_succ_fixed. intros H. apply filter_map_In in H. destruct H as (i & _ & Hr).
    eapply resolve_in_keys; eauto.
  Qed.

  Lemma inc_succ_pinned_closed x y : In y (inc_succ_pinned pre m x) -> In y (mkeys m).
  Proof.
    unfold inc_succ_pinned. intros H. apply filter_map_In in H. destruct H as (i & _ & Hr).
    eapply resolve_in_keys; eauto.
  Qed.
End Accept.

(* the include walk of the model, for both successor functions: it succeeds for every template
   iff the resolved include relation has no cycle (fuel = number of templates + 1) *)
Theorem include_dfs_spec (m : smap) (succ : name -> list name) :
  (forall x y, In y (succ x) -> In y (mkeys m)) ->
  ((forall n, In n (mkeys m) -> check_include_cycles succ m n = Ok tt)
   <-> acyclic (edge succ)).
Proof.
  intros Hcl.
  assert (length (mkeys m) <= S (length m)) as Hlen by (unfold mkeys; rewrite map_length; lia).
  rewrite <- (dfs_spec name_eqb succ name_eqb_eq (mkeys m) Hcl (S (length m)) Hlen).
  unfold check_include_cycles. split; intros H n Hn; specialize (H n Hn).
  - destruct (dfs_check name_eqb succ (S (length m)) n); [eauto|discriminate].
  - destruct H as [v ->]. reflexivity.
Qed.

Theorem include_err_spec (m : smap) (succ : name -> list name) n :
  (forall x y, In y (succ x) -> In y (mkeys m)) -> In n (mkeys m) ->
  (check_include_cycles succ m n = Err EkCircularInclude <-> leads_to_cycle (edge succ) n).
Proof.
  intros Hcl Hn.
  assert (length (mkeys m) <= S (length m)) as Hlen by (unfold mkeys; rewrite map_length; lia).
  rewrite <- (dfs_check_circular_iff name_eqb succ name_eqb_eq (mkeys m) Hcl (S (length m)) n Hlen Hn).
  unfold check_include_cycles. destruct (dfs_check name_eqb succ (S (length m)) n); split; congruence.
Qed.

(* ================================================================== termination of rendering *)

Lemma mul_lt_helper a b B x y : a < b -> x < B -> a * B + x < b * B + y.
Proof. intros H1 H2. nia. Qed.

Section Term.
  Variable pre : list name.
  Variable s : state.
  Variable R : name -> nat.              (* include rank of a template *)
  Variable K : name -> bnode -> nat.     (* rank in the block graph of a template *)
  Variables N1 B : nat.

  Definition parents_s (v : name) : list name :=
    match mfind v (st_tpls s) with Some e => e_parents e | None => [] end.

  Hypothesis H_inc_main : forall v w ew n u,
    (w = v \/ In w (parents_s v)) -> mfind w (st_tpls s) = Some ew ->
    In (OInclude n) (td_main (e_desc ew)) -> resolve pre (st_tpls s) n = Some u -> R u < R v.
  Hypothesis H_inc_blk : forall v b chs l ch n u,
    lineage_of s v b = Some chs -> nth_error chs l = Some ch ->
    In (OInclude n) ch -> resolve pre (st_tpls s) n = Some u -> R u < R v.
  Hypothesis H_blk : forall v b chs l ch b' chs',
    lineage_of s v b = Some chs -> nth_error chs l = Some ch ->
    In (OBlock b') ch -> lineage_of s v b' = Some chs' -> chs' <> [] -> K v (b', 0) < K v (b, l).
  Hypothesis H_sup : forall v b chs l ch,
    lineage_of s v b = Some chs -> nth_error chs l = Some ch ->
    In OSuper ch -> S l < length chs -> K v (b, S l) < K v (b, l).
  Hypothesis HRb : forall v, R v <= N1.
  Hypothesis HKb : forall v x, K v x + 2 <= B.

  Definition span : nat := (N1 + 1) * B + 1.
  Definition rho (f : frame) : nat :=
    match f with
    | FComp _ _ => (N1 + 1) * B
    | FMain v _ => R v * B + (B - 1)
    | FBlk v b l => R v * B + K v (b, l)
    end.
  Definition mu (d : nat) (f : frame) : nat := (max_comp_depth - d) * span + rho f.

  Definition valid (f : frame) : Prop :=
    match f with
    | FMain v w => w = v \/ In w (parents_s v)
    | FBlk v b l => exists chs, lineage_of s v b = Some chs /\ l < length chs
    | FComp _ _ => True
    end.

  Lemma rho_lt_span f : rho f < span.
  Proof.
    unfold span. destruct f as [v w|v b l|v c]; simpl.
    - pose proof (HRb v). pose proof (HKb v (v, 0)). nia.
    - pose proof (HRb v). pose proof (HKb v (b, l)). nia.
    - lia.
  Qed.

  Lemma valid_root u : valid (FMain u (root_of s u)).
  Proof.
    unfold valid, root_of, parents_s. destruct (mfind u (st_tpls s)) as [e|]; auto.
    destruct (e_parents e) as [|r rest]; simpl; auto.
  Qed.

  (* every call goes to a valid frame of strictly smaller measure *)
  Lemma callee_decreases d f ch o d' f' :
    valid f -> d <= max_comp_depth -> frame_chunk s f = Some ch -> In o ch ->
    callee pre s d f o = Some (Some (d', f')) ->
    valid f' /\ mu d' f' < mu d f /\ d' <= max_comp_depth.
  Proof.
    intros Hv Hd Hch Hin Hc. destruct o as [i|n|b| |c]; cbn [callee] in Hc.
    - discriminate.
    - (* include: the root ancestor's main chunk, under the included template *)
      destruct (resolve pre (st_tpls s) n) as [u|] eqn:Er; [|discriminate].
      injection Hc as <- <-. split; [apply valid_root|].
      assert (rho (FMain u (root_of s u)) < rho f) as Hlt.
      { destruct f as [v w|v b l|v c]; simpl in *.
        - destruct (mfind w (st_tpls s)) as [ew|] eqn:Ew; [|discriminate]. injection Hch as <-.
          pose proof (H_inc_main v w ew n u Hv Ew Hin Er). pose proof (HKb v (v, 0)).
          apply mul_lt_helper; auto. lia.
        - destruct Hv as (chs & Hl & Hlen). rewrite Hl in Hch.
          pose proof (H_inc_blk v b chs l ch n u Hl Hch Hin Er). pose proof (HKb v (b, l)).
          apply mul_lt_helper; auto. lia.
        - pose proof (HRb u). pose proof (HKb u (u, 0)). nia. }
      unfold mu. split; [lia|exact Hd].
    - (* RenderBlock *)
      destruct (lineage_of s (frame_vm f) b) as [[|c0 chs']|] eqn:El; try discriminate.
      injection Hc as <- <-. split; [simpl; exists (c0 :: chs'); split; [auto|simpl; lia]|].
      assert (rho (FBlk (frame_vm f) b 0) < rho f) as Hlt.
      { destruct f as [v w|v b0 l|v c]; simpl in *.
        - pose proof (HKb v (b, 0)). lia.
        - destruct Hv as (chs & Hl & Hlen). rewrite Hl in Hch.
          assert (c0 :: chs' <> []) as Hne by discriminate.
          pose proof (H_blk v b0 chs l ch b (c0 :: chs') Hl Hch Hin El Hne). lia.
        - pose proof (HRb v). pose proof (HKb v (b, 0)). nia. }
      unfold mu. split; [lia|exact Hd].
    - (* super() *)
      destruct f as [v w|v b l|v c]; try discriminate.
      destruct (lineage_of s v b) as [chs|] eqn:El; [|discriminate].
      destruct (S l <? length chs) eqn:Elt; [|discriminate].
      apply Nat.ltb_lt in Elt. injection Hc as <- <-.
      split; [simpl; exists chs; auto|].
      simpl in Hch. rewrite El in Hch.
      pose proof (H_sup v b chs l ch El Hch Hin Elt).
      unfold mu. simpl. split; [lia|exact Hd].
    - (* component call: one level deeper *)
      destruct (max_comp_depth <=? d) eqn:Ed; [discriminate|].
      apply Nat.leb_gt in Ed.
      destruct (comp_chunk s (frame_vm f) c); [|discriminate].
      injection Hc as <- <-. split; [exact I|]. split; [|lia].
      unfold mu. simpl rho at 1. pose proof (rho_lt_span f).
      assert (max_comp_depth - d = S (max_comp_depth - S d)) as -> by lia.
      unfold span in *. lia.
  Qed.

  Lemma exec_ops_fuel rec d f ch :
    valid f -> d <= max_comp_depth -> frame_chunk s f = Some ch ->
    (forall d' f', valid f' -> d' <= max_comp_depth -> mu d' f' < mu d f -> rec d' f' <> ROutOfFuel) ->
    forall ops acc, incl ops ch -> exec_ops rec pre s d f ops acc <> ROutOfFuel.
  Proof.
    intros Hv Hd Hch Hrec. induction ops as [|o ops IH]; intros acc Hincl; simpl; [discriminate|].
    assert (incl ops ch) as Hincl' by (intros z Hz; apply Hincl; simpl; auto).
    assert (In o ch) as Hin by (apply Hincl; simpl; auto).
    destruct o as [i|n|b| |c]; [apply IH; auto| | | |];
      (destruct (callee pre s d f _) as [[[d' f']|]|] eqn:Ec;
       [ destruct (callee_decreases _ _ _ _ _ _ Hv Hd Hch Hin Ec) as (V1 & V2 & V3);
         pose proof (Hrec d' f' V1 V3 V2) as Hne;
         destruct (rec d' f'); [apply IH; auto|discriminate|congruence]
       | apply IH; auto
       | discriminate ]).
  Qed.

  Theorem exec_terminates : forall fuel d f,
    valid f -> d <= max_comp_depth -> mu d f < fuel -> exec fuel pre s d f <> ROutOfFuel.
  Proof.
    induction fuel as [|k IH]; intros d f Hv Hd Hmu; [lia|].
    simpl. destruct (frame_chunk s f) as [ch|] eqn:Ech; [|discriminate].
    eapply exec_ops_fuel; eauto.
    - intros d' f' V1 V3 V2. apply IH; auto. lia.
    - apply incl_refl.
  Qed.

  Lemma mu_bound d f : mu d f < S (S max_comp_depth * span).
  Proof. unfold mu. pose proof (rho_lt_span f). nia. Qed.
End Term.

(* ================================================================== where lineage chunks come from *)

Lemma minsert_In {V} k (v : V) mm k' v' :
  In (k', v') (minsert k v mm) -> (k' = k /\ v' = v) \/ In (k', v') mm.
Proof.
  induction mm as [|[k1 v1] mm IH]; simpl.
  - intros [E|[]]. injection E as <- <-. auto.
  - destruct (name_cmp k k1); simpl.
    + intros [E|H]; [injection E as <- <-; auto | auto].
    + intros [E|H]; [injection E as <- <-; auto | auto].
    + intros [E|H]; [auto|]. destruct (IH H); auto.
Qed.

Definition psof (par : fmap (list name)) (n : name) : list name :=
  match mfind n par with Some ps => ps | None => [] end.

Section Origin.
  Variable m : smap.
  Variable par : fmap (list name).
  Hypothesis chain : forall n p, In p (psof par n) -> incl (psof par p) (psof par n).
  Hypothesis m_nodup : NoDup (mkeys m).

  Definition blk_of (w : name) (ch : chunk) : Prop :=
    exists tw bn, mfind w m = Some tw /\ In (bn, ch) (td_blocks tw).
  Definition good (n : name) (ch : chunk) : Prop :=
    exists w, In w (n :: psof par n) /\ blk_of w ch.
  Definition good_lin (n : name) (lin : fmap (list chunk)) : Prop :=
    forall b chs ch, In (b, chs) lin -> In ch chs -> good n ch.

  Lemma lineage_up_origin b near ch :
    In ch (lineage_up m b near) -> exists p, In p near /\ blk_of p ch.
  Proof.
    induction near as [|p near IH]; simpl; [tauto|].
    destruct (mfind p m) as [pt|] eqn:Ep.
    - destruct (mfind b (td_blocks pt)) as [pch|] eqn:Eb.
      + intros [<-|Hin].
        * exists p. split; auto. exists pt, b. split; auto. apply mfind_In. exact Eb.
        * destruct (calls_super pch); [|destruct Hin]. destruct (IH Hin) as [q [Hq Hb]]. eauto.
      + intros Hin. destruct (IH Hin) as [q [Hq Hb]]. eauto.
    - intros Hin. destruct (IH Hin) as [q [Hq Hb]]. eauto.
  Qed.

  Lemma own_lineage_good n t :
    mfind n m = Some t -> good_lin n (own_lineage m (psof par n) t).
  Proof.
    intros Ht. unfold own_lineage.
    assert (forall l, incl l (td_blocks t) ->
              good_lin n (fold_right
                (fun bc acc => minsert (fst bc)
                   (snd bc :: (if calls_super (snd bc) then lineage_up m (fst bc) (rev (psof par n)) else []))
                   acc) [] l)) as H.
    { induction l as [|[bn bch] l IH]; intros Hincl b chs ch Hin Hch; cbn [fold_right fst snd] in Hin; [destruct Hin|].
      apply minsert_In in Hin. destruct Hin as [[-> ->]|Hin].
      - destruct Hch as [<-|Hch].
        + exists n. split; [simpl; auto|]. exists t, bn. split; auto. apply Hincl. simpl. auto.
        + destruct (calls_super bch); [|destruct Hch].
          apply lineage_up_origin in Hch. destruct Hch as [p [Hp Hb]].
          exists p. split; auto. simpl. right. apply in_rev. exact Hp.
      - eapply IH; eauto. intros z Hz. apply Hincl. simpl. auto. }
    apply H. apply incl_refl.
  Qed.

  Lemma or_insert_all_In from : forall into b chs,
    In (b, chs) (or_insert_all from into) -> In (b, chs) into \/ In (b, chs) from.
  Proof.
    unfold or_insert_all. induction from as [|[fb fchs] from IH]; intros into b chs H; simpl in H; auto.
    apply IH in H. destruct H as [H|H]; [|simpl; auto].
    destruct (mmem fb into); auto.
    apply minsert_In in H. destruct H as [[-> ->]|H]; simpl; auto.
  Qed.

  Lemma good_up n p ch : In p (psof par n) -> good p ch -> good n ch.
  Proof.
    intros Hp (w & Hw & Hb). exists w. split; auto. simpl. right.
    destruct Hw as [<-|Hw]; auto. eapply chain; eauto.
  Qed.

  Definition J (tb : fmap (fmap (list chunk))) : Prop :=
    forall k lin, In (k, lin) tb -> good_lin k lin.

  Lemma inherit_one_J tb n : J tb -> J (inherit_one par tb n).
  Proof.
    unfold inherit_one. change (match mfind n par with Some ps => ps | None => [] end) with (psof par n).
    assert (forall l tb0, incl l (psof par n) -> J tb0 ->
              J (fold_left (fun tb p => match mfind p tb, mfind n tb with
                                        | Some pb, Some cb => minsert n (or_insert_all pb cb) tb
                                        | _, _ => tb
                                        end) l tb0)) as H.
    { induction l as [|p l IH]; intros tb0 Hincl Hj; simpl; auto.
      apply IH; [intros z Hz; apply Hincl; simpl; auto|].
      destruct (mfind p tb0) as [pb|] eqn:Ep; auto. destruct (mfind n tb0) as [cb|] eqn:En; auto.
      intros k lin Hin. apply minsert_In in Hin. destruct Hin as [[-> ->]|Hin]; [|apply Hj; auto].
      intros b chs ch Hb Hch. apply or_insert_all_In in Hb. destruct Hb as [Hb|Hb].
      - eapply (Hj n cb); eauto. apply mfind_In. exact En.
      - apply (good_up n p); [apply Hincl; simpl; auto|].
        eapply (Hj p pb); eauto. apply mfind_In. exact Ep. }
    intros Hj. apply H; auto. intros z Hz. apply in_rev. exact Hz.
  Qed.

  Lemma fold_inherit_J keys : forall tb, J tb -> J (fold_left (inherit_one par) keys tb).
  Proof.
    induction keys as [|k keys IH]; simpl; auto. intros tb Hj. apply IH. apply inherit_one_J. exact Hj.
  Qed.

  Lemma tb0_J : J (map (fun nt => (fst nt, own_lineage m (psof par (fst nt)) (snd nt))) m).
  Proof.
    intros k lin Hin. apply in_map_iff in Hin. destruct Hin as [[n t] [E Hin]].
    simpl in E. injection E as <- <-. apply own_lineage_good. apply In_mfind; auto.
  Qed.

  (* the include names of a chunk that comes from n or one of its parents are followed by the
     repaired walk from n *)
  Lemma chunk_of_chain_followed pre n w tw ch i u :
    In w (n :: psof par n) -> mfind w m = Some tw -> In ch (td_chunks tw) ->
    In (OInclude i) ch -> resolve pre m i = Some u ->
    In u (inc_succ_fixed pre m par n).
  Proof.
    intros Hw Htw Hch Hi Hr. unfold inc_succ_fixed.
    change (match mfind n par with Some ps => ps | None => [] end) with (psof par n).
    apply filter_map_In. exists i. split; auto.
    apply nsort_In.
    assert (In i (own_includes m w)) as Hown.
    { unfold own_includes. rewrite Htw. unfold td_includes. apply nsort_In.
      apply in_flat_map. exists ch. split; auto.
      unfold chunk_includes. apply in_flat_map. exists (OInclude i). split; simpl; auto. }
    apply in_or_app. destruct Hw as [<-|Hw]; auto.
    right. apply in_flat_map. exists w. auto.
  Qed.
End Origin.

(* ================================================================== accepted sets render finitely *)

Lemma bnode_eqb_eq x y : bnode_eqb x y = true <-> x = y.
Proof.
  destruct x as [a i], y as [b j]. unfold bnode_eqb. simpl. rewrite andb_true_iff, name_eqb_eq, Nat.eqb_eq.
  split; [intros [-> ->]; reflexivity | intros [= -> ->]; auto].
Qed.

Lemma blk_nodes_In lin b l chs : In (b, chs) lin -> l < length chs -> In (b, l) (blk_nodes lin).
Proof.
  intros Hin Hl. unfold blk_nodes. apply in_flat_map. exists (b, chs). split; auto.
  simpl. apply in_map_iff. exists l. split; auto. apply in_seq. lia.
Qed.

Lemma blk_succ_closed lin x y : In y (blk_succ lin x) -> In y (blk_nodes lin).
Proof.
  unfold blk_succ. destruct (mfind (fst x) lin) as [chs|] eqn:E1; [|intros []].
  destruct (nth_error chs (snd x)) as [ch|] eqn:E2; [|intros []].
  intros H. apply in_app_or in H. destruct H as [H|H].
  - apply filter_map_In in H. destruct H as (b & _ & Hb).
    destruct (mfind b lin) as [[|c cs]|] eqn:E3; try discriminate. injection Hb as <-.
    eapply blk_nodes_In; [apply mfind_In; eauto|simpl; lia].
  - destruct (calls_super ch && (S (snd x) <? length chs)) eqn:E3; [|destruct H].
    destruct H as [<-|[]]. apply andb_true_iff in E3. destruct E3 as [_ E3]. apply Nat.ltb_lt in E3.
    eapply blk_nodes_In; [apply mfind_In; eauto|exact E3].
Qed.

Lemma blk_check_all_ok lin todo :
  blk_check_all lin todo = true ->
  forall x, In x todo -> exists v, dfs_check bnode_eqb (blk_succ lin) (S (length (blk_nodes lin))) x = Ok v.
Proof.
  induction todo as [|y todo IH]; intros H x Hx; simpl in *; [destruct Hx|].
  destruct (dfs_check bnode_eqb (blk_succ lin) (S (length (blk_nodes lin))) y) as [v|] eqn:E; [|discriminate].
  destruct Hx as [<-|Hx]; eauto.
Qed.

Lemma blocks_acyclic_spec lin : blocks_acyclic lin = true -> acyclic (edge (blk_succ lin)).
Proof.
  intros H. apply (dfs_spec bnode_eqb (blk_succ lin) bnode_eqb_eq (blk_nodes lin) (blk_succ_closed lin)
                     (S (length (blk_nodes lin)))); [lia|].
  apply blk_check_all_ok. exact H.
Qed.

Lemma resolve_same_keys {V W} pre (m1 : fmap V) (m2 : fmap W) n :
  mkeys m1 = mkeys m2 -> resolve pre m1 n = resolve pre m2 n.
Proof.
  intros Hk.
  assert (forall k, mmem k m1 = mmem k m2) as Hm.
  { intros k. destruct (mmem k m1) eqn:E1, (mmem k m2) eqn:E2; auto.
    - apply mmem_keys in E1. rewrite Hk in E1. apply mmem_keys in E1. congruence.
    - apply mmem_keys in E2. rewrite <- Hk in E2. apply mmem_keys in E2. congruence. }
  unfold resolve. rewrite Hm. destruct (mmem n m2); auto.
  induction pre as [|p pre IH]; simpl; auto. rewrite Hm, IH. reflexivity.
Qed.

Lemma include_loop_all succ m todo :
  include_loop succ m todo = Ok tt ->
  forall n, In n (mkeys todo) -> check_include_cycles succ m n = Ok tt.
Proof.
  induction todo as [|[k t] todo IH]; intros H n Hn; simpl in *; [destruct Hn|].
  destruct (check_include_cycles succ m k) as [[]|] eqn:E; [|discriminate].
  destruct Hn as [<-|Hn]; auto.
Qed.

Lemma first_loop_par_keys ev m todo : forall par sz tab par' sz' tab',
  first_loop ev m todo par sz tab = Ok (par', sz', tab') ->
  forall n ps, mfind n par' = Some ps -> (exists ps0, mfind n par = Some ps0) \/ In n (mkeys todo).
Proof.
  induction todo as [|[k t] todo IH]; intros par sz tab par' sz' tab' H n ps Hf; simpl in H.
  - injection H as <- <- <-. eauto.
  - destruct (parents_of (ev_prefixes ev) m k t) as [ps0|]; [|discriminate].
    destruct (if ev_fix_d10 ev then _ else _); [|discriminate].
    destruct (add_components _ _ _ _) as [tab1|]; [|discriminate].
    destruct (IH _ _ _ _ _ _ H n ps Hf) as [[ps1 H1]|H1]; [|simpl; auto].
    destruct (name_eqb n k) eqn:E.
    + apply name_eqb_eq in E. subst. simpl. auto.
    + apply name_eqb_neq in E. rewrite mfind_minsert_other in H1 by exact E. eauto.
Qed.

Definition linof (tb : fmap (fmap (list chunk))) (k : name) : fmap (list chunk) :=
  match mfind k tb with Some l => l | None => [] end.

Section Finite.
  Variable ev : env.
  Variable sufs : list name.
  Variable m : smap.
  Hypothesis m_sorted : msorted m.
  Hypothesis fix10 : ev_fix_d10 ev = true.
  Variable tm : tmap.
  Variable comps : fmap chunk.
  Hypothesis Hfin : finalize_src ev sufs m = Ok (tm, comps).
  (* with fixes/D13 applied this is established by finalize itself *)
  Hypothesis Hblk : forall n e, mfind n tm = Some e -> blocks_acyclic (e_lineage e) = true.

  Let pre := ev_prefixes ev.
  Let s := {| st_sufs := sufs; st_tpls := tm; st_comps := comps |}.

  Theorem render_fuel_suffices : forall n, render (render_fuel s) pre s n <> ROutOfFuel.
  Proof.
    unfold finalize_src in Hfin.
    destruct (first_loop ev m m [] [] []) as [[[par sz] tab]|] eqn:E1; [|discriminate].
    rewrite fix10 in Hfin.
    destruct (include_loop (inc_succ_fixed (ev_prefixes ev) m par) m m) as [[]|] eqn:E2; [|discriminate].
    destruct (negb _); [discriminate|].
    destruct (_ && _); [discriminate|].
    set (tb := fold_left (inherit_one par) (mkeys m)
                 (map (fun nt : name * tdesc =>
                         (fst nt, own_lineage m (match mfind (fst nt) par with Some ps => ps | None => [] end) (snd nt))) m)) in *.
    set (G := fun (k : name) (t : tdesc) =>
                {| e_desc := t; e_parents := psof par k; e_lineage := linof tb k;
                   e_size := match mfind k sz with Some z => z | None => 0 end;
                   e_auto := auto_on sufs k |}).
    assert (tm = map (fun nt => (fst nt, G (fst nt) (snd nt))) m) as Htm.
    { injection Hfin as <- _. reflexivity. }
    clear Hfin.
    assert (NoDup (mkeys m)) as Hnd by (apply msorted_nodup; auto).
    assert (forall k, mfind k tm = option_map (G k) (mfind k m)) as Hfind.
    { intros k. rewrite Htm. apply mfind_map. }
    assert (mkeys tm = mkeys m) as Hkeys.
    { rewrite Htm. unfold mkeys. rewrite map_map. reflexivity. }
    (* parents *)
    destruct (first_loop_par ev m m [] [] [] par sz tab Hnd E1) as [_ F1].
    assert (forall n0 ps, mfind n0 par = Some ps -> In n0 (mkeys m)) as Fk.
    { intros n0 ps Hp. destruct (first_loop_par_keys _ _ _ _ _ _ _ _ _ E1 n0 ps Hp) as [[ps0 H0]|H0]; auto.
      discriminate. }
    assert (forall n0 p, In p (psof par n0) -> incl (psof par p) (psof par n0)) as Hchain.
    { intros n0 p Hp. unfold psof in *. destruct (mfind n0 par) as [ps|] eqn:Ep; [|destruct Hp].
      destruct (keys_mfind m n0 (Fk _ _ Ep)) as [t Ht].
      pose proof (mfind_In _ _ _ Ht) as Hin.
      destruct (F1 _ _ Hin) as (ps' & Hpo & Hpar). fold pre in Hpo. rewrite Ep in Hpar. injection Hpar as <-.
      destruct (parents_of_sound ev m m_sorted _ _ _ Hin Hpo) as (u & Hpath & _ & _).
      assert (In p (mkeys m)) as Hpk.
      { eapply epath_in_keys; eauto. apply in_rev in Hp. exact Hp. }
      destruct (keys_mfind m p Hpk) as [tp Htp].
      destruct (parents_chain ev m m_sorted _ _ _ _ _ Hin Hpo Hp Htp) as (ps2 & Hps2 & Hincl).
      destruct (F1 _ _ (mfind_In _ _ _ Htp)) as (ps3 & Hpo3 & Hpar3). fold pre in Hpo3.
      rewrite Hpar3. unfold pre in *. assert (ps3 = ps2) as -> by congruence. exact Hincl. }
    (* lineage chunks come from the chain *)
    assert (J m par tb) as HJ.
    { unfold tb. apply fold_inherit_J; auto. apply (tb0_J m par Hnd). }
    (* the repaired include relation is acyclic *)
    set (succI := inc_succ_fixed pre m par).
    assert (acyclic (edge succI)) as HacI.
    { apply (include_dfs_spec m succI (inc_succ_fixed_closed ev m par)).
      apply include_loop_all. exact E2. }
    set (R := rank succI (mkeys m)).
    set (lin_s := fun v => match mfind v tm with Some e => e_lineage e | None => [] end).
    assert (forall v b, lineage_of s v b = mfind b (lin_s v)) as Hlin.
    { intros v b. unfold lineage_of, lin_s. simpl. destruct (mfind v tm); reflexivity. }
    assert (forall v, acyclic (edge (blk_succ (lin_s v)))) as HacB.
    { intros v. unfold lin_s. destruct (mfind v tm) as [e|] eqn:Ev.
      - apply blocks_acyclic_spec. eapply Hblk; eauto.
      - intros x [l [Hne Hp]]. inversion Hp; subst; [congruence|]. unfold edge, blk_succ in *. simpl in *. tauto. }
    set (K := fun v => rank (blk_succ (lin_s v)) (blk_nodes (lin_s v))).
    assert (forall v, length (blk_nodes (lin_s v)) <= max_blk_nodes s) as Hmb.
    { intros v. unfold lin_s, max_blk_nodes. simpl. destruct (mfind v tm) as [e|] eqn:Ev; [|simpl; lia].
      apply In_list_max.
      apply in_map_iff. exists (v, e). split; auto. apply mfind_In. exact Ev. }
    assert (forall v, lin_s v = [] \/ exists t, mfind v m = Some t /\ lin_s v = linof tb v /\
                                             parents_s s v = psof par v) as Hls.
    { intros v. unfold lin_s, parents_s. simpl. rewrite Hfind. destruct (mfind v m) as [t|]; simpl; eauto. }
    assert (forall v, R v <= S (length tm)) as HRb.
    { intros v. unfold R.
      pose proof (rank_bound succI (mkeys m) (inc_succ_fixed_closed ev m par) HacI v) as Hb.
      rewrite <- Hkeys in Hb at 2. unfold mkeys in Hb at 2. rewrite map_length in Hb. exact Hb. }
    assert (forall v x, K v x + 2 <= max_blk_nodes s + 3) as HKb.
    { intros v x. unfold K.
      pose proof (rank_bound (blk_succ (lin_s v)) (blk_nodes (lin_s v)) (blk_succ_closed _) (HacB v) x).
      pose proof (Hmb v). lia. }
    intros n. unfold render.
    destruct (resolve pre (st_tpls s) n) as [t|] eqn:Er; [|discriminate].
    destruct (mfind t (st_tpls s)) as [e|] eqn:Et; [|discriminate].
    apply (exec_terminates pre s R K (S (length tm)) (max_blk_nodes s + 3)).
    - (* includes in a main chunk of the chain *)
      intros v w ew i u Hw Hew Hi Hres. change (st_tpls s) with tm in Hew, Hres.
      apply (rank_decreases succI (mkeys m) (inc_succ_fixed_closed ev m par) HacI).
      simpl in Hew. rewrite Hfind in Hew. destruct (mfind w m) as [tw|] eqn:Etw; [|discriminate].
      simpl in Hew. injection Hew as <-. simpl in Hi.
      rewrite (resolve_same_keys pre tm m i Hkeys) in Hres.
      apply (chunk_of_chain_followed m par pre v w tw (td_main tw) i u); auto.
      + destruct Hw as [->|Hw]; [simpl; auto|]. simpl. right.
        destruct (Hls v) as [_|(t' & _ & _ & Hps)]; [|rewrite <- Hps; exact Hw].
        unfold parents_s in Hw. simpl in Hw. rewrite Hfind in Hw.
        destruct (mfind v m); simpl in Hw; [exact Hw|destruct Hw].
      + unfold td_chunks. simpl. auto.
    - (* includes in a lineage chunk *)
      intros v b chs l ch i u Hl Hn Hi Hres. change (st_tpls s) with tm in Hres.
      apply (rank_decreases succI (mkeys m) (inc_succ_fixed_closed ev m par) HacI).
      rewrite (resolve_same_keys pre tm m i Hkeys) in Hres.
      rewrite Hlin in Hl. apply mfind_In in Hl. apply nth_error_In in Hn.
      destruct (Hls v) as [E0|(t' & Ht' & Elin & _)]; [rewrite E0 in Hl; destruct Hl|].
      rewrite Elin in Hl. unfold linof in Hl. destruct (mfind v tb) as [lv|] eqn:Etb; [|destruct Hl].
      destruct (HJ v lv (mfind_In _ _ _ Etb) b chs ch Hl Hn) as (w & Hw & tw & bn & Htw & Hbn).
      apply (chunk_of_chain_followed m par pre v w tw ch i u); auto.
      unfold td_chunks. right. apply in_or_app. left. apply in_map_iff. exists (bn, ch). auto.
    - (* RenderBlock inside a block chunk *)
      intros v b chs l ch b' chs' Hl Hn Hi Hl' Hne.
      apply (rank_decreases (blk_succ (lin_s v)) (blk_nodes (lin_s v)) (blk_succ_closed _) (HacB v)).
      rewrite Hlin in Hl, Hl'. unfold edge, blk_succ. simpl. rewrite Hl, Hn.
      apply in_or_app. left. apply filter_map_In. exists b'. split.
      + unfold chunk_blocks. apply in_flat_map. exists (OBlock b'). split; simpl; auto.
      + rewrite Hl'. destruct chs'; [congruence|reflexivity].
    - (* super() *)
      intros v b chs l ch Hl Hn Hi Hlt.
      apply (rank_decreases (blk_succ (lin_s v)) (blk_nodes (lin_s v)) (blk_succ_closed _) (HacB v)).
      rewrite Hlin in Hl. unfold edge, blk_succ. simpl. rewrite Hl, Hn.
      apply in_or_app. right.
      assert (calls_super ch = true) as ->.
      { unfold calls_super. apply existsb_exists. exists OSuper. auto. }
      apply Nat.ltb_lt in Hlt. rewrite Hlt. simpl. auto.
    - exact HRb.
    - exact HKb.
    - (* the first frame: the root ancestor's main chunk under the template itself *)
      simpl. simpl in Et. unfold parents_s. simpl. rewrite Et.
      destruct (e_parents e) as [|r rest]; simpl; auto.
    - lia.
    - unfold render_fuel, frame_span.
      pose proof (mu_bound R K (S (length tm)) (max_blk_nodes s + 3) HRb HKb 0
                    (FMain t match e_parents e with r :: _ => r | [] => t end)) as Hmu.
      unfold span in Hmu. simpl st_tpls.
      replace (length tm + 2) with (S (length tm) + 1) by lia. exact Hmu.
  Qed.
End Finite.

(* ================================================================== statements for Props/C11.v *)

Section ParentsSpec.
  Variable pre : list name.
  Variable m : smap.
  Hypothesis m_sorted : msorted m.

  (* what the result of the parent walk means *)
  Theorem find_parents_spec n t :
    In (n, t) m ->
    fp_spec pre m n (parents_of pre m n t) /\ parents_of pre m n t <> Err EkFuel.
  Proof.
    intros Hin. assert (NoDup (mkeys m)) as Hnd by (apply msorted_nodup; auto).
    assert (mfind n m = Some t) as Hf by (apply In_mfind; auto).
    split.
    - apply (find_parents_sound pre m (S (length m)) n n t []); auto.
      + constructor.
      + constructor; [intros []|constructor].
    - apply (find_parents_fuel pre m (S (length m)) n n t []); auto.
      + constructor.
      + constructor; [intros []|constructor].
      + apply (in_map fst) in Hin. exact Hin.
      + simpl. lia.
  Qed.

  (* ... and the chain is returned whenever it exists: every target resolves up to a template
     without `extends`, and no template repeats *)
  Theorem find_parents_complete_spec n t l u :
    In (n, t) m -> path (ext pre m) n l u -> is_root m u -> NoDup (n :: l) ->
    parents_of pre m n t = Ok (rev l).
  Proof.
    intros Hin Hp Hr Hnd. assert (NoDup (mkeys m)) as Hk by (apply msorted_nodup; auto).
    unfold parents_of.
    rewrite (find_parents_complete pre m n l (S (length m)) n t [] u); auto.
    - apply In_mfind; auto.
    - inversion Hnd as [|? ? _ Hl]; subst.
      pose proof (NoDup_incl_length Hl (epath_in_keys pre m _ _ _ Hp)) as Hle.
      unfold mkeys in Hle. rewrite map_length in Hle. lia.
  Qed.
End ParentsSpec.

Lemma inc_pinned_in_fixed pre m par x y :
  In y (inc_succ_pinned pre m x) -> In y (inc_succ_fixed pre m par x).
Proof.
  unfold inc_succ_pinned, inc_succ_fixed. intros H. apply filter_map_In in H.
  destruct H as (i & Hi & Hr). apply filter_map_In. exists i. split; auto.
  apply nsort_In. apply in_or_app. auto.
Qed.

Lemma path_sub {A} (e1 e2 : A -> A -> Prop) :
  (forall x y, e1 x y -> e2 x y) -> forall x l y, path e1 x l y -> path e2 x l y.
Proof.
  intros Hsub x l y Hp. induction Hp as [|a b l' c He Hp IH]; [constructor|].
  apply (path_cons e2 a b l' c); auto.
Qed.

Lemma acyclic_sub {A} (e1 e2 : A -> A -> Prop) :
  (forall x y, e1 x y -> e2 x y) -> acyclic e2 -> acyclic e1.
Proof.
  intros Hsub Hac x [l [Hne Hp]]. apply (Hac x). exists l. split; auto.
  eapply path_sub; eauto.
Qed.

Lemma first_loop_inc ev m todo : forall par sz tab r,
  ev_fix_d10 ev = false ->
  first_loop ev m todo par sz tab = Ok r ->
  forall n, In n (mkeys todo) -> check_include_cycles (inc_succ_pinned (ev_prefixes ev) m) m n = Ok tt.
Proof.
  induction todo as [|[k t] todo IH]; intros par sz tab r Hfx H n Hn; simpl in *; [destruct Hn|].
  destruct (parents_of (ev_prefixes ev) m k t) as [ps|]; [|discriminate].
  rewrite Hfx in H.
  destruct (check_include_cycles (inc_succ_pinned (ev_prefixes ev) m) m k) as [[]|] eqn:E; [|discriminate].
  destruct (add_components _ _ _ _) as [tab1|]; [|discriminate].
  destruct Hn as [<-|Hn]; eauto.
Qed.

(* a set is accepted only if every extends target exists and the chains are repetition-free,
   every include target exists, and the include relation (own include edges, main chunk /
   blocks / component bodies alike) is acyclic *)
Theorem accepted_only_if ev sufs m tm comps :
  msorted m -> finalize_src ev sufs m = Ok (tm, comps) ->
  (forall n t, In (n, t) m ->
     exists ps u, parents_of (ev_prefixes ev) m n t = Ok ps /\
                  path (ext (ev_prefixes ev) m) n (rev ps) u /\ is_root m u /\ NoDup (n :: ps)) /\
  (forall n t i, In (n, t) m -> In i (td_includes t) ->
     exists r, resolve (ev_prefixes ev) m i = Some r) /\
  acyclic (edge (inc_succ_pinned (ev_prefixes ev) m)).
Proof.
  intros Hs H. unfold finalize_src in H.
  destruct (first_loop ev m m [] [] []) as [[[par sz] tab]|] eqn:E1; [|discriminate].
  assert (NoDup (mkeys m)) as Hnd by (apply msorted_nodup; auto).
  destruct (first_loop_par ev m m [] [] [] par sz tab Hnd E1) as [_ F1].
  destruct (if ev_fix_d10 ev then _ else _) as [[]|] eqn:E2; [|discriminate].
  destruct (negb _) eqn:E3; [discriminate|].
  apply negb_false_iff in E3. rewrite forallb_forall in E3.
  split; [|split].
  - intros n t Hin. destruct (F1 _ _ Hin) as (ps & Hp & _). exists ps.
    destruct (parents_of_sound ev m Hs _ _ _ Hin Hp) as (u & A1 & A2 & A3). eauto.
  - intros n t i Hin Hi. specialize (E3 _ Hin). simpl in E3.
    apply andb_true_iff in E3. destruct E3 as [E3 _].
    unfold refs_ok in E3. apply andb_true_iff in E3. destruct E3 as [_ E3].
    rewrite forallb_forall in E3. specialize (E3 _ Hi).
    destruct (resolve (ev_prefixes ev) m i); [eauto|discriminate].
  - destruct (ev_fix_d10 ev) eqn:Efx.
    + apply (acyclic_sub _ (edge (inc_succ_fixed (ev_prefixes ev) m par))).
      * intros x y. apply inc_pinned_in_fixed.
      * apply (include_dfs_spec m _ (inc_succ_fixed_closed ev m par)).
        apply include_loop_all. exact E2.
    + apply (include_dfs_spec m _ (inc_succ_pinned_closed ev m)).
      eapply first_loop_inc; eauto.
Qed.

(* with the D13 repair finalize itself establishes the proviso of render_fuel_suffices *)
Lemma finalize_d13_blocks ev sufs m tm comps :
  ev_fix_d13 ev = true -> finalize_src ev sufs m = Ok (tm, comps) ->
  forall n e, mfind n tm = Some e -> blocks_acyclic (e_lineage e) = true.
Proof.
  intros Hfx H n e He. unfold finalize_src in H.
  destruct (first_loop ev m m [] [] []) as [[[par sz] tab]|]; [|discriminate].
  destruct (if ev_fix_d10 ev then _ else _); [|discriminate].
  destruct (negb _); [discriminate|].
  rewrite Hfx in H. cbn [andb] in H.
  destruct (negb (forallb _ _)) eqn:E; [discriminate|].
  apply negb_false_iff in E. rewrite forallb_forall in E.
  injection H as <- _. apply mfind_In in He. apply in_map_iff in He.
  destruct He as [[k t] [Heq Hin]]. simpl in Heq. injection Heq as <- <-. simpl.
  apply E. apply (in_map fst) in Hin. exact Hin.
Qed.

Theorem render_fuel_suffices_full ev sufs m :
  msorted m -> ev_fix_d10 ev = true -> ev_fix_d13 ev = true -> forall tm comps,
  finalize_src ev sufs m = Ok (tm, comps) ->
  forall n,
    render (render_fuel {| st_sufs := sufs; st_tpls := tm; st_comps := comps |}) (ev_prefixes ev)
           {| st_sufs := sufs; st_tpls := tm; st_comps := comps |} n <> ROutOfFuel.
Proof.
  intros Hs H10 H13 tm comps Hfin. apply (render_fuel_suffices ev sufs m Hs H10 tm comps Hfin).
  eapply finalize_d13_blocks; eauto.
Qed.
