(* Correspondence checker for C06: the skeleton parser model vs the real parser on token lists
   of the skeleton grammar printed as template text.  Compared: accept / reject, the parenthesis
   depth of `Display` of the top-level `{{ }}` expressions (tera::verif::parse_expr_display) and
   the nesting depth of statement nodes in the `{:#?}` of the parser output
   (tera::verif::parse_debug). *)
From Coq Require Export List NArith.
From Coq Require Import Arith Bool.
From TeraV Require Import Model.ParseDepth.
Export ListNotations.

Record skel_case := { k_toks : list tok; k_ok : bool; k_edepth : nat; k_ndepth : nat }.

(* (accepted, expression paren depth, node depth, peak native depth, panic arm reached, fuel ran out) *)
Definition model_skel (c : skel_case) : bool * nat * nat * nat * bool * bool :=
  match parse cfg_tree (fuel_for (k_toks c)) (k_toks c) with
  | ROk nodes s => (true, edepth nodes, ndepth nodes, peak s, false, false)
  | RErr s => (false, 0, 0, peak s, false, false)
  | RPanic s => (false, 0, 0, peak s, true, false)
  | RFuel => (false, 0, 0, 0, false, true)
  end.

Definition check_skel (c : skel_case) : bool :=
  match parse cfg_tree (fuel_for (k_toks c)) (k_toks c) with
  | ROk nodes _ => k_ok c && Nat.eqb (edepth nodes) (k_edepth c) && Nat.eqb (ndepth nodes) (k_ndepth c)
  | RErr _ => negb (k_ok c)
  | RPanic _ => false
  | RFuel => false
  end.

Definition mismatches {A} (chk : A -> bool) (l : list A) : list N :=
  (fix go (i : N) (l : list A) : list N :=
     match l with
     | [] => []
     | c :: r => if chk c then go (N.succ i) r else i :: go (N.succ i) r
     end) 0%N l.
