(* Correspondence checkers for C15: model result vs the implementation's recorded result. *)
From Coq Require Import List ZArith NArith Bool.
From TeraV Require Import Model.Value Model.Order.
Import ListNotations.

Definition cmp_eqb (a b : comparison) : bool :=
  match a, b with Eq, Eq | Lt, Lt | Gt, Gt => true | _, _ => false end.
Definition ocmp_eqb (a b : option comparison) : bool :=
  match a, b with
  | Some x, Some y => cmp_eqb x y
  | None, None => true
  | _, _ => false
  end.

(* errors are compared as "an error" (the property fixes that it is one, not its class);
   a panic is never equal to anything *)
Definition res_eqb_loose (a b : res value) : bool :=
  match a, b with
  | ROk x, ROk y => value_eqb_syn x y
  | RErr ErrPanic, _ | _, RErr ErrPanic => false
  | RErr _, RErr _ => true
  | _, _ => false
  end.

(* ---- pairs: ==, partial_cmp, cmp through the Rust API and through templates *)
Record pair_case := {
  p_a : value; p_b : value;
  p_eq : bool;                    (* a == b *)
  p_pcmp : option comparison;     (* a.partial_cmp(&b) *)
  p_cmp : comparison;             (* a.cmp(&b) *)
  p_req : res value;              (* {{ x[0] == x[1] }} with x = [a, b] *)
  p_rlt : res value;              (* {{ x[0] < x[1] }} *)
  p_uniq : res value;             (* {{ x | unique }} *)
  p_sort : res value }.           (* {{ x | sort }} *)

(* filters.rs unique / sort on a two-element array (the general model is Model/CollFilters.v) *)
Definition unique2 (a b : value) : res value :=
  ROk (VArr (match vcmp a b with Eq => [a] | _ => [a; b] end)).
Definition sort2 (a b : value) : res value :=
  let skippable := is_none a || is_none b in
  let sorted := match vcmp a b with Gt => [b; a] | _ => [a; b] end in
  if skippable then ROk (VArr sorted)
  else match vpcmp a b with Some _ => ROk (VArr sorted) | None => RErr ErrMsg end.

Definition model_pair (c : pair_case) :=
  (veq (p_a c) (p_b c), vpcmp (p_a c) (p_b c), vcmp (p_a c) (p_b c),
   (vm_eq (p_a c) (p_b c), vm_lt (p_a c) (p_b c)), (unique2 (p_a c) (p_b c), sort2 (p_a c) (p_b c))).

Definition check_pair (c : pair_case) : bool :=
  Bool.eqb (veq (p_a c) (p_b c)) (p_eq c) &&
  ocmp_eqb (vpcmp (p_a c) (p_b c)) (p_pcmp c) &&
  cmp_eqb (vcmp (p_a c) (p_b c)) (p_cmp c) &&
  res_eqb_loose (vm_eq (p_a c) (p_b c)) (p_req c) &&
  res_eqb_loose (vm_lt (p_a c) (p_b c)) (p_rlt c) &&
  res_eqb_loose (unique2 (p_a c) (p_b c)) (p_uniq c) &&
  res_eqb_loose (sort2 (p_a c) (p_b c)) (p_sort c).

(* API-only pairs (no template involved) *)
Record api_case := { a_a : value; a_b : value; a_eq : bool; a_pcmp : option comparison; a_cmp : comparison }.
Definition model_api (c : api_case) := (veq (a_a c) (a_b c), vpcmp (a_a c) (a_b c), vcmp (a_a c) (a_b c)).
Definition check_api (c : api_case) : bool :=
  Bool.eqb (veq (a_a c) (a_b c)) (a_eq c) &&
  ocmp_eqb (vpcmp (a_a c) (a_b c)) (a_pcmp c) &&
  cmp_eqb (vcmp (a_a c) (a_b c)) (a_cmp c).

(* ---- map lookups *)
Record lookup_case := {
  l_m : value; l_k : value;
  l_idx : res value;              (* {{ m[k] }} *)
  l_in : res value;               (* {{ k in m }} *)
  l_cont : res value;             (* {{ m is containing(pat=k) }} *)
  l_get : res value;              (* {{ m | get(key=k) }} *)
  l_getd : res value;             (* {{ m | get(key=k, default=0) }} *)
  l_attr : option (res value) }.  (* {{ m.<k> }} when k is an identifier-shaped string *)

Definition res_of_bool (r : res bool) : res value :=
  match r with ROk b => ROk (VBool b) | RErr e => RErr e end.

Definition filter_get_v (m k : value) (d : option value) : res value :=
  match m with VMap e => filter_get e k d | _ => RErr ErrMsg end.

Definition model_lookup (c : lookup_case) :=
  (vm_subscript_map false (l_m c) (l_k c), vm_in (l_k c) (l_m c),
   res_of_bool (test_containing (l_m c) (l_k c)),
   (filter_get_v (l_m c) (l_k c) None, filter_get_v (l_m c) (l_k c) (Some (VInt I64 0))),
   match l_k c with VStr s _ => Some (vm_load_attr false (l_m c) s) | _ => None end).

Definition check_lookup (c : lookup_case) : bool :=
  res_eqb_loose (vm_subscript_map false (l_m c) (l_k c)) (l_idx c) &&
  res_eqb_loose (vm_in (l_k c) (l_m c)) (l_in c) &&
  res_eqb_loose (res_of_bool (test_containing (l_m c) (l_k c))) (l_cont c) &&
  res_eqb_loose (filter_get_v (l_m c) (l_k c) None) (l_get c) &&
  res_eqb_loose (filter_get_v (l_m c) (l_k c) (Some (VInt I64 0))) (l_getd c) &&
  match l_attr c, l_k c with
  | Some r, VStr s _ => res_eqb_loose (vm_load_attr false (l_m c) s) r
  | Some _, _ => false
  | None, _ => true
  end.

(* ---- membership in arrays and strings *)
Record member_case := { e_c : value; e_x : value; e_in : res value; e_cont : res value }.
Definition model_member (c : member_case) :=
  (vm_in (e_x c) (e_c c), res_of_bool (test_containing (e_c c) (e_x c))).
Definition check_member (c : member_case) : bool :=
  res_eqb_loose (vm_in (e_x c) (e_c c)) (e_in c) &&
  res_eqb_loose (res_of_bool (test_containing (e_c c) (e_x c))) (e_cont c).
