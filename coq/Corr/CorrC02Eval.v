(* Correspondence checker for C02 (evaluation half): the reference evaluator Spec.ExprSem.eval
   vs rendering `{{ (e) | probe }}` (the value) or `{{ e }}` (printing) with the real engine. *)
From TeraV Require Import Model.Value Model.Pratt Spec.ExprSem.
From TeraV Require Model.Order.
Open Scope Z_scope.

(* equality of results up to what C02 does not speak about: the width tag of an integer and the
   safe flag of a string *)
Fixpoint val_sim (a b : value) {struct a} : bool :=
  match a, b with
  | VUndef, VUndef | VNone, VNone => true
  | VBool x, VBool y => Bool.eqb x y
  | VInt _ x, VInt _ y => Z.eqb x y
  | VStr s _, VStr s' _ => str_eqb s s'
  | VArr l, VArr l' =>
      (fix go (l l' : list value) : bool :=
         match l, l' with
         | [], [] => true
         | x :: t, y :: t' => val_sim x y && go t t'
         | _, _ => false
         end) l l'
  | VMap m, VMap m' =>
      (* as sets of entries: keys by value (Order.key_eq), order ignored *)
      Nat.eqb (List.length m) (List.length m') &&
      (fix go (m : list (key * value)) : bool :=
         match m with
         | [] => true
         | (k, x) :: t =>
             (fix look (m' : list (key * value)) : bool :=
                match m' with
                | [] => false
                | (k', y) :: t' => (Order.key_eq k k' && val_sim x y) || look t'
                end) m' && go t
         end) m
  | VFloat x, VFloat y => sf_eqb_syn x y
  | VBytes x, VBytes y => list_eqb N.eqb x y
  | _, _ => false
  end.

(* ev_sx: the expression (surface tree; `desugar` gives the AST the parser builds);
   ev_env: the context (absent variables are unbound);
   ev_print: false = `{{ (e) | probe }}`, ev_impl is the probed value;
             true  = `{{ e }}`, ev_impl is `ROk VNone` when rendering succeeded;
   errors: RErr of any class except ErrPanic. *)
Record eval_case := { ev_sx : sx; ev_env : list (str * value); ev_print : bool; ev_impl : res value }.

(* the parser's own restriction (parser.rs 861-869; `printable` in Model/PrattSide.v encodes it):
   a unary operation — also one that `not in` / `is not` desugar to — directly to the right of `~`
   is a syntax error, even in parentheses.  Such an expression is not well-formed for the parser,
   so it is outside the domain of the evaluator; the engine must answer with a syntax error. *)
Fixpoint concat_unary (s : sx) : bool :=
  let o := fun (x : option sx) => match x with Some y => concat_unary y | None => false end in
  let kws := fun (kw : list (str * sx)) => existsb (fun p : str * sx => match p with (_, v) => concat_unary v end) kw in
  match s with
  | SConst _ | SVar _ => false
  | SAttr e _ _ | SUn _ e | SParen e => concat_unary e
  | SItem e i _ => concat_unary e || concat_unary i
  | SSlice e a b c _ => concat_unary e || o a || o b || o c
  | SBin op a b =>
      (match op with OConcat => is_unary (desugar b) | _ => false end) || concat_unary a || concat_unary b
  | SNotIn a b => concat_unary a || concat_unary b
  | STest e _ kw _ | SFilter e _ kw => concat_unary e || kws kw
  | SCall _ kw => kws kw
  | STern c t f => concat_unary c || concat_unary t || concat_unary f
  | SArr items _ => existsb (fun p : bool * sx => match p with (_, v) => concat_unary v end) items
  | SMap es _ => existsb (fun p : option mkey * sx => match p with (_, v) => concat_unary v end) es
  | SComp e _ _ t c => concat_unary e || concat_unary t || o c
  end.

Definition model_eval (c : eval_case) : ev :=
  let r := eval (ev_env c) (desugar (ev_sx c)) in
  if ev_print c then printed r else r.

Definition check_eval (c : eval_case) : bool :=
  if concat_unary (ev_sx c) then
    (* outside the domain, for exactly this restriction: the engine must reject the text *)
    match ev_impl c with RErr ErrOther => true | _ => false end
  else
  match model_eval c, ev_impl c with
  | Unspec, RErr ErrPanic => false
  | Unspec, _ => true                     (* the documentation leaves it open / another property *)
  | Err, RErr ErrPanic => false
  | Err, RErr _ => true
  | Err, ROk _ => false
  | Val v, ROk v' => if ev_print c then true else val_sim v v'
  | Val _, RErr _ => false
  end.

(* how many cases the specification actually decides (for the evidence file) *)
Definition decided (c : eval_case) : bool :=
  match model_eval c with Unspec => false | _ => true end.
