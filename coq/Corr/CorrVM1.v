(* Correspondence checker for the concrete VM model in the FULL world (Model/World1.v): render a
   finalized template set + component table on the model with the real chunks and compare the
   output text / error class with the real render.  Family `vm1` of C03. *)
From TeraV Require Import Model.Value Model.Instr Model.VM Model.World1.
Local Open Scope nat_scope.

Record vm1_case := {
  u_templates : list (str * template);
  u_components : list (str * (comp_def * list instr));
  u_entry : str;
  u_block : option str;
  u_ctx : ctx;
  u_global : ctx;
  u_impl : res str }.

Definition fuel_vm1 : nat := N.to_nat 30000.

Definition model_vm1 (c : vm1_case) : res str :=
  match assoc_get (u_templates c) (u_entry c) with
  | None => RErr ErrOther
  | Some tpl =>
      match render_to str wr_str1 (world1 (u_templates c) (u_components c)) fuel_vm1 tpl (u_block c)
                      (u_ctx c) (u_global c) [] with
      | RDone _ (SinkTop out) => ROk out
      | RDone _ (SinkBuf _) => RErr ErrPanic
      | RFail e => RErr e
      | ROutOfFuel => RErr ErrOther
      end
  end.

Definition check_vm1 (c : vm1_case) : bool := res_eqb str_eqb (model_vm1 c) (u_impl c).
