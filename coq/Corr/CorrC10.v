(* Correspondence checker for C10: a history of add / autoescape_on calls on one instance;
   after each call the implementation's accept/reject + ErrorKind is compared with the model
   (membership in the set of applicable kinds when several errors apply, as for C11).
   Model of the REPAIRED code for D10, as in CorrC11. *)
From TeraV Require Import Model.Value Model.Registry Corr.CorrC11.
Close Scope Z_scope.

Inductive hcall :=
| HAdd (idx : list nat)       (* batch: indices into the case's pool *)
| HAuto (sufs : list name).

Record hist_case := {
  h_pre : list name;
  h_known : list name;                  (* registered filters / tests / functions used by the pool *)
  h_sufs : list name;                   (* suffixes of the fresh instance *)
  h_pool : list (name * source);
  h_calls : list hcall;
  h_impl : list (rres unit) }.

Definition expand (pool : list (name * source)) (c : hcall) : call :=
  match c with
  | HAdd idx => CAdd (filter_map (fun i => nth_error pool i) idx)
  | HAuto sufs => CAuto sufs
  end.

Definition model_history (c : hist_case) : list (rres unit) :=
  fst (run (mk_env (h_pre c) (h_known c)) (init (h_sufs c)) (map (expand (h_pool c)) (h_calls c))).

Fixpoint check_run (ev : env) (s : state) (calls : list call) (impl : list (rres unit)) : bool :=
  match calls, impl with
  | [], [] => true
  | c :: cs, r :: rs =>
      let '(mr, s') := step ev s c in
      (match mr, r with
       | Ok _, Ok _ => true
       | Err e, Err e' =>
           ekind_eqb e e' ||
           match c with
           | CAdd b => let '(_, m1, _) := insert_all (st_tpls s) b [] in
                       applicable (ev_prefixes ev) (sources m1) e'
           | CAuto _ => false
           end
       | _, _ => false
       end) && check_run ev s' cs rs
  | _, _ => false
  end.

Definition check_history (c : hist_case) : bool :=
  check_run (mk_env (h_pre c) (h_known c)) (init (h_sufs c))
            (map (expand (h_pool c)) (h_calls c)) (h_impl c).

(* a history followed by render() of the given names on the long-lived instance (used by C11:
   the graph that is checked must be the graph of the WHOLE current set after every call) *)
Record hrender_case := {
  hr_hist : hist_case;
  hr_names : list name;
  hr_impl : list rout }.

Definition model_hrender (c : hrender_case) : list rout :=
  let h := hr_hist c in
  let s := snd (run (mk_env (h_pre h) (h_known h)) (init (h_sufs h)) (map (expand (h_pool h)) (h_calls h))) in
  map (fun n => render (render_fuel s) (h_pre h) s n) (hr_names c).

Definition check_hrender (c : hrender_case) : bool :=
  list_eqb rout_agree (model_hrender c) (hr_impl c).
