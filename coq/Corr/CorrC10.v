(* Correspondence checker for C10: a history of add_raw_templates / add_template_file(s) /
   autoescape_on calls on one instance;
   after each call the implementation's accept/reject + ErrorKind is compared with the model
   (membership in the set of applicable kinds when several errors apply, as for C11).
   Model of the REPAIRED code for D10, as in CorrC11. *)
From TeraV Require Import Model.Value Model.Registry Model.RegistryGlob Corr.CorrC11.
Close Scope Z_scope.

(* one (path, name) pair given to add_template_files and what the harness put at that path
   just before the engine read it *)
Inductive hfsrc :=
| HFPool (i : nat)            (* a readable UTF-8 file holding the source of pool entry i *)
| HFBadPath                   (* a path that is not valid UTF-8 *)
| HFNoOpen                    (* no file at that path *)
| HFNoRead.                   (* a file whose content is not UTF-8, or a directory *)
Record hfile := { hf_path : name; hf_src : hfsrc; hf_name : option name }.

Inductive hcall :=
| HAdd (idx : list nat)       (* batch: indices into the case's pool *)
| HAuto (sufs : list name)
| HAddFiles (fs : list hfile).  (* add_template_files; a single file = add_template_file *)

Record hist_case := {
  h_pre : list name;
  h_known : list name;                  (* registered filters / tests / functions used by the pool *)
  h_sufs : list name;                   (* suffixes of the fresh instance *)
  h_pool : list (name * source);
  h_calls : list hcall;
  h_impl : list (rres unit) }.

Definition expand_file (pool : list (name * source)) (f : hfile) : fentry :=
  {| fe_path := hf_path f;
     fe_read := match hf_src f with
                | HFPool i => match nth_error pool i with
                              | Some p => FRead (snd p)
                              | None => FNoOpen
                              end
                | HFBadPath => FBadPath
                | HFNoOpen => FNoOpen
                | HFNoRead => FNoRead
                end;
     fe_name := hf_name f |}.

Definition expand (pool : list (name * source)) (c : hcall) : call :=
  match c with
  | HAdd idx => CAdd (filter_map (fun i => nth_error pool i) idx)
  | HAuto sufs => CAuto sufs
  | HAddFiles fs => CAddFiles (map (expand_file pool) fs)
  end.

Definition model_history (c : hist_case) : list (rres unit) :=
  fst (run (mk_env (h_pre c) (h_known c)) (init (h_sufs c)) (map (expand (h_pool c)) (h_calls c))).

Fixpoint check_run (ev : env) (s : state) (calls : list call) (impl : list (rres unit)) : bool :=
  match calls, impl with
  | [], [] => true
  | c :: cs, r :: rs =>
      let '(mr, s') := step ev s c in
      (match mr, r with
       | Ok _, Ok _ => true
       | Err e, Err e' =>
           ekind_eqb e e' ||
           match c with
           | CAdd b => let '(_, m1, _) := insert_all (st_tpls s) b [] in
                       applicable (ev_prefixes ev) (sources m1) e'
           | CAuto _ => false
           | CAddFiles fs => let '(_, m1, _) := insert_files (st_tpls s) fs [] in
                             applicable (ev_prefixes ev) (sources m1) e'
           end
       | _, _ => false
       end) && check_run ev s' cs rs
  | _, _ => false
  end.

Definition check_history (c : hist_case) : bool :=
  check_run (mk_env (h_pre c) (h_known c)) (init (h_sufs c))
            (map (expand (h_pool c)) (h_calls c)) (h_impl c).

(* ---- histories with load_from_glob / full_reload (cargo feature glob_fs).  For each glob
   call the case carries what tera::load_from_glob(pattern) -- the engine's own directory walk,
   called by the harness on the same directory just before -- answered, and what the harness put
   into each matched file. *)
Inductive hglob :=
| HGInvalid                    (* the walk function returned Err (no `*` in the pattern) *)
| HGFiles (fs : list hfile).   (* matched (path, name) pairs in the order the walk returned them *)

Inductive hgcall :=
| HG (c : hcall)
| HGLoad (pat : name) (r : hglob)
| HGReload (r : hglob).

Record ghist_case := {
  gh_pre : list name;
  gh_known : list name;
  gh_sufs : list name;
  gh_pool : list (name * source);
  gh_calls : list hgcall;
  gh_impl : list (rres unit) }.

Definition expand_glob (pool : list (name * source)) (r : hglob) : globres :=
  match r with
  | HGInvalid => GInvalid
  | HGFiles fs => GFiles (map (expand_file pool) fs)
  end.

Definition gexpand (pool : list (name * source)) (c : hgcall) : gcall :=
  match c with
  | HG c => GCall (expand pool c)
  | HGLoad pat r => GLoad pat (expand_glob pool r)
  | HGReload r => GReload (expand_glob pool r)
  end.

Definition model_ghistory (c : ghist_case) : list (rres unit) :=
  fst (grun (mk_env (gh_pre c) (gh_known c)) (ginit (gh_sufs c)) (map (gexpand (gh_pool c)) (gh_calls c))).

(* the template map finalize was (or would have been) run on by this call, for the
   kinds-applicable test *)
Definition attempted (g : gstate) (c : gcall) : option tmap :=
  let glob_map r :=
      match r with
      | GInvalid => None
      | GFiles fs =>
          let '(_, m1, _) := glob_insert (drop_globbed (gs_globbed g) (st_tpls (gs_st g))) fs false [] in
          Some m1
      end in
  match c with
  | GCall (CAdd b) => let '(_, m1, _) := insert_all (st_tpls (gs_st g)) b [] in Some m1
  | GCall (CAddFiles fs) => let '(_, m1, _) := insert_files (st_tpls (gs_st g)) fs [] in Some m1
  | GCall (CAuto _) => None
  | GLoad _ r => glob_map r
  | GReload r => match gs_glob g with Some _ => glob_map r | None => None end
  end.

Fixpoint check_grun (ev : env) (g : gstate) (calls : list gcall) (impl : list (rres unit)) : bool :=
  match calls, impl with
  | [], [] => true
  | c :: cs, r :: rs =>
      let '(mr, g') := gstep ev g c in
      (match mr, r with
       | Ok _, Ok _ => true
       | Err e, Err e' =>
           ekind_eqb e e' ||
           match attempted g c with
           | Some m1 => applicable (ev_prefixes ev) (sources m1) e'
           | None => false
           end
       | _, _ => false
       end) && check_grun ev g' cs rs
  | _, _ => false
  end.

Definition check_ghistory (c : ghist_case) : bool :=
  check_grun (mk_env (gh_pre c) (gh_known c)) (ginit (gh_sufs c))
             (map (gexpand (gh_pool c)) (gh_calls c)) (gh_impl c).

(* a history followed by render() of the given names on the long-lived instance (used by C11:
   the graph that is checked must be the graph of the WHOLE current set after every call) *)
Record hrender_case := {
  hr_hist : hist_case;
  hr_names : list name;
  hr_impl : list rout }.

Definition model_hrender (c : hrender_case) : list rout :=
  let h := hr_hist c in
  let s := snd (run (mk_env (h_pre h) (h_known h)) (init (h_sufs h)) (map (expand (h_pool h)) (h_calls h))) in
  map (fun n => render (render_fuel s) (h_pre h) s n) (hr_names c).

Definition check_hrender (c : hrender_case) : bool :=
  list_eqb rout_agree (model_hrender c) (hr_impl c).
