(* Correspondence checkers for C11: accept/reject + error kind of a template set, and the
   text/error outcome of rendering every template of an accepted set, model vs implementation.
   The model is the one of the REPAIRED code: fixes/D10-*.patch (`fix_d10`) and
   fixes/D13-*.patch (`fix_d13`). *)
From TeraV Require Import Model.Value Model.Registry.
Close Scope Z_scope.

Definition fix_d10 : bool := true.
Definition fix_d13 : bool := true.

Definition mk_env (pre : list name) (known : list name) : env :=
  {| ev_prefixes := pre; ev_filters := known; ev_tests := known; ev_funcs := known;
     ev_fix_d10 := fix_d10; ev_fix_d13 := fix_d13 |}.

(* the source map a batch produces on an empty instance (for the kinds-applicable test) *)
Definition smap_of (set : list (name * source)) : smap :=
  fold_left (fun m p => match snd p with Some t => minsert (fst p) t m | None => m end) set [].

(* "the corresponding error": some template of the set exhibits this kind *)
Definition applicable (pre : list name) (m : smap) (k : ekind) : bool :=
  existsb (fun nt : name * tdesc =>
             match k with
             | EkMissingParent | EkCircularExtend =>
                 match parents_of pre m (fst nt) (snd nt) with
                 | Err e => ekind_eqb e k
                 | Ok _ => false
                 end
             | EkCircularInclude =>
                 match check_include_cycles (inc_succ_pinned pre m) m (fst nt) with
                 | Err e => ekind_eqb e k
                 | Ok _ => false
                 end
             | _ => false
             end) m.

Record graph_case := {
  g_pre : list name;
  g_set : list (name * source);
  g_impl : rres unit }.

Definition model_graph (c : graph_case) : rres unit :=
  fst (add_batch (mk_env (g_pre c) []) (init []) (g_set c)).

Definition check_graph (c : graph_case) : bool :=
  match model_graph c, g_impl c with
  | Ok _, Ok _ => true
  | Err e, Err e' => ekind_eqb e e' || applicable (g_pre c) (smap_of (g_set c)) e'
  | _, _ => false
  end.

(* renders of an accepted set, one outcome per template in the order of the set.
   Implementation side: RText ids | RFail _ (an error value) | ROutOfFuel (abort or timeout) *)
Record render_case := {
  r_pre : list name;
  r_set : list (name * source);
  r_more : list name;        (* further names passed to render(): short names reached through prefixes *)
  r_impl : list rout }.

Definition model_render (c : render_case) : list rout :=
  let s := snd (add_batch (mk_env (r_pre c) []) (init []) (r_set c)) in
  map (fun n => render (render_fuel s) (r_pre c) s n) (map fst (r_set c) ++ r_more c).

Definition rout_agree (a b : rout) : bool :=
  match a, b with
  | RText x, RText y => list_eqb N.eqb x y
  | RFail _, RFail _ => true
  | ROutOfFuel, ROutOfFuel => true
  | _, _ => false
  end.

Definition check_render (c : render_case) : bool :=
  list_eqb rout_agree (model_render c) (r_impl c).
