(* Correspondence checkers for C13: model result vs the implementation's recorded result. *)
From TeraV Require Import Model.Value Model.Number.

(* res value with "not modelled" rendered as a value the implementation can never produce *)
Definition show (r : mres) : res value :=
  match r with Some x => x | None => RErr ErrOther end.

(* --- arith: `{{ (a OP b) | probe }}` for every OP the model covers on this operand pair *)
Record arith_case := { a_l : value; a_r : value; a_res : list (binop * res value) }.

Definition model_arith (c : arith_case) : list (binop * res value) :=
  map (fun '(op, _) => (op, show (vm_binop op (a_l c) (a_r c)))) (a_res c).
Definition check_arith (c : arith_case) : bool :=
  forallb (fun '(op, impl) =>
             match vm_binop op (a_l c) (a_r c) with
             | Some m => res_eqb value_eqb_syn m impl
             | None => false      (* the harness must not send unmodelled operations *)
             end) (a_res c).

(* --- neg: `{{ (-a) | probe }}` *)
Record neg_case := { n_a : value; n_impl : res value }.
Definition model_neg (c : neg_case) : res value := show (vm_negative (n_a c)).
Definition check_neg (c : neg_case) : bool :=
  match vm_negative (n_a c) with
  | Some m => res_eqb value_eqb_syn m (n_impl c)
  | None => false
  end.

(* --- cmp: `{{ [a == b, a != b, a < b, a <= b, a > b, a >= b] | probe }}` and, for two numbers,
       the Rust API on the same pair: `a.partial_cmp(&b)`, `a.cmp(&b)` (Ord, what sort / min / max
       use), `a == b` (PartialEq).  NaN operands of either sign and any payload are all S754_nan
       here: the code may not look at them (the harness notes the bit patterns in a comment). *)
Record cmp_case := { c_l : value; c_r : value; c_impl : res value;
                     c_api : option (option comparison * comparison * bool) }.

Definition all_cmpops := [OpEq; OpNe; OpLt; OpLe; OpGt; OpGe].
Fixpoint collect_res (l : list (res value)) : res (list value) :=
  match l with
  | [] => ROk []
  | r :: t => res_bind r (fun v => res_bind (collect_res t) (fun vs => ROk (v :: vs)))
  end.
Definition cmp_all (a b : value) : res value :=
  res_bind (collect_res (map (fun op => vm_cmp op a b) all_cmpops)) (fun vs => ROk (VArr vs)).

Definition cmpn_eqb (a b : comparison) : bool :=
  match a, b with Eq, Eq | Lt, Lt | Gt, Gt => true | _, _ => false end.
Definition ocmp_eqb (a b : option comparison) : bool :=
  match a, b with
  | Some x, Some y => cmpn_eqb x y
  | None, None => true
  | _, _ => false
  end.

(* Ord::cmp on two numbers: partial_cmp when it answers (type_order ties on two numbers) *)
Definition num_ord_cmp (a b : value) : comparison :=
  match num_partial_cmp a b with Some o => o | None => Eq end.

Definition model_cmp (c : cmp_case) : res value * option (option comparison * comparison * bool) :=
  (cmp_all (c_l c) (c_r c),
   match c_api c with
   | None => None
   | Some _ => Some (num_partial_cmp (c_l c) (c_r c), num_ord_cmp (c_l c) (c_r c),
                     num_eq (c_l c) (c_r c))
   end).
Definition check_cmp (c : cmp_case) : bool :=
  res_eqb value_eqb_syn (cmp_all (c_l c) (c_r c)) (c_impl c) &&
  match c_api c with
  | None => true
  | Some (pc, o, e) =>
      ocmp_eqb (num_partial_cmp (c_l c) (c_r c)) pc &&
      cmpn_eqb (num_ord_cmp (c_l c) (c_r c)) o &&
      Bool.eqb (num_eq (c_l c) (c_r c)) e
  end.

(* --- cmpx: the left operand is computed inside the template, so that results such as -0.0
       (`0.0 * -1`) and the NaN the hardware produces (`inf - inf`) meet the comparison operators
       exactly as the VM left them on the stack:
       `{{ [(a OP b) == c, (a OP b) != c, ... >= c] | probe }}`, or with the sides swapped *)
Record cmpx_case := { x_op : binop; x_a : value; x_b : value; x_c : value; x_swap : bool;
                      x_impl : res value }.
Definition model_cmpx (c : cmpx_case) : res value :=
  match vm_binop (x_op c) (x_a c) (x_b c) with
  | Some (ROk v) => if x_swap c then cmp_all (x_c c) v else cmp_all v (x_c c)
  | Some (RErr e) => RErr e
  | None => RErr ErrOther
  end.
Definition check_cmpx (c : cmpx_case) : bool :=
  match vm_binop (x_op c) (x_a c) (x_b c) with
  | None => false
  | Some _ => res_eqb value_eqb_syn (model_cmpx c) (x_impl c)
  end.

(* --- prim: the f64 primitives of the model against Rust's own; kind 0 = integer `as f64`,
       1 = floor, 2 = `as i128`, 3 = `as u128`, 4 = x % y, 5 = trunc, 6 = rem_euclid,
       7 = div_euclid *)
Record prim_case := { p_kind : N; p_z : Z; p_x : spec_float; p_y : spec_float;
                      p_f : spec_float; p_i : Z }.

Definition model_prim (c : prim_case) : spec_float * Z :=
  match p_kind c with
  | 0%N => (f64_of_Z (p_z c), 0)
  | 1%N => (f_floor (p_x c), 0)
  | 2%N => (S754_nan, f_as_i128 (p_x c))
  | 3%N => (S754_nan, f_as_u128 (p_x c))
  | 4%N => (f_fmod (p_x c) (p_y c), 0)
  | 5%N => (f_trunc (p_x c), 0)
  | 6%N => (f_rem_euclid (p_x c) (p_y c), 0)
  | _ => (f_div_euclid (p_x c) (p_y c), 0)
  end.
Definition check_prim (c : prim_case) : bool :=
  let '(f, i) := model_prim c in
  match p_kind c with
  | 2%N | 3%N => i =? p_i c
  | _ => sf_eqb_syn f (p_f c)
  end.
