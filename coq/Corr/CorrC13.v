(* Correspondence checkers for C13: model result vs the implementation's recorded result. *)
From TeraV Require Import Model.Value Model.Number.

(* res value with "not modelled" rendered as a value the implementation can never produce *)
Definition show (r : mres) : res value :=
  match r with Some x => x | None => RErr ErrOther end.

(* --- arith: `{{ (a OP b) | probe }}` for every OP the model covers on this operand pair *)
Record arith_case := { a_l : value; a_r : value; a_res : list (binop * res value) }.

Definition model_arith (c : arith_case) : list (binop * res value) :=
  map (fun '(op, _) => (op, show (vm_binop op (a_l c) (a_r c)))) (a_res c).
Definition check_arith (c : arith_case) : bool :=
  forallb (fun '(op, impl) =>
             match vm_binop op (a_l c) (a_r c) with
             | Some m => res_eqb value_eqb_syn m impl
             | None => false      (* the harness must not send unmodelled operations *)
             end) (a_res c).

(* --- neg: `{{ (-a) | probe }}` *)
Record neg_case := { n_a : value; n_impl : res value }.
Definition model_neg (c : neg_case) : res value := show (vm_negative (n_a c)).
Definition check_neg (c : neg_case) : bool :=
  match vm_negative (n_a c) with
  | Some m => res_eqb value_eqb_syn m (n_impl c)
  | None => false
  end.

(* --- cmp: `{{ [a == b, a != b, a < b, a <= b, a > b, a >= b] | probe }}` *)
Record cmp_case := { c_l : value; c_r : value; c_impl : res value }.

Definition all_cmpops := [OpEq; OpNe; OpLt; OpLe; OpGt; OpGe].
Fixpoint collect_res (l : list (res value)) : res (list value) :=
  match l with
  | [] => ROk []
  | r :: t => res_bind r (fun v => res_bind (collect_res t) (fun vs => ROk (v :: vs)))
  end.
Definition model_cmp (c : cmp_case) : res value :=
  res_bind (collect_res (map (fun op => vm_cmp op (c_l c) (c_r c)) all_cmpops))
           (fun vs => ROk (VArr vs)).
Definition check_cmp (c : cmp_case) : bool :=
  res_eqb value_eqb_syn (model_cmp c) (c_impl c).

(* --- prim: the f64 primitives of the model against Rust's own; kind 0 = integer `as f64`,
       1 = floor, 2 = `as i128`, 3 = `as u128`, 4 = x % y, 5 = trunc, 6 = rem_euclid,
       7 = div_euclid *)
Record prim_case := { p_kind : N; p_z : Z; p_x : spec_float; p_y : spec_float;
                      p_f : spec_float; p_i : Z }.

Definition model_prim (c : prim_case) : spec_float * Z :=
  match p_kind c with
  | 0%N => (f64_of_Z (p_z c), 0)
  | 1%N => (f_floor (p_x c), 0)
  | 2%N => (S754_nan, f_as_i128 (p_x c))
  | 3%N => (S754_nan, f_as_u128 (p_x c))
  | 4%N => (f_fmod (p_x c) (p_y c), 0)
  | 5%N => (f_trunc (p_x c), 0)
  | 6%N => (f_rem_euclid (p_x c) (p_y c), 0)
  | _ => (f_div_euclid (p_x c) (p_y c), 0)
  end.
Definition check_prim (c : prim_case) : bool :=
  let '(f, i) := model_prim c in
  match p_kind c with
  | 2%N | 3%N => i =? p_i c
  | _ => sf_eqb_syn f (p_f c)
  end.
