(* Correspondence checker for C17: one cell of the built-in matrix = (kind, name, receiver, kwargs,
   std oracles used by that cell, implementation outcome).  The model outcome is compared by
   class (Ok | InvalidArgument | MissingArgument | OutOfRange | other) and, for Ok, by value. *)
From Coq Require Import String.
From TeraV Require Import Model.Value Model.Builtins.

Record bcase := {
  b_kind : N;                                  (* 0 filter, 1 test, 2 function *)
  b_name : string;
  b_recv : value;
  b_kw : list (str * value);
  b_casemap : list (N * (list N * list N));    (* char -> (to_uppercase, to_lowercase) *)
  b_sigma : list (str * list nat);             (* string -> indices whose capital sigma is final *)
  b_pow10 : list (Z * spec_float);             (* p -> 10.0_f64.powi(p) *)
  b_impl : bres value }.

Fixpoint assoc_N {A} (k : N) (l : list (N * A)) : option A :=
  match l with
  | [] => None
  | (k', a) :: t => if N.eqb k k' then Some a else assoc_N k t
  end.
Fixpoint assoc_str {A} (k : str) (l : list (str * A)) : option A :=
  match l with
  | [] => None
  | (k', a) :: t => if str_eqb k k' then Some a else assoc_str k t
  end.
Fixpoint assoc_Z {A} (k : Z) (l : list (Z * A)) : option A :=
  match l with
  | [] => None
  | (k', a) :: t => if Z.eqb k k' then Some a else assoc_Z k t
  end.

Definition oracles_of (c : bcase) : oracles :=
  {| o_upper := fun ch => match assoc_N ch (b_casemap c) with Some p => fst p | None => [ch] end;
     o_lower := fun ch => match assoc_N ch (b_casemap c) with Some p => snd p | None => [ch] end;
     o_final_sigma := fun s i => match assoc_str s (b_sigma c) with
                                 | Some l => existsb (Nat.eqb i) l
                                 | None => false
                                 end;
     o_pow10 := fun p => match assoc_Z p (b_pow10 c) with Some f => f | None => S754_nan end |}.

Definition model_case (c : bcase) : option (bres value) :=
  match b_kind c with
  | 0%N => match assoc_string (b_name c) (filter_table (oracles_of c)) with
           | Some f => f (b_kw c) (b_recv c)
           | None => None
           end
  | 1%N => match assoc_string (b_name c) test_table with
           | Some f => f (b_kw c) (b_recv c)
           | None => None
           end
  | _ => match assoc_string (b_name c) function_table with
         | Some f => f (b_kw c)
         | None => None
         end
  end.

Definition berr_eqb (a b : berr) : bool :=
  match a, b with
  | EInvalidArg, EInvalidArg | EMissingArg, EMissingArg | EOutOfRange, EOutOfRange
  | EOther, EOther | EPanic, EPanic => true
  | _, _ => false
  end.

(* multiset equality of value lists (keys / values / pairs: HashMap iteration order) *)
Fixpoint remove_first (x : value) (l : list value) : option (list value) :=
  match l with
  | [] => None
  | y :: t => if value_eqb_syn x y then Some t
              else match remove_first x t with Some r => Some (y :: r) | None => None end
  end.
Fixpoint perm_eqb (a b : list value) : bool :=
  match a with
  | [] => match b with [] => true | _ => false end
  | x :: t => match remove_first x b with Some r => perm_eqb t r | None => false end
  end.

Definition unordered (name : string) : bool :=
  (String.eqb name "keys" || String.eqb name "values" || String.eqb name "pairs")%string.

Definition bres_eqb (unord : bool) (a b : bres value) : bool :=
  match a, b with
  | BOk x, BOk y =>
      if unord then match x, y with VArr l, VArr l' => perm_eqb l l' | _, _ => false end
      else value_eqb_syn x y
  | BErr e, BErr e' => berr_eqb e e'
  | _, _ => false
  end.

(* a cell the harness believes modelled but the model leaves to an oracle counts as a mismatch *)
Definition check_case (c : bcase) : bool :=
  match model_case c with
  | Some r => bres_eqb (N.eqb (b_kind c) 0 && unordered (b_name c)) r (b_impl c)
  | None => false
  end.
