(* Correspondence checker for the concrete VM model: render a (finalized) template set on the
   model with the real chunks and compare the output text / error class with the real render. *)
From TeraV Require Import Model.Value Model.Instr Model.VFormat Model.VM Model.World0.
Local Open Scope nat_scope.

Record vm_case := {
  v_templates : list (str * template);
  v_entry : str;
  v_block : option str;
  v_ctx : ctx;
  v_global : ctx;
  v_impl : res str }.

Definition model_vm (c : vm_case) : res str :=
  match assoc_get (v_templates c) (v_entry c) with
  | None => RErr ErrOther
  | Some tpl =>
      match render_to str wr_str (world0 (v_templates c)) (N.to_nat 6000) tpl (v_block c) (v_ctx c) (v_global c) [] with
      | RDone _ (SinkTop out) => ROk out
      | RDone _ (SinkBuf _) => RErr ErrPanic
      | RFail e => RErr e
      | ROutOfFuel => RErr ErrOther
      end
  end.

Definition check_vm (c : vm_case) : bool := res_eqb str_eqb (model_vm c) (v_impl c).
