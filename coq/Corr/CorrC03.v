(* Correspondence checkers for C03:
   family `compile`: Model/Compile.v vs the real compiler (listing BEFORE optimisation, hook
                     tera::verif::chunk_listings) on generated statement trees;
   family `ref`:     the reference interpreter Spec/Stmt.v vs tera.render on generated template
                     libraries (statement trees printed as template source). *)
From TeraV Require Import Model.Value Model.Instr Model.VFormat Model.VM Model.World0 Spec.Stmt Model.Compile.
Local Open Scope nat_scope.

Record compile_case := {
  cc_body : list stmt;
  cc_impl : list instr }.

Definition model_compile (c : compile_case) : list instr := compile (cc_body c).
Definition check_compile (c : compile_case) : bool :=
  list_eqb instr_eqb (model_compile c) (cc_impl c).

Definition builtins0 : builtins := builtins_of_world (world0 []).

Record ref_case := {
  rc_lib : list tdef;            (* entry template first, then what it (transitively) includes *)
  rc_entry : str;
  rc_ctx : bindings;
  rc_global : bindings;
  rc_impl : res str }.

Definition model_ref (c : ref_case) : res str :=
  render builtins0 None (rc_lib c) (rc_entry c) (rc_ctx c) (rc_global c).

(* output text must agree; errors are compared as "an error" (the specification has no error classes) *)
Definition check_ref (c : ref_case) : bool :=
  match model_ref c, rc_impl c with
  | ROk a, ROk b => str_eqb a b
  | RErr _, RErr _ => true
  | _, _ => false
  end.

(* model-internal cross check used by the `ref` family as well: the compiled library run on the
   model VM gives what the reference interpreter gives (this is what compile_correct proves) *)
Definition model_ref_vm (c : ref_case) : res str :=
  let tpls := map (fun t => (td_name t, compile_tdef t)) (rc_lib c) in
  match assoc_get tpls (rc_entry c) with
  | None => RErr ErrOther
  | Some tpl =>
      match render_to str wr_str (world0 tpls) (N.to_nat 20000) tpl None (rc_ctx c) (rc_global c) [] with
      | RDone _ (SinkTop out) => ROk out
      | RDone _ (SinkBuf _) => RErr ErrPanic
      | RFail e => RErr e
      | ROutOfFuel => RErr ErrOther
      end
  end.

Definition check_ref_vm (c : ref_case) : bool :=
  match model_ref c, model_ref_vm c with
  | ROk a, ROk b => str_eqb a b
  | RErr _, RErr _ => true
  | _, _ => false
  end.

Definition check_ref_both (c : ref_case) : bool := check_ref c && check_ref_vm c.
