(* Correspondence checkers for C18.
   wfail : real finalized chunks + context + a writer that gives up after n characters; the model
           (Model/VM.v under `wr_of budget_writer`, watched through `sticky budget_writer`) must
           agree with the engine on the outcome class and on the text the writer was left holding.
           An engine writer failing at its k-th write call is the budget writer with n = the number
           of characters the successful run had written before that call.
   wcalls: the model's write_all calls (the log) concatenate to the engine's output, every model
           call boundary is an engine call boundary (a model call is a batch of engine calls:
           Value::format and the escaper write piecewise), and `failing_at_call k` on the model is
           left holding the first k model calls.
   audit : every interior-mutability token found in tera/src (outside the guarded hook module)
           must be on the committed allow-list. *)
From TeraV Require Import Model.Value Model.Instr Model.VFormat Model.VM Model.World0 Model.Writer.
Local Open Scope nat_scope.

Definition corr_fuel : nat := N.to_nat 6000.

Definition class_of {W} (r : rres W) : res unit :=
  match r with
  | RDone _ _ => ROk tt
  | RFail e => RErr e
  | ROutOfFuel => RErr ErrOther
  end.

Definition unit_eqb (_ _ : unit) : bool := true.

Record wfail_case := {
  wf_templates : list (str * template);
  wf_entry : str;
  wf_block : option str;
  wf_ctx : ctx;
  wf_budget : nat;                (* characters the writer accepts before failing *)
  wf_impl : res unit;             (* what render_to / render_block_to returned (class) *)
  wf_accepted : str }.            (* what the engine's writer had accepted when it returned *)

(* (outcome class under the failing writer, text the writer is left holding if observable) *)
Definition model_wfail (c : wfail_case) : res unit * option str :=
  match assoc_get (wf_templates c) (wf_entry c) with
  | None => (RErr ErrOther, None)
  | Some tpl =>
      let wd := world0 (wf_templates c) in
      let gen := render_to _ (wr_of budget_writer) wd corr_fuel tpl (wf_block c) (wf_ctx c) [] ([], wf_budget c) in
      let obs := render_to _ (sticky budget_writer) wd corr_fuel tpl (wf_block c) (wf_ctx c) []
                           (([], wf_budget c), true) in
      (class_of gen,
       match obs with
       | RDone _ (SinkTop ((a, _), _)) => Some a
       | _ => None          (* the template failed by itself: RFail carries no sink *)
       end)
  end.

Definition check_wfail (c : wfail_case) : bool :=
  let (cl, a) := model_wfail c in
  res_eqb unit_eqb cl (wf_impl c) &&
  match a with Some t => str_eqb t (wf_accepted c) | None => true end.

Record wcalls_case := {
  wc_templates : list (str * template);
  wc_entry : str;
  wc_block : option str;
  wc_ctx : ctx;
  wc_out : str;                   (* the engine's full output *)
  wc_bounds : list nat;           (* characters written before each engine write call, and the total *)
  wc_k : nat }.                   (* a model-level call index to fail at *)

Fixpoint offsets (from : nat) (l : list str) : list nat :=
  match l with [] => [] | t :: r => (from + length t) :: offsets (from + length t) r end.

Definition mem_nat (n : nat) (l : list nat) : bool := existsb (Nat.eqb n) l.

Definition model_wcalls (c : wcalls_case) : option (list str) * res unit * option str :=
  match assoc_get (wc_templates c) (wc_entry c) with
  | None => (None, RErr ErrOther, None)
  | Some tpl =>
      let wd := world0 (wc_templates c) in
      let log := render_to _ wr_log wd corr_fuel tpl (wc_block c) (wc_ctx c) [] [] in
      let gen := render_to _ (wr_of failing_at_call) wd corr_fuel tpl (wc_block c) (wc_ctx c) [] ([], wc_k c) in
      let obs := render_to _ (sticky failing_at_call) wd corr_fuel tpl (wc_block c) (wc_ctx c) []
                           (([], wc_k c), true) in
      (match log with RDone _ (SinkTop l) => Some l | _ => None end,
       class_of gen,
       match obs with RDone _ (SinkTop ((a, _), _)) => Some a | _ => None end)
  end.

Definition check_wcalls (c : wcalls_case) : bool :=
  match model_wcalls c with
  | (Some l, cl, Some a) =>
      str_eqb (concat l) (wc_out c) &&
      forallb (fun n => mem_nat n (wc_bounds c)) (offsets 0 l) &&
      (if Nat.ltb (wc_k c) (length l)
       then res_eqb unit_eqb cl (RErr ErrIo) && str_eqb a (concat (firstn (wc_k c) l)) &&
            mem_nat (length a) (0 :: wc_bounds c)
       else res_eqb unit_eqb cl (ROk tt) && str_eqb a (wc_out c))
  | _ => false
  end.

(* ---------- source audit ---------- *)

Record audit_case := { au_file : str; au_kind : str }.

(* value/mod.rs: `static EMPTY_MAP: LazyLock<Arc<Map>>` (read-only after initialisation) *)
Definition audit_allow : list (str * str) :=
  [ ([118;97;108;117;101;47;109;111;100;46;114;115]%N, [76;97;122;121;76;111;99;107]%N) ].

Definition check_audit (c : audit_case) : bool :=
  existsb (fun p => str_eqb (fst p) (au_file c) && str_eqb (snd p) (au_kind c)) audit_allow.
Definition model_audit (c : audit_case) : bool := check_audit c.
