(* Correspondence checkers for C05: model result vs the implementation's recorded result. *)
From TeraV Require Import Model.Value Model.Instr Model.Component Gen.TypeTables Spec.ComponentSpec.

(* ---------------------------------------------------------------- canonical forms *)

Fixpoint ins_ctx (x : str * value) (l : ctx) : ctx :=
  match l with
  | [] => [x]
  | y :: t => if str_ltb (fst y) (fst x) then y :: ins_ctx x t else x :: l
  end.
Definition sort_ctx (c : ctx) : ctx := fold_right ins_ctx [] c.

Definition key_str (k : key) : str := match k with KStr s _ => s | _ => [] end.
Fixpoint ins_kmap (x : key * value) (l : kmap) : kmap :=
  match l with
  | [] => [x]
  | y :: t => if str_ltb (key_str (fst y)) (key_str (fst x)) then y :: ins_kmap x t else x :: l
  end.
(* a rest map (string keys only) in key order, as the harness prints maps *)
Definition sort_top_map (v : value) : value :=
  match v with VMap m => VMap (fold_right ins_kmap [] m) | v => v end.

(* the context as `{{ __tera_context }}` shows it: entries by key, map values (the rest map)
   with their entries by key *)
Definition canon_ctx (c : ctx) : ctx := sort_ctx (map (fun kv => (fst kv, sort_top_map (snd kv))) c).

Definition ctx_eqb (a b : ctx) : bool :=
  list_eqb (fun x y => str_eqb (fst x) (fst y) && value_eqb_syn (snd x) (snd y)) a b.

Definition ctype_eqb (a b : ctype) : bool :=
  match a, b with
  | TString, TString | TBool, TBool | TInteger, TInteger | TFloat, TFloat | TNumber, TNumber
  | TArray, TArray | TMap, TMap | TBytes, TBytes => true
  | _, _ => false
  end.
Definition opt_eqb {A} (f : A -> A -> bool) (a b : option A) : bool :=
  match a, b with
  | Some x, Some y => f x y
  | None, None => true
  | _, _ => false
  end.

(* ---------------------------------------------------------------- bind: the context a component sees *)

(* b_types: what the engine reports as the parameter types (declared or inferred);
   b_impl: the callee's `__tera_context`, entries by key, or the error class.
   b_api: through Tera::render_component (attributes are then plain key/value pairs put into
   a Context) or through a call site of a template at recursion counter b_depth. *)
Record bind_case := {
  b_params : list param; b_rest : option str; b_types : list (option ctype);
  b_attrs : list attr; b_body : option str; b_api : bool; b_depth : nat;
  b_impl : res ctx }.

Definition attrs_ctx (attrs : list attr) : ctx :=
  fold_left (fun c a => match a with AKv k v => ctx_insert k v c | ASpread _ => c end) attrs [].

Definition model_frame (c : bind_case) : res (cframe unit) :=
  let d := {| def_params := b_params c; def_rest := b_rest c |} in
  if b_api c then api_component_call d tt (attrs_ctx (b_attrs c)) (b_body c) false
  else vm_call_site d tt (b_attrs c) (b_body c) (b_depth c) None.

Definition model_bind (c : bind_case) : res ctx :=
  match model_frame c with
  | ROk f => ROk (canon_ctx (dump_context (state_new (fr_ctx f))))
  | RErr e => RErr e
  end.

(* the documented acceptance rule (Spec/ComponentSpec.v `accepts`) as a boolean, evaluated
   directly on the implementation's verdict: this comparison does not go through the ported
   build_context nor through the generated type tables, so it still finds a failing input when
   the model follows a changed arm *)
Definition is_some {A} (o : option A) : bool := match o with Some _ => true | None => false end.
Definition accepts_b (d : comp_def) (keys : list str) (get : str -> option value) : bool :=
  (forallb (declared d) keys || is_some (def_rest d)) &&
  forallb (fun p => match get (p_name p) with
                    | Some v => match spec_type p with Some t => doc_matches t v | None => true end
                    | None => is_some (p_default p)
                    end) (def_params d).

Definition spec_verdict (c : bind_case) : option bool :=
  let d := {| def_params := b_params c; def_rest := b_rest c |} in
  if b_api c then Some (accepts_b d (ctx_keys (attrs_ctx (b_attrs c))) (ctx_get (attrs_ctx (b_attrs c))))
  else if (20 <=? b_depth c)%nat then None
  else match build_kwargs (b_attrs c) with
       | ROk m => Some (accepts_b d (str_keys m) (kw_get m))
       | RErr _ => None
       end.

Definition check_bind (c : bind_case) : bool :=
  list_eqb (opt_eqb ctype_eqb) (map effective_type (b_params c)) (b_types c) &&
  res_eqb ctx_eqb (model_bind c) (b_impl c) &&
  match spec_verdict c with
  | Some ok => Bool.eqb ok (match b_impl c with ROk _ => true | RErr _ => false end)
  | None => true
  end.

(* ---------------------------------------------------------------- iso: what names resolve to *)

(* The caller's state at the call site (loops innermost last, set variables, the includer's
   state one level up, context, global context), the probed names, what the caller sees for
   them and what the component body sees for them. *)
Record iso_case := {
  i_loops : list ctx; i_sets : ctx;
  i_parent : option (list ctx * ctx);          (* includer: its loops and set variables *)
  i_context : ctx; i_global : ctx;
  i_params : list param; i_rest : option str; i_attrs : list attr; i_body : option str;
  i_probes : list str;
  i_caller : list value; i_callee : res (list value) }.

Definition caller_state (c : iso_case) : vstate :=
  match i_parent c with
  | None => VState (i_loops c) (i_sets c) None (i_context c) (Some (i_global c))
  | Some (pl, ps) =>
      VState (i_loops c) (i_sets c)
             (Some (VState pl ps None (i_context c) (Some (i_global c)))) (i_context c) None
  end.

Definition model_iso (c : iso_case) : list value * res (list value) :=
  let d := {| def_params := i_params c; def_rest := i_rest c |} in
  (map (get_value (caller_state c)) (i_probes c),
   match vm_call_site d tt (i_attrs c) (i_body c) 0 None with
   | ROk f =>
       (* the component body probes the names itself, then from a template it includes *)
       ROk (map (get_value (state_new (fr_ctx f))) (i_probes c) ++
            map (get_value (state_include (state_new (fr_ctx f)))) (i_probes c))
   | RErr e => RErr e
   end).

Definition vlist_eqb := list_eqb value_eqb_syn.
Definition check_iso (c : iso_case) : bool :=
  let '(a, b) := model_iso c in
  vlist_eqb a (i_caller c) && res_eqb vlist_eqb b (i_callee c).

(* ---------------------------------------------------------------- prio: the component table *)

(* pr_impl: component name -> defining template as the table has it (observed through
   render_component and a one-off call site), by name.
   pr_sites: for every template T that defines a name N (at whatever priority): (T, N, the
   definition a call written in T itself ran when T is rendered directly, the same when T is
   included from another template).
   pr_oneoff: for each name N, the definition a `render_str` template that defines its own N
   (marked `__local`) and calls it ran. *)
Record prio_case := {
  pr_prefixes : list str; pr_tpls : list (str * list str);
  pr_impl : res (list (str * str));
  pr_sites : list (str * str * str * str);
  pr_oneoff : list (str * str) }.

Fixpoint ins_pair (x : str * str) (l : list (str * str)) : list (str * str) :=
  match l with
  | [] => [x]
  | y :: t => if str_ltb (fst y) (fst x) then y :: ins_pair x t else x :: l
  end.

Definition model_prio (c : prio_case) : res (list (str * str)) :=
  match component_table (pr_prefixes c) (pr_tpls c) with
  | ROk t => ROk (fold_right ins_pair [] (map (fun e => (fst e, fst (snd e))) t))
  | RErr e => RErr e
  end.

Definition local_name : str := [95; 95; 108; 111; 99; 97; 108]%N.   (* "__local" *)

(* the call-site lookups of the case: (template, name, definition run) for calls written in a
   defining template, and (name, definition run) for the one-off templates *)
Definition model_sites (c : prio_case) : res (list (str * str * res str) * list (str * res str)) :=
  match component_table (pr_prefixes c) (pr_tpls c) with
  | ROk t =>
      ROk (flat_map (fun tc => map (fun n => (fst tc, n, lookup_component t (map (fun x => (x, fst tc)) (snd tc)) n))
                                   (snd tc)) (pr_tpls c),
           map (fun no => (fst no, lookup_component t [(fst no, local_name)] (fst no))) (pr_oneoff c))
  | RErr e => RErr e
  end.

Definition res_str_is (r : res str) (x : str) : bool := match r with ROk y => str_eqb y x | RErr _ => false end.

Definition check_prio (c : prio_case) : bool :=
  res_eqb (list_eqb (fun x y => str_eqb (fst x) (fst y) && str_eqb (snd x) (snd y)))
          (model_prio c) (pr_impl c) &&
  match component_table (pr_prefixes c) (pr_tpls c) with
  | RErr _ => true
  | ROk t =>
      (* one observation per (defining template, name), in the order of pr_tpls *)
      list_eqb (fun (m o : str * str) => str_eqb (fst m) (fst o) && str_eqb (snd m) (snd o))
               (flat_map (fun tc => map (fun n => (fst tc, n)) (snd tc)) (pr_tpls c))
               (map (fun o : str * str * str * str => let '(tn, n, _, _) := o in (tn, n)) (pr_sites c)) &&
      forallb (fun o : str * str * str * str =>
                 let '(tn, n, direct, included) := o in
                 let local := match local_get (pr_tpls c) tn with
                              | Some cs => map (fun x => (x, tn)) cs | None => [] end in
                 res_str_is (lookup_component t local n) direct &&
                 res_str_is (lookup_component t local n) included) (pr_sites c) &&
      forallb (fun no : str * str => res_str_is (lookup_component t [(fst no, local_name)] (fst no)) (snd no))
              (pr_oneoff c)
  end.

(* ---------------------------------------------------------------- depth: nesting paths *)

(* a chain of nested frames below the entry point: true = component call, false = include;
   the implementation renders it (ROk true) or stops with an error *)
(* d_prog: which program realises the path (0 chain of distinct components/templates, 1 self-
   recursive, 2 mutually recursive, 3 recursive through an include, 4 recursive body call) *)
Record depth_case := { d_api : bool; d_prog : N; d_path : list bool; d_impl : res bool }.

Definition model_depth (c : depth_case) : res bool :=
  match run (init_stack (d_api c)) (map (fun h : bool => if h then ECall else EInclude) (d_path c)) with
  | ROk _ => ROk true
  | RErr e => RErr e
  end.
Definition check_depth (c : depth_case) : bool := res_eqb Bool.eqb (model_depth c) (d_impl c).

(* ---------------------------------------------------------------- apieq: API entry vs call site *)

(* the same definition, arguments and body through both entry points: both succeed (and the
   harness then compares the two texts) or the call site fails with a rendering error and the
   API with a message error *)
Record apieq_case := {
  a_params : list param; a_rest : option str; a_supplied : ctx; a_body : option str;
  a_tpl_ok : res bool; a_api_ok : res bool; a_same_text : bool }.

Definition res_unit {A} (r : res A) : res bool := match r with ROk _ => ROk true | RErr e => RErr e end.

Definition model_apieq (c : apieq_case) : res bool * res bool :=
  let d := {| def_params := a_params c; def_rest := a_rest c |} in
  (res_unit (vm_call_site d tt (map (fun kv => AKv (fst kv) (snd kv)) (a_supplied c)) (a_body c) 0 None),
   res_unit (api_component_call d tt (a_supplied c) (a_body c) true)).

Definition check_apieq (c : apieq_case) : bool :=
  let '(t, a) := model_apieq c in
  res_eqb Bool.eqb t (a_tpl_ok c) && res_eqb Bool.eqb a (a_api_ok c) &&
  match t with ROk _ => a_same_text c | RErr _ => true end.

(* ---------------------------------------------------------------- shape: compiled call sites *)

(* instructions that write to the output / open or close a capture / leave the expression *)
Definition is_output_instr (i : instr) : bool :=
  match i with
  | WriteText _ | WriteTop | WritePath _ | Include _ | RenderBlock _ | Capture | SetI _ | SetGlobal _ => true
  | _ => false
  end.

(* walking back from a RenderBodyComponent: only expression instructions up to an EndCapture *)
Fixpoint back_to_endcapture (rprefix : list instr) : bool :=
  match rprefix with
  | [] => false
  | EndCapture :: _ => true
  | i :: t => if is_output_instr i then false else back_to_endcapture t
  end.

(* Capture/EndCapture are bracketed in the chunk *)
Fixpoint captures_balanced (l : list instr) (open : nat) : bool :=
  match l with
  | [] => Nat.eqb open 0
  | Capture :: t => captures_balanced t (S open)
  | EndCapture :: t => match open with O => false | S n => captures_balanced t n end
  | _ :: t => captures_balanced t open
  end.

Fixpoint body_sites_ok (rprefix rest : list instr) : bool :=
  match rest with
  | [] => true
  | RenderBodyComponent n :: t =>
      back_to_endcapture rprefix && body_sites_ok (RenderBodyComponent n :: rprefix) t
  | i :: t => body_sites_ok (i :: rprefix) t
  end.

Definition count_instr (p : instr -> bool) (l : list instr) : nat := length (filter p l).
Definition is_body_call (i : instr) := match i with RenderBodyComponent _ => true | _ => false end.
Definition is_inline_call (i : instr) := match i with RenderInlineComponent _ => true | _ => false end.

Definition call_sites_ok (c : chunk) : bool :=
  let l := map fst c in captures_balanced l 0 && body_sites_ok [] l.

(* sh_body/sh_inline: how many call sites with / without a body the harness wrote into the
   source of this chunk; sh_marker: a literal the harness put in the body of the first body
   call of this chunk (the text written there starts with it): it must be written between a Capture and the EndCapture that precedes
   the RenderBodyComponent *)
Record shape_case := { sh_chunk : chunk; sh_body : nat; sh_inline : nat; sh_marker : option str }.

Fixpoint marker_captured (l : list instr) (m : str) (open : nat) : bool :=
  match l with
  | [] => false
  | Capture :: t => marker_captured t m (S open)
  | EndCapture :: t => marker_captured t m (pred open)
  | WriteText x :: t => if starts_with x m then negb (Nat.eqb open 0) else marker_captured t m open
  | _ :: t => marker_captured t m open
  end.

Definition model_shape (c : shape_case) : bool * nat * nat :=
  (call_sites_ok (sh_chunk c), count_instr is_body_call (map fst (sh_chunk c)),
   count_instr is_inline_call (map fst (sh_chunk c))).

Definition check_shape (c : shape_case) : bool :=
  call_sites_ok (sh_chunk c) &&
  Nat.eqb (count_instr is_body_call (map fst (sh_chunk c))) (sh_body c) &&
  Nat.eqb (count_instr is_inline_call (map fst (sh_chunk c))) (sh_inline c) &&
  match sh_marker c with Some m => marker_captured (map fst (sh_chunk c)) m 0 | None => true end.
