(* Correspondence checker for C01: finalized real chunks (templates + component table) and a
   context are run on Model/VM.v in the world of Model/WorldC01.v; the output text / error class is
   compared with the real render (Tera::render, render_str, render_component). Additionally:
   - on EVERY case every chunk that can run (template chunks, root chunks, block lineages,
     component chunks) must satisfy the side condition of the C01 theorems,
     Model/CapCheck.v bodies_from_capture: the body operand of every RenderBodyComponent the real
     compiler emitted was pushed by EndCapture;
   - on every `strict` case (no `safe` filter, special-free literal text, autoescape on everywhere)
     the hypotheses of C01_no_raw_data_when_autoescape_on are re-checked (tpl_ok, chunk_ok, ctx_ok)
     and the model output must be clean. *)
From TeraV Require Import Model.Value Model.Instr Model.VFormat Model.VM Model.World0 Model.StackCheck Model.CapCheck
     Model.Taint Model.WorldC01.
Local Open Scope nat_scope.

Inductive c01_mode :=
| MRender (block : option str)                                 (* Tera::render / render_block / render_str *)
| MComponent (name : str) (autoescape : bool) (body : option str).   (* Tera::render_component *)

Record c01_case := {
  k_templates : list (str * template);
  k_components : list (str * (comp_def * list instr));
  k_entry : str;                 (* template to render; for MComponent the component's source template *)
  k_mode : c01_mode;
  k_ctx : ctx;
  (* the same program compiled with Chunk::optimize switched off (hook H2), when the harness sends it *)
  k_noopt : option (list (str * template) * list (str * (comp_def * list instr)));
  k_esc : esc_kind;              (* the escape function installed with Tera::set_escape_fn *)
  k_safe : bool;                 (* the program may use the safe filter *)
  k_strict : bool;               (* literal text special-free, every template autoescaped, no safe *)
  k_impl : res str }.

Definition fuel_c01 : nat := N.to_nat 8000.

Definition run_case (wd : world) (c : c01_case) : res str :=
  match assoc_get (k_templates c) (k_entry c) with
  | None => RErr ErrOther
  | Some tpl =>
      match k_mode c with
      | MRender block =>
          match render_to str wr_str wd fuel_c01 tpl block (k_ctx c) [] [] with
          | RDone _ (SinkTop out) => ROk out
          | RDone _ (SinkBuf _) => RErr ErrPanic
          | RFail e => RErr e
          | ROutOfFuel => RErr ErrOther
          end
      | MComponent name ae body =>
          match assoc_get (k_components c) name with
          | None => RErr ErrOther
          | Some (def, chunk) =>
              let kw := map (fun kv => (KStr (fst kv) true, snd kv)) (k_ctx c) in
              match w_build_ctx wd def kw (match body with Some b => Some (VStr b true) | None => None end) with
              | RErr _ => RErr ErrMsg
              | ROk cctx =>
                  match run str wr_str wd fuel_c01 tpl (Some ae) 0 chunk 0 (new_state cctx) (SinkTop []) with
                  | RDone _ (SinkTop out) => ROk out
                  | RDone _ (SinkBuf _) => RErr ErrPanic
                  | RFail e => RErr e
                  | ROutOfFuel => RErr ErrOther
                  end
              end
          end
      end
  end.

Definition with_program (c : c01_case) (p : list (str * template) * list (str * (comp_def * list instr))) : c01_case :=
  {| k_templates := fst p; k_components := snd p; k_entry := k_entry c; k_mode := k_mode c; k_ctx := k_ctx c;
     k_noopt := None; k_esc := k_esc c; k_safe := k_safe c; k_strict := k_strict c; k_impl := k_impl c |}.

Definition world_of (c : c01_case) : world :=
  with_escape (world1 (k_safe c) fp_placeholder (k_templates c) (k_components c)) (escape_of (k_esc c)).

Definition model_c01 (c : c01_case) : res str := run_case (world_of c) c.

Definition hyps_ok (c : c01_case) : bool :=
  forallb (fun nt => tpl_ok ok_html (snd nt)) (k_templates c)
  && forallb (fun nc => chunk_ok ok_html (snd (snd nc)) && def_ok_b (fst (snd nc))) (k_components c)
  && ctx_ok ok_html (k_ctx c).

Definition bodies_ok (c : c01_case) : bool :=
  forallb (fun nt => tpl_bodies_ok (snd nt)) (k_templates c)
  && forallb (fun nc => bodies_from_capture (snd (snd nc))) (k_components c).

Definition check_c01 (c : c01_case) : bool :=
  let m := model_c01 c in
  res_eqb str_eqb m (k_impl c)
  && bodies_ok c
  (* the optimiser does not change what is written, whatever the escape function *)
  && match k_noopt c with
     | Some p => res_eqb str_eqb (run_case (world_of (with_program c p)) (with_program c p)) m
     | None => true
     end
  && (if k_strict c
      then hyps_ok c && match m with ROk out => clean ok_html out | RErr _ => true end
      else true).
