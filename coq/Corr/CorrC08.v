(* Correspondence checkers for C08: the lexer model against tera::verif::lex, the specification
   against Tera::render_str, validate against Tera::set_delimiters. *)
From TeraV Require Import Model.Value Model.Utf8Lex Model.Lexer Spec.Doc Model.LexerDoc.
Local Open Scope N_scope.

(* ---- syntactic equality on tokens and spans *)
Definition op_eqb (a b : op) : bool :=
  match a, b with
  | OMul, OMul | ODiv, ODiv | OFloorDiv, OFloorDiv | OMod, OMod | OPlus, OPlus | OMinus, OMinus
  | OPower, OPower | OLt, OLt | OClosingTagStart, OClosingTagStart | OGt, OGt | OLte, OLte
  | OGte, OGte | OEq, OEq | ONe, ONe | OTilde, OTilde | OPipe, OPipe | OAssign, OAssign
  | ODot, ODot | OQDot, OQDot | OQLBracket, OQLBracket | OComma, OComma | OColon, OColon
  | OBang, OBang | OLBracket, OLBracket | ORBracket, ORBracket | OLParen, OLParen
  | ORParen, ORParen | OLBrace, OLBrace | ORBrace, ORBrace | OSpread, OSpread => true
  | _, _ => false
  end.

Definition tok_eqb (a b : tok) : bool :=
  match a, b with
  | TContent x, TContent y => bytes_eqb x y
  | TRaw l x r, TRaw l' y r' => Bool.eqb l l' && bytes_eqb x y && Bool.eqb r r'
  | TVarStart x, TVarStart y | TVarEnd x, TVarEnd y | TTagStart x, TTagStart y
  | TTagEnd x, TTagEnd y | TBool x, TBool y => Bool.eqb x y
  | TComment l r, TComment l' r' => Bool.eqb l l' && Bool.eqb r r'
  | TIdent x, TIdent y | TString x, TString y | TFloat x, TFloat y => bytes_eqb x y
  | TInteger x, TInteger y => Z.eqb x y
  | TOp x, TOp y => op_eqb x y
  | _, _ => false
  end.

Definition loc_eqb (a b : loc) : bool :=
  let '(l1, c1, b1) := a in let '(l2, c2, b2) := b in
  Nat.eqb l1 l2 && Nat.eqb c1 c2 && Nat.eqb b1 b2.
Definition stok_eqb (a b : tok * span) : bool :=
  tok_eqb (fst a) (fst b) && loc_eqb (fst (snd a)) (fst (snd b)) && loc_eqb (snd (snd a)) (snd (snd b)).

(* spans are written by the harness as natural numbers *)
Definition sp_ (sl sc sb el ec eb : nat) : span := ((sl, sc, sb), (el, ec, eb)).

(* ---- family lex: verif::lex(src, dl, filtered) *)
Record lex_case := {
  x_dl : delims; x_src : bytes; x_filtered : bool; x_impl : res (list (tok * span)) }.

Definition model_lex (c : lex_case) : res (list (tok * span)) :=
  if x_filtered c then lex_filtered_spanned (x_dl c) (x_src c) else lex_spanned (x_dl c) (x_src c).
Definition check_lex (c : lex_case) : bool :=
  res_eqb (list_eqb stok_eqb) (model_lex c) (x_impl c).

(* ---- family render: Tera::render_str (delimiters set on the instance) of print dl doc *)
Record render_case := {
  r_dl : delims; r_doc : doc; r_outs : list bytes; r_impl : res bytes }.

Definition outs_fn (outs : list bytes) (k : nat) : bytes := nth k outs [].

(* (what the specification says, what the lexer model + filter + drop-empty + inert rendering
   gives for the printed source) *)
Definition model_render (c : render_case) : res bytes * res bytes :=
  (ROk (spec_render (outs_fn (r_outs c)) (r_doc c)),
   render_source (outs_fn (r_outs c)) (r_dl c) (print (spelling_of (r_dl c)) (r_doc c))).
Definition check_render (c : render_case) : bool :=
  let '(s, m) := model_render c in
  res_eqb bytes_eqb s (r_impl c) && res_eqb bytes_eqb m (r_impl c).

(* ---- family delims: Tera::set_delimiters on a fresh instance *)
Record delims_case := { v_dl : delims; v_impl : res unit }.
Definition model_delims (c : delims_case) : res unit := validate (v_dl c).
Definition check_delims (c : delims_case) : bool :=
  res_eqb (fun _ _ => true) (model_delims c) (v_impl c).
