(* Correspondence checkers for C14: model result vs the implementation's recorded result. *)
From TeraV Require Import Model.Value Model.Slice Model.StrOps.

Record slice_case := {
  s_opt : bool; s_val : value; s_start : value; s_stop : value; s_step : value;
  s_impl : res value }.

Definition model_slice (c : slice_case) : res value :=
  vm_slice (s_opt c) (s_val c) (s_start c) (s_stop c) (s_step c).
Definition check_slice (c : slice_case) : bool :=
  res_eqb value_eqb_syn (model_slice c) (s_impl c).

Record index_case := { i_opt : bool; i_val : value; i_sub : value; i_impl : res value }.

Definition model_index (c : index_case) : res value := vm_subscript (i_opt c) (i_val c) (i_sub c).
Definition check_index (c : index_case) : bool :=
  res_eqb value_eqb_syn (model_index c) (i_impl c).

Record strop_case := { o_op : N; o_str : value; o_n : Z; o_end : option str; o_impl : res value }.

Definition model_strop (c : strop_case) : res value :=
  match o_str c with
  | VStr s _ =>
      match o_op c with
      | 0%N => ROk (str_length s)
      | 1%N => ROk (str_reverse s)
      | 2%N => ROk (str_truncate s (Z.to_nat (o_n c)) (o_end c))
      | _ =>
          ROk (VArr (flat_map (fun '(v, (i, len, first, last)) =>
                 [v; VArr [VInt U64 (Z.of_nat i); VInt U64 (Z.of_nat len); VBool first; VBool last]])
                 (str_iter s)))
      end
  | _ => RErr ErrOther
  end.
Definition check_strop (c : strop_case) : bool :=
  res_eqb value_eqb_syn (model_strop c) (o_impl c).
