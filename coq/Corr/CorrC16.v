(* Correspondence checkers for C16: model result vs the implementation's recorded result. *)
From Coq Require Import List ZArith NArith Bool.
From TeraV Require Import Model.Value Model.Order Model.CollFilters Corr.CorrC15.
Import ListNotations.

(* maps are printed by the harness with their entries sorted by key; the model's group_by builds
   them in insertion order, so sort before comparing *)
Definition canon_map (v : value) : value :=
  match v with VMap m => VMap (ksort m) | _ => v end.
Definition canon_res (r : res value) : res value :=
  match r with ROk v => ROk (canon_map v) | e => e end.

Definition lift (r : res (list value)) : res value :=
  match r with ROk l => ROk (VArr l) | RErr e => RErr e end.

(* ---- sort / unique / group_by on one array, optional attribute path *)
Record coll_case := {
  c_arr : list value;
  c_path : option (list seg);     (* attribute for sort / group_by *)
  c_sort : res value;             (* {{ xs | sort }} or sort(attribute=..) *)
  c_unique : res value;           (* {{ xs | unique }} *)
  c_group : option (res value) }. (* {{ xs | group_by(attribute=..) }} when a path is given *)

Definition model_coll (c : coll_case) :=
  (lift (filter_sort (c_arr c) (c_path c)), ROk (VArr (filter_unique (c_arr c))) : res value,
   match c_path c with Some p => Some (canon_res (filter_group_by (c_arr c) p)) | None => None end).

Definition check_coll (c : coll_case) : bool :=
  res_eqb_loose (lift (filter_sort (c_arr c) (c_path c))) (c_sort c) &&
  res_eqb_loose (ROk (VArr (filter_unique (c_arr c)))) (c_unique c) &&
  match c_path c, c_group c with
  | Some p, Some g => res_eqb_loose (canon_res (filter_group_by (c_arr c) p)) g
  | None, None => true
  | _, _ => false
  end.

(* ---- element access and reversal *)
Record access_case := {
  x_val : value; x_n : value;
  x_first : res value; x_last : res value; x_nth : res value; x_length : res value;
  x_reverse : res value; x_rev2 : res value }.

Definition on_arr (v : value) (f : list value -> res value) : res value :=
  match v with VArr l => f l | _ => RErr ErrMsg end.

Definition model_access (c : access_case) :=
  (on_arr (x_val c) (fun l => ROk (filter_first l)), on_arr (x_val c) (fun l => ROk (filter_last l)),
   on_arr (x_val c) (fun l => filter_nth l (x_n c)), filter_length (x_val c),
   (filter_reverse (x_val c), res_bind (filter_reverse (x_val c)) filter_reverse)).

Definition check_access (c : access_case) : bool :=
  res_eqb_loose (on_arr (x_val c) (fun l => ROk (filter_first l))) (x_first c) &&
  res_eqb_loose (on_arr (x_val c) (fun l => ROk (filter_last l))) (x_last c) &&
  res_eqb_loose (on_arr (x_val c) (fun l => filter_nth l (x_n c))) (x_nth c) &&
  res_eqb_loose (filter_length (x_val c)) (x_length c) &&
  res_eqb_loose (filter_reverse (x_val c)) (x_reverse c) &&
  res_eqb_loose (res_bind (filter_reverse (x_val c)) filter_reverse) (x_rev2 c).

(* ---- keys / values / pairs: the harness sorts the three outputs by key (pairs by their first
   component, values carried along with their key) so the HashMap order does not reach Coq *)
Record kvp_case := { k_map : value; k_keys : res value; k_values : res value; k_pairs : res value }.

Definition on_map (v : value) (f : list (key * value) -> list value) : res value :=
  match v with VMap m => ROk (VArr (f (ksort m))) | _ => RErr ErrMsg end.

Definition model_kvp (c : kvp_case) :=
  (on_map (k_map c) filter_keys, on_map (k_map c) filter_values, on_map (k_map c) filter_pairs).
Definition check_kvp (c : kvp_case) : bool :=
  res_eqb_loose (on_map (k_map c) filter_keys) (k_keys c) &&
  res_eqb_loose (on_map (k_map c) filter_values) (k_values c) &&
  res_eqb_loose (on_map (k_map c) filter_pairs) (k_pairs c).

(* ---- split / join *)
Record sj_case := { j_s : value; j_p : value; j_split : res value; j_joined : res value }.
Definition model_sj (c : sj_case) :=
  (filter_split (j_s c) (j_p c),
   res_bind (filter_split (j_s c) (j_p c))
     (fun r => match r with VArr l => filter_join l (Some (j_p c)) | _ => RErr ErrOther end)).
Definition check_sj (c : sj_case) : bool :=
  res_eqb_loose (filter_split (j_s c) (j_p c)) (j_split c) &&
  res_eqb_loose (res_bind (filter_split (j_s c) (j_p c))
     (fun r => match r with VArr l => filter_join l (Some (j_p c)) | _ => RErr ErrOther end)) (j_joined c).
