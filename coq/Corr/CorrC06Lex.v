(* Correspondence checker for the lexer half of C06 (family `slices`): the slicing sites of
   Model/LexerSlices.v against what tera::verif::lex(src, delimiters, false) lets one observe.
   The hook gives the byte range of every token (or the error class); the cuts themselves are
   not observable, so compared are
     - the token byte ranges of the model (lex_spanned) with those of the real lexer,
     - that every start and every end of a real token range is 0 or one of the model's slicing
       offsets (a token ends where an advance! ended; it starts at 0, at the previous cut, or
       after the whitespace advance!),
     - that every slicing offset of the model's run - also of a run that ends in Err - is a
       character boundary of this source (the instance of Proofs.LexerBoundary's theorem). *)
From TeraV Require Import Model.Value Model.Utf8Lex Model.Lexer Model.LexerSlices.
From TeraV Require Model.Report.
Local Open Scope nat_scope.

Record slice_case := { s_dl : delims; s_src : bytes; s_impl : res (list (nat * nat)) }.

(* a token byte range as the harness writes it (the arguments are read in nat_scope) *)
Definition rg (a b : nat) : nat * nat := (a, b).

Definition ranges_of (l : list (tok * span)) : list (nat * nat) :=
  map (fun x => (snd (fst (snd x)), snd (snd (snd x)))) l.

Definition range_eqb (a b : nat * nat) : bool :=
  Nat.eqb (fst a) (fst b) && Nat.eqb (snd a) (snd b).

(* (token ranges or error class of the model, its slicing offsets, all of them boundaries?) *)
Definition model_slices (c : slice_case) : res (list (nat * nat)) * list nat * bool :=
  let sl := slice_offsets (s_dl c) (s_src c) in
  (res_map ranges_of (lex_spanned (s_dl c) (s_src c)), sl,
   forallb (Report.is_char_boundary (s_src c)) sl).

Definition check_slices (c : slice_case) : bool :=
  let '(m, sl, ok) := model_slices c in
  ok && res_eqb (list_eqb range_eqb) m (s_impl c) &&
  match s_impl c with
  | ROk rs => forallb (fun r => mem_nat (fst r) (0 :: sl) && mem_nat (snd r) (0 :: sl)) rs
  | RErr _ => true
  end.

Definition mismatches {A} (chk : A -> bool) (l : list A) : list N :=
  (fix go (i : N) (l : list A) : list N :=
     match l with
     | [] => []
     | c :: r => if chk c then go (N.succ i) r else i :: go (N.succ i) r
     end) 0%N l.
