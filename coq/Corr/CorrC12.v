(* Correspondence checkers for C12.  The harness prints byte strings packed into one
   hexadecimal numeral (cheaper for coqc to read than a list) and spans as six numbers. *)
From Coq Require Import List NArith Arith Bool.
From TeraV Require Import Spec.Utf8Chars Spec.LineCol Model.Report.
Import ListNotations.

(* ---- literals *)

(* the bytes of a hexadecimal numeral, least significant bit first: every 8 bits give one byte,
   pushed in front of the later (less significant) ones; linear in the size of the numeral *)
Fixpoint pos_bytes (p : positive) (k : nat) (cur w : N) (acc : list N) : list N :=
  match p with
  | xH => (cur + w)%N :: acc
  | xO q =>
      match k with
      | 7 => pos_bytes q 0 0%N 1%N (cur :: acc)
      | _ => pos_bytes q (S k) cur (w * 2)%N acc
      end
  | xI q =>
      match k with
      | 7 => pos_bytes q 0 0%N 1%N ((cur + w)%N :: acc)
      | _ => pos_bytes q (S k) (cur + w)%N (w * 2)%N acc
      end
  end.

(* B len 0x<bytes in hex>; leading zero bytes are restored from the length.  Long strings come
   in pieces (BS [B ..; B ..]) so that no numeral is deeper than 8192 bits. *)
Inductive bytes_lit := B (len num : N) | BS (chunks : list bytes_lit).
Definition chunk_bytes (len num : N) : list N :=
  let l := match num with N0 => [] | Npos p => pos_bytes p 0 0%N 1%N [] end in
  repeat 0%N (N.to_nat len - length l) ++ l.
Fixpoint bytes_of (b : bytes_lit) : list N :=
  match b with
  | B len num => chunk_bytes len num
  | BS l => (fix go (l : list bytes_lit) : list N :=
               match l with [] => [] | x :: t => bytes_of x ++ go t end) l
  end.

(* SP start_line start_col end_line end_col range.start range.end *)
Definition SP (sl sc el ec rs re : N) : span :=
  mkspan (N.to_nat sl) (N.to_nat sc) (N.to_nat el) (N.to_nat ec) (N.to_nat rs) (N.to_nat re).

(* a list of spans packed 12 bytes per span: six big-endian 16-bit fields in the order of SP *)
Definition w16 (hi lo : N) : nat := N.to_nat (hi * 256 + lo).
Fixpoint spans_of_bytes (fuel : nat) (l : list N) : list span :=
  match fuel with
  | O => []
  | S f =>
      match l with
      | a1 :: a0 :: b1 :: b0 :: c1 :: c0 :: d1 :: d0 :: e1 :: e0 :: f1 :: f0 :: t =>
          mkspan (w16 a1 a0) (w16 b1 b0) (w16 c1 c0) (w16 d1 d0) (w16 e1 e0) (w16 f1 f0)
          :: spans_of_bytes f t
      | _ => []
      end
  end.
Definition spans_of (b : bytes_lit) : list span :=
  let l := bytes_of b in spans_of_bytes (length l) l.

Definition span_eqb (a b : span) : bool :=
  Nat.eqb (start_line a) (start_line b) && Nat.eqb (start_col a) (start_col b) &&
  Nat.eqb (end_line a) (end_line b) && Nat.eqb (end_col a) (end_col b) &&
  Nat.eqb (rstart a) (rstart b) && Nat.eqb (rend a) (rend b).

Fixpoint list_eqb {A} (eq : A -> A -> bool) (a b : list A) : bool :=
  match a, b with
  | [], [] => true
  | x :: a', y :: b' => eq x y && list_eqb eq a' b'
  | _, _ => false
  end.

Fixpoint prefixb (a b : list N) : bool :=
  match a, b with
  | [], _ => true
  | x :: a', y :: b' => N.eqb x y && prefixb a' b'
  | _ :: _, [] => false
  end.

(* ---- family spans: every span the implementation attached to `src` is well-formed *)

Record spans_case := { sc_src : bytes_lit; sc_spans_lit : bytes_lit }.
Definition sc_spans (c : spans_case) : list span := spans_of (sc_spans_lit c).

Definition check_spans (c : spans_case) : bool :=
  let src := bytes_of (sc_src c) in
  valid_utf8b src && spans_wfb src (sc_spans c).

(* for replays: the reference (line, col) of both ends of every span *)
Definition model_spans (c : spans_case) : list ((nat * nat) * (nat * nat)) :=
  let src := bytes_of (sc_src c) in
  map (fun sp => (linecol src (rstart sp), linecol src (rend sp))) (sc_spans c).

(* ---- family tokens: the raw token stream; the model replays the lexer's bookkeeping
   (advance! over the gap before a token, loc!, advance! over the token, make_span!) and must
   reproduce every span exactly *)

Fixpoint lex_replay (st : loc) (rest : list N) (toks : list span) : option (list span) :=
  match toks with
  | [] => Some []
  | t :: ts =>
      match advance st rest (rstart t - l_byte st) with
      | None => None
      | Some (st1, _, rest1) =>
          match advance st1 rest1 (rend t - rstart t) with
          | None => None
          | Some (st2, _, rest2) =>
              match lex_replay st2 rest2 ts with
              | None => None
              | Some l => Some (make_span st1 st2 :: l)
              end
          end
      end
  end.

Definition model_tokens (c : spans_case) : option (list span) :=
  lex_replay loc_init (bytes_of (sc_src c)) (sc_spans c).

Definition check_tokens (c : spans_case) : bool :=
  check_spans c &&
  match model_tokens c with
  | Some l => list_eqb span_eqb l (sc_spans c)
  | None => false
  end.

(* ---- family report: Display of an error = generate_report of the model *)

Record note_lit := NT { nt_label : bytes_lit; nt_file : bytes_lit; nt_src : bytes_lit; nt_span : span }.

(* the Display text is compared by length and 64-bit FNV-1a hash (the harness prints both; the
   text itself is in the case's JSON description for replays) *)
Definition fnv_step (h b : N) : N := N.land (N.lxor h b * 0x100000001b3) 0xffffffffffffffff.
Definition fnv (l : list N) : N := fold_left fnv_step l 0xcbf29ce484222325%N.

Record report_case := {
  rp_msg : bytes_lit; rp_file : bytes_lit; rp_src : bytes_lit; rp_span : span;
  rp_notes : list note_lit;
  (* length and hash of the text the model must produce: the whole Display when the notes are
     known (rp_exact), else the Display up to its first note *)
  rp_exact : bool; rp_len : N; rp_hash : N }.

Definition report_of (c : report_case) : report_error :=
  mkreport (bytes_of (rp_msg c)) (bytes_of (rp_file c)) (bytes_of (rp_src c)) (rp_span c)
    (map (fun n => mknote (bytes_of (nt_label n)) (bytes_of (nt_file n)) (bytes_of (nt_src n))
                          (nt_span n)) (rp_notes c)).

Definition model_report (c : report_case) : option (list N) := generate_report (report_of c).

(* span and note spans well-formed for their sources (the hypotheses of C12_report_total), and
   the text equal to the implementation's *)
Definition check_report (c : report_case) : bool :=
  let e := report_of c in
  valid_utf8b (r_source e) && span_wfb (r_source e) (r_span e) &&
  forallb (fun n => valid_utf8b (n_source n) && span_wfb (n_source n) (n_span n)) (r_notes e) &&
  match generate_report e with
  | None => false
  | Some t => N.eqb (N.of_nat (length t)) (rp_len c) && N.eqb (fnv t) (rp_hash c)
  end.

(* ---- family eoi: span of "Unexpected end of input" = eoi (span of the last token) *)

Record eoi_case := { eo_cur : span; eo_impl : span }.
Definition model_eoi (c : eoi_case) : span := eoi (eo_cur c).
Definition check_eoi (c : eoi_case) : bool := span_eqb (model_eoi c) (eo_impl c).

(* ---- family hull: the span of a run-time error raised by a binary operator =
   expand_span over combine_spans of its operands' instruction ranges *)

Record hull_case := {
  h_tbl_lit : list bytes_lit; h_a : N * N; h_b : N * N; h_impl : span }.
Definition h_tbl (c : hull_case) : list (list span) := map spans_of (h_tbl_lit c).
Definition R (a b : N) : N * N := (a, b).
Definition nn (p : N * N) : nat * nat := (N.to_nat (fst p), N.to_nat (snd p)).
Definition model_hull (c : hull_case) : option span :=
  expand_span (h_tbl c) (combine_spans (nn (h_a c)) (nn (h_b c))).
Definition check_hull (c : hull_case) : bool :=
  match model_hull c with Some s => span_eqb s (h_impl c) | None => false end.
