(* Correspondence checkers for C12.  The harness prints byte strings packed into one
   hexadecimal numeral (cheaper for coqc to read than a list) and spans as six numbers. *)
From Coq Require Import List NArith Arith Bool.
From TeraV Require Import Spec.Utf8Chars Spec.LineCol Model.Report.
Import ListNotations.

(* ---- literals *)

Fixpoint unpack (len : nat) (n : N) (acc : list N) : list N :=
  match len with
  | O => acc
  | S k => unpack k (N.shiftr n 8) (N.land n 255 :: acc)
  end.

(* B len 0x<bytes in hex> *)
Record bytes_lit := B { b_len : N; b_num : N }.
Definition bytes_of (b : bytes_lit) : list N := unpack (N.to_nat (b_len b)) (b_num b) [].

(* SP start_line start_col end_line end_col range.start range.end *)
Definition SP (sl sc el ec rs re : N) : span :=
  mkspan (N.to_nat sl) (N.to_nat sc) (N.to_nat el) (N.to_nat ec) (N.to_nat rs) (N.to_nat re).

Definition span_eqb (a b : span) : bool :=
  Nat.eqb (start_line a) (start_line b) && Nat.eqb (start_col a) (start_col b) &&
  Nat.eqb (end_line a) (end_line b) && Nat.eqb (end_col a) (end_col b) &&
  Nat.eqb (rstart a) (rstart b) && Nat.eqb (rend a) (rend b).

Fixpoint list_eqb {A} (eq : A -> A -> bool) (a b : list A) : bool :=
  match a, b with
  | [], [] => true
  | x :: a', y :: b' => eq x y && list_eqb eq a' b'
  | _, _ => false
  end.

Fixpoint prefixb (a b : list N) : bool :=
  match a, b with
  | [], _ => true
  | x :: a', y :: b' => N.eqb x y && prefixb a' b'
  | _ :: _, [] => false
  end.

(* ---- family spans: every span the implementation attached to `src` is well-formed *)

Record spans_case := { sc_src : bytes_lit; sc_spans : list span }.

Definition check_spans (c : spans_case) : bool :=
  let src := bytes_of (sc_src c) in
  valid_utf8b src && forallb (span_wfb src) (sc_spans c).

(* for replays: the reference (line, col) of both ends of every span *)
Definition model_spans (c : spans_case) : list ((nat * nat) * (nat * nat)) :=
  let src := bytes_of (sc_src c) in
  map (fun sp => (linecol src (rstart sp), linecol src (rend sp))) (sc_spans c).

(* ---- family tokens: the raw token stream; the model replays the lexer's bookkeeping
   (advance! over the gap before a token, loc!, advance! over the token, make_span!) and must
   reproduce every span exactly *)

Fixpoint lex_replay (st : loc) (rest : list N) (toks : list span) : option (list span) :=
  match toks with
  | [] => Some []
  | t :: ts =>
      match advance st rest (rstart t - l_byte st) with
      | None => None
      | Some (st1, _, rest1) =>
          match advance st1 rest1 (rend t - rstart t) with
          | None => None
          | Some (st2, _, rest2) =>
              match lex_replay st2 rest2 ts with
              | None => None
              | Some l => Some (make_span st1 st2 :: l)
              end
          end
      end
  end.

Definition model_tokens (c : spans_case) : option (list span) :=
  lex_replay loc_init (bytes_of (sc_src c)) (sc_spans c).

Definition check_tokens (c : spans_case) : bool :=
  check_spans c &&
  match model_tokens c with
  | Some l => list_eqb span_eqb l (sc_spans c)
  | None => false
  end.

(* ---- family report: Display of an error = generate_report of the model *)

Record note_lit := NT { nt_label : bytes_lit; nt_file : bytes_lit; nt_src : bytes_lit; nt_span : span }.

Record report_case := {
  rp_msg : bytes_lit; rp_file : bytes_lit; rp_src : bytes_lit; rp_span : span;
  rp_notes : list note_lit;
  rp_exact : bool;       (* true: the notes are known, texts must be equal; false: prefix *)
  rp_impl : bytes_lit }.

Definition model_report (c : report_case) : option (list N) :=
  generate_report
    (mkreport (bytes_of (rp_msg c)) (bytes_of (rp_file c)) (bytes_of (rp_src c)) (rp_span c)
       (map (fun n => mknote (bytes_of (nt_label n)) (bytes_of (nt_file n)) (bytes_of (nt_src n))
                             (nt_span n)) (rp_notes c))).

Definition check_report (c : report_case) : bool :=
  match model_report c with
  | None => false
  | Some t =>
      let impl := bytes_of (rp_impl c) in
      if rp_exact c then list_eqb N.eqb t impl else prefixb t impl
  end.

(* ---- family eoi: span of "Unexpected end of input" = eoi (span of the last token) *)

Record eoi_case := { eo_cur : span; eo_impl : span }.
Definition model_eoi (c : eoi_case) : span := eoi (eo_cur c).
Definition check_eoi (c : eoi_case) : bool := span_eqb (model_eoi c) (eo_impl c).

(* ---- family hull: the span of a run-time error raised by a binary operator =
   expand_span over combine_spans of its operands' instruction ranges *)

Record hull_case := {
  h_tbl : list (list span); h_a : N * N; h_b : N * N; h_impl : span }.
Definition R (a b : N) : N * N := (a, b).
Definition nn (p : N * N) : nat * nat := (N.to_nat (fst p), N.to_nat (snd p)).
Definition model_hull (c : hull_case) : option span :=
  expand_span (h_tbl c) (combine_spans (nn (h_a c)) (nn (h_b c))).
Definition check_hull (c : hull_case) : bool :=
  match model_hull c with Some s => span_eqb s (h_impl c) | None => false end.
