(* Correspondence checkers for C19: the model of the REPAIRED bridge (`Fixed`, see
   Model/Serde.v) against what the implementation did on the same (type, value). *)
From TeraV Require Import Model.Value Model.Format Model.Serde.

(* run-length notation the harness writes long strings / byte strings in: n copies of c *)
Definition nrep (c n : N) : list N := repeat c (N.to_nat n).

Section All2.
  Context {A B : Type} (f : A -> B -> bool).
  Fixpoint all2 (la : list A) (lb : list B) : bool :=
    match la, lb with
    | [], [] => true
    | a :: la', b :: lb' => f a b && all2 la' lb'
    | _, _ => false
    end.
End All2.

Definition vkind_eqb (a b : vkind) : bool :=
  match a, b with
  | VKUnit, VKUnit | VKNewtype, VKNewtype | VKTuple, VKTuple | VKStruct, VKStruct => true
  | _, _ => false
  end.

(* equality of data-model values up to the order of map entries (a Rust map has none) *)
Fixpoint sval_equivb (a b : sval) {struct a} : bool :=
  match a, b with
  | SUnit, SUnit | SUnitStruct, SUnitStruct | SNone, SNone => true
  | SBool x, SBool y => Bool.eqb x y
  | SInt s n z, SInt s' n' z' => Bool.eqb s s' && N.eqb n n' && Z.eqb z z'
  | SFloat n f, SFloat n' f' => N.eqb n n' && sf_eqb_syn f f'
  | SChar c, SChar c' => N.eqb c c'
  | SStr s, SStr s' => str_eqb s s'
  | SSome x, SSome y => sval_equivb x y
  | SNewtype x, SNewtype y => sval_equivb x y
  | SSeq l, SSeq l' => all2 sval_equivb l l'
  | STuple l, STuple l' => all2 sval_equivb l l'
  | SMap m, SMap m' =>
      Nat.eqb (length m) (length m') &&
      forallb (fun e : sval * sval =>
                 existsb (fun e' : sval * sval =>
                            sval_equivb (fst e) (fst e') && sval_equivb (snd e) (snd e')) m') m
  | SStruct fs, SStruct fs' =>
      all2 (fun (f f' : str * sval) => str_eqb (fst f) (fst f') && sval_equivb (snd f) (snd f')) fs fs'
  | SVariant n k p, SVariant n' k' p' => str_eqb n n' && vkind_eqb k k' && sval_equivb p p'
  | _, _ => false
  end.

(* the harness's (type, value) pairs must be well-typed: bounds of the width, names of the type *)
Section All2T.
  Context {A B : Type} (f : A -> B -> bool).
  Fixpoint all2t (la : list A) (lb : list B) : bool :=
    match la with
    | [] => match lb with [] => true | _ => false end
    | a :: la' => match lb with [] => false | b :: lb' => f a b && all2t la' lb' end
    end.
End All2T.
Section FindB.
  Context {A : Type} (p : A -> bool) (f : A -> bool).
  Fixpoint findb (l : list A) : bool :=
    match l with [] => false | x :: t => if p x then f x else findb t end.
End FindB.

Fixpoint has_typeb (t : ty) (v : sval) {struct t} : bool :=
  match t with
  | TUnit => match v with SUnit => true | _ => false end
  | TUnitStruct => match v with SUnitStruct => true | _ => false end
  | TBool => match v with SBool _ => true | _ => false end
  | TInt sg bits =>
      match v with
      | SInt sg' bits' z => Bool.eqb sg sg' && N.eqb bits bits' && bits_ok bits && int_fits sg bits z
      | _ => false
      end
  | TFloat bits =>
      match v with SFloat bits' f => N.eqb bits bits' && float_fits bits f | _ => false end
  | TChar => match v with SChar _ => true | _ => false end
  | TString => match v with SStr _ => true | _ => false end
  | TOption t' => match v with SNone => true | SSome x => has_typeb t' x | _ => false end
  | TNewtype t' => match v with SNewtype x => has_typeb t' x | _ => false end
  | TSeq t' => match v with SSeq l => forallb (has_typeb t') l | _ => false end
  | TTuple ts => match v with STuple l => all2t has_typeb ts l | _ => false end
  | TMap kt vt =>
      match v with
      | SMap m => forallb (fun e : sval * sval => has_typeb kt (fst e) && has_typeb vt (snd e)) m
      | _ => false
      end
  | TStruct fs =>
      match v with
      | SStruct xs =>
          all2t (fun (f : str * ty) (x : str * sval) => str_eqb (fst f) (fst x) && has_typeb (snd f) (snd x)) fs xs
      | _ => false
      end
  | TEnum vs =>
      match v with
      | SVariant n k p =>
          findb (fun vr : str * (vkind * ty) => str_eqb (fst vr) n)
                (fun vr : str * (vkind * ty) => vkind_eqb (fst (snd vr)) k && has_typeb (snd (snd vr)) p) vs
      | _ => false
      end
  end.

(* ------------------------------------------------------------------ family rt *)

Record rt_case := {
  c_ty : ty; c_val : sval;
  c_ser : res value;          (* Value::try_from_serializable(&v) *)
  c_owned : res sval;         (* T::deserialize(value.clone()) *)
  c_byref : res sval;         (* T::deserialize(&value) *)
  c_text : res str;           (* render of {{ v }} *)
  c_ffmt : list (spec_float * str);     (* `{:?}` of the floats in the value *)
  c_sdbg : list (str * str) }.          (* `{:?}` of the strings in the value *)

Definition de_agrees (m i : res sval) : bool :=
  match m, i with
  | ROk a, ROk b => sval_equivb a b
  | RErr ErrMsg, RErr ErrMsg => true
  | _, _ => false
  end.

Definition model_text (c : rt_case) (y : value) : str :=
  format (assoc_float (c_ffmt c)) (assoc_str (c_sdbg c)) (fun _ => []) y.

Definition check_rt (c : rt_case) : bool :=
  has_typeb (c_ty c) (c_val c) &&
  match ser (c_val c), c_ser c with
  | ROk x, ROk y =>
      value_eqb_syn (canon x) y
      && de_agrees (de Fixed (c_ty c) DValue y) (c_owned c)
      && de_agrees (de Fixed (c_ty c) DRef y) (c_byref c)
      && res_eqb str_eqb (ROk (model_text c y)) (c_text c)
  | RErr e, RErr e' => errc_eqb e e'
  | _, _ => false
  end.

Record rt_model := { m_ser : res value; m_owned : res sval; m_byref : res sval; m_text : res str;
                     m_pinned_owned : res sval; m_pinned_byref : res sval }.
Definition model_rt (c : rt_case) : rt_model :=
  match ser (c_val c) with
  | ROk x =>
      let y := canon x in
      {| m_ser := ROk y; m_owned := de Fixed (c_ty c) DValue y; m_byref := de Fixed (c_ty c) DRef y;
         m_text := ROk (model_text c y);
         m_pinned_owned := de Pinned (c_ty c) DValue y; m_pinned_byref := de Pinned (c_ty c) DRef y |}
  | RErr e =>
      {| m_ser := RErr e; m_owned := RErr ErrOther; m_byref := RErr ErrOther; m_text := RErr ErrOther;
         m_pinned_owned := RErr ErrOther; m_pinned_byref := RErr ErrOther |}
  end.

(* ------------------------------------------------------------------ family cross *)

Record cross_case := { x_ty : ty; x_val : value; x_owned : res sval; x_byref : res sval }.

Definition check_cross (c : cross_case) : bool :=
  de_agrees (de Fixed (x_ty c) DValue (x_val c)) (x_owned c)
  && de_agrees (de Fixed (x_ty c) DRef (x_val c)) (x_byref c).
Definition model_cross (c : cross_case) : res sval * res sval :=
  (de Fixed (x_ty c) DValue (x_val c), de Fixed (x_ty c) DRef (x_val c)).

(* ------------------------------------------------------------------ family ctx *)

(* k_impl: for every (stringified) key of the serialised map, what `Context::get` returns *)
Record ctx_case := { k_val : sval; k_impl : res (list (str * option value)) }.

Definition opt_value_eqb (a b : option value) : bool :=
  match a, b with
  | Some x, Some y => value_eqb_syn x y
  | None, None => true
  | _, _ => false
  end.

Definition check_ctx (c : ctx_case) : bool :=
  match from_serialize (k_val c), k_impl c with
  | ROk m, ROk l =>
      Nat.eqb (length m) (length l)
      && forallb (fun e : str * option value =>
                    opt_value_eqb (option_map canon (ctx_get (fst e) m)) (snd e)) l
  | RErr ErrMsg, RErr ErrMsg => true
  | _, _ => false
  end.
Definition model_ctx (c : ctx_case) : res ctx := from_serialize (k_val c).

(* ------------------------------------------------------------------ family reser *)

(* Value::try_from_serializable(&value) for an arbitrary Value *)
Record reser_case := { r_val : value; r_impl : res value }.
Definition model_reser (c : reser_case) : res value :=
  match reser (r_val c) with ROk y => ROk (canon y) | RErr e => RErr e end.
Definition check_reser (c : reser_case) : bool := res_eqb value_eqb_syn (model_reser c) (r_impl c).
