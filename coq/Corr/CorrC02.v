(* Correspondence checkers for C02 (parser half): the model's printer / parser / Display vs the
   real lexer + parser (hook tera::verif::lex and tera::verif::parse_expr_display). *)
From TeraV Require Import Model.Value Model.Pratt.
Open Scope nat_scope.

Definition token_eqb (a b : token) : bool :=
  match a, b with
  | TInt x, TInt y => Z.eqb x y
  | TFloat x, TFloat y | TStr x, TStr y | TIdent x, TIdent y => str_eqb x y
  | TBool x, TBool y => Bool.eqb x y
  | TMul, TMul | TDiv, TDiv | TFloorDiv, TFloorDiv | TMod, TMod | TPlus, TPlus | TMinus, TMinus
  | TPower, TPower | TLt, TLt | TGt, TGt | TLe, TLe | TGe, TGe | TEq, TEq | TNe, TNe
  | TTilde, TTilde | TPipe, TPipe | TAssign, TAssign | TDot, TDot | TQDot, TQDot
  | TQLBracket, TQLBracket | TComma, TComma | TColon, TColon | TBang, TBang
  | TLBracket, TLBracket | TRBracket, TRBracket | TLParen, TLParen | TRParen, TRParen
  | TLBrace, TLBrace | TRBrace, TRBrace | TSpread, TSpread
  | TClosingTagStart, TClosingTagStart | TVarEnd, TVarEnd => true
  | _, _ => false
  end.

Definition unop_eqb (a b : unop) : bool :=
  match a, b with UNot, UNot | UMinus, UMinus => true | _, _ => false end.

Fixpoint const_eqb (a b : const) {struct a} : bool :=
  match a, b with
  | CInt x, CInt y => Z.eqb x y
  | CFloat x, CFloat y | CStr x, CStr y => str_eqb x y
  | CBool x, CBool y => Bool.eqb x y
  | CNone, CNone => true
  | CArr l, CArr l' =>
      (fix go (l l' : list const) : bool :=
         match l, l' with
         | [], [] => true
         | x :: t, y :: t' => const_eqb x y && go t t'
         | _, _ => false
         end) l l'
  | CMap m, CMap m' =>
      (fix go (m m' : list (mkey * const)) : bool :=
         match m, m' with
         | [], [] => true
         | (k, x) :: t, (k', y) :: t' => mkey_eqb k k' && const_eqb x y && go t t'
         | _, _ => false
         end) m m'
  | _, _ => false
  end.

Definition opt_eqb {A} (f : A -> A -> bool) (a b : option A) : bool :=
  match a, b with Some x, Some y => f x y | None, None => true | _, _ => false end.

Fixpoint expr_eqb (a b : expr) {struct a} : bool :=
  let kws := fix go (l l' : list (str * expr)) : bool :=
               match l, l' with
               | [], [] => true
               | (k, x) :: t, (k', y) :: t' => str_eqb k k' && expr_eqb x y && go t t'
               | _, _ => false
               end in
  let oe := fun (x y : option expr) =>
              match x, y with Some u, Some v => expr_eqb u v | None, None => true | _, _ => false end in
  match a, b with
  | EConst x, EConst y => const_eqb x y
  | EVar x, EVar y => str_eqb x y
  | EAttr e n o, EAttr e' n' o' => expr_eqb e e' && str_eqb n n' && Bool.eqb o o'
  | EItem e i o, EItem e' i' o' => expr_eqb e e' && expr_eqb i i' && Bool.eqb o o'
  | ESlice e x y z o, ESlice e' x' y' z' o' =>
      expr_eqb e e' && oe x x' && oe y y' && oe z z' && Bool.eqb o o'
  | EUn u e, EUn u' e' => unop_eqb u u' && expr_eqb e e'
  | EBin o x y, EBin o' x' y' => bop_eqb o o' && expr_eqb x x' && expr_eqb y y'
  | ETest e n kw, ETest e' n' kw' => expr_eqb e e' && str_eqb n n' && kws kw kw'
  | EFilter e n kw, EFilter e' n' kw' => expr_eqb e e' && str_eqb n n' && kws kw kw'
  | ECall n kw, ECall n' kw' => str_eqb n n' && kws kw kw'
  | ETern c t f, ETern c' t' f' => expr_eqb c c' && expr_eqb t t' && expr_eqb f f'
  | EArr l, EArr l' =>
      (fix go (l l' : list (bool * expr)) : bool :=
         match l, l' with
         | [], [] => true
         | (s, x) :: t, (s', y) :: t' => Bool.eqb s s' && expr_eqb x y && go t t'
         | _, _ => false
         end) l l'
  | EMap l, EMap l' =>
      (fix go (l l' : list (option mkey * expr)) : bool :=
         match l, l' with
         | [], [] => true
         | (k, x) :: t, (k', y) :: t' => opt_eqb mkey_eqb k k' && expr_eqb x y && go t t'
         | _, _ => false
         end) l l'
  | EComp e k v t c, EComp e' k' v' t' c' =>
      expr_eqb e e' && opt_eqb str_eqb k k' && str_eqb v v' && expr_eqb t t' && oe c c'
  | _, _ => false
  end.

(* the inline component call `<name .../>` is outside the model: such token streams are skipped *)
Fixpoint has_component_call (ts : list token) : bool :=
  match ts with
  | TLt :: ((TIdent _ :: _) as r) => true
  | _ :: r => has_component_call r
  | [] => false
  end.

(* ---- family ptree: a surface tree printed by the harness as template text.
   pt_toks: the REAL lexer's tokens of that text (after `{{`, including `}}`);
   pt_impl: Display of the real parser's tree, None when the real parser rejects the text. *)
Record ptree_case := { pt_sx : sx; pt_toks : list token; pt_impl : option str }.

Definition model_ptree (c : ptree_case) : bool * option str * option str :=
  (list_eqb token_eqb (raw (pt_sx c) ++ [TVarEnd]) (pt_toks c),
   option_map display (parse_top gen_bp (pt_toks c)),
   Some (display (desugar (pt_sx c)))).

Definition check_ptree (c : ptree_case) : bool :=
  (* the text the harness printed is what the model's printer prints *)
  list_eqb token_eqb (raw (pt_sx c) ++ [TVarEnd]) (pt_toks c)
  && match parse_top gen_bp (pt_toks c), pt_impl c with
     | Some e, Some d =>
         (* model parser = documented grouping; real parser = documented grouping *)
         expr_eqb e (desugar (pt_sx c)) && str_eqb (display (desugar (pt_sx c))) d
     | None, None => true      (* both reject (a tree outside `printable`) *)
     | _, _ => false
     end.

(* ---- family praw: arbitrary (mutated, malformed) token streams: accept/reject and Display *)
Record praw_case := { pw_toks : list token; pw_impl : option str }.

Definition model_praw (c : praw_case) : option str :=
  option_map display (parse_top gen_bp (pw_toks c)).

Definition check_praw (c : praw_case) : bool :=
  has_component_call (pw_toks c)
  || opt_eqb str_eqb (model_praw c) (pw_impl c).
