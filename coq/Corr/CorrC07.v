(* Correspondence checkers for C07.
   chk: the validator of Model/StackCheck.v run on a REAL chunk (the listing the tera_verif hook
        reports for a compiled main / block / component chunk, before or after Chunk::optimize).
   wld: a REAL accepted template set as a finalized world — every template's chunk, root chunk
        and block lineage, the engine's component table — validated as a whole: every chunk
        passes check_chunk and every reference resolves against the engine's registries
        (names listed by the harness and confirmed against the engine), i.e. the hypotheses of
        C07_render_sound hold for it. *)
From TeraV Require Import Model.Value Model.Instr Model.VFormat Model.VM Model.World0 Model.StackCheck.
Local Open Scope nat_scope.

Record chunk_case := { k_code : list instr }.

Definition check_real (c : chunk_case) : bool := check_chunk (k_code c).
(* for replays: the inferred table (None entries = unreachable instructions) *)
Definition model_chk (c : chunk_case) : table := infer (k_code c) a_empty.

Record world_case := {
  wc_templates : list (str * template);
  wc_components : list (str * list instr);
  wc_reg : registry }.

Definition no_def : comp_def := {| cd_params := []; cd_rest := None |}.

(* only w_templates and w_components matter to world_checked; the rest is World0's *)
Definition world_of (c : world_case) : world :=
  let w := world0 (wc_templates c) in
  {| w_templates := wc_templates c;
     w_components := map (fun nc => (fst nc, (no_def, snd nc))) (wc_components c);
     w_build_ctx := w_build_ctx w; w_filter := w_filter w; w_test := w_test w;
     w_function := w_function w; w_escape := w_escape w; w_format := w_format w;
     w_math := w_math w; w_negate := w_negate w; w_cmp := w_cmp w; w_eq := w_eq w;
     w_contains := w_contains w; w_as_key := w_as_key w; w_map_get := w_map_get w;
     w_get_attr := w_get_attr w; w_max_depth := w_max_depth w |}.

Definition check_world (c : world_case) : bool := world_checked (wc_reg c) (world_of c).

(* for replays: which templates / components fail *)
Definition model_world (c : world_case) : list (str * bool) :=
  map (fun nt => (fst nt, template_good (wc_reg c) (world_of c) (snd nt))) (wc_templates c) ++
  map (fun nc => (fst nc, chunk_good (wc_reg c) (world_of c) (snd nc))) (wc_components c).
