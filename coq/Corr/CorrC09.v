(* Correspondence checker for C09: the model's optimize on the real "before" listing must give
   the real "after" listing (instructions, jump targets and span lists). *)
From TeraV Require Import Model.Value Model.Instr Model.Optimize Proofs.OptimizeProofs Proofs.OptimizeSim.

Record opt_case := { c_before : chunk; c_after : chunk }.

Definition model_opt (c : opt_case) : option chunk := optimize (c_before c).
Definition check_opt (c : opt_case) : bool :=
  (* the hypotheses of C09_optimize_structure / C09_optimize_correct hold for the real chunk ... *)
  unfusedb (c_before c) && targets_in_rangeb (c_before c) && iterate_forwardb (map fst (c_before c)) &&
  (* ... and the ported pass reproduces the real one *)
  match optimize (c_before c) with
  | Some o => chunk_eqb o (c_after c)
  | None => false
  end.
