(* Correspondence checker for C09: the model's optimize on the real "before" listing must give
   the real "after" listing (instructions, jump targets and span lists). *)
From TeraV Require Import Model.Value Model.Instr Model.Optimize Proofs.OptimizeProofs Proofs.OptimizeSim.

Record opt_case := { c_before : chunk; c_after : chunk }.

Definition model_opt (c : opt_case) : option chunk := optimize (c_before c).
Definition check_opt (c : opt_case) : bool :=
  (* the hypotheses of C09_optimize_structure / C09_optimize_correct hold for the real chunk ... *)
  unfusedb (c_before c) && targets_in_rangeb (c_before c) && iterate_forwardb (map fst (c_before c)) &&
  (* ... and the ported pass reproduces the real one *)
  match optimize (c_before c) with
  | Some o => chunk_eqb o (c_after c)
  | None => false
  end.

(* ---------- family optworld: translation validation at WORLD level ----------
   A real template set is registered twice, with the fusion pass off and on
   (tera::verif::set_optimize); `template_listing` / `component_listings` give the finalized
   chunks (own chunk, root chunk, block lineage, component table) the VM would run. Checked:
     - the hypotheses of C09_optimize_world_correct hold for the real unoptimised world
       (world_ok: unfused, targets in range, Iterate forward, C07's check_chunk, every chunk);
     - Model/OptWorld.v `opt_world` of the unoptimised world IS the optimised world the engine
       built (every `optimize` call defined, every chunk equal);
     - for sets inside the World0 subset, the model VM renders the same on the unoptimised
       world, on opt_world of it, and both equal the real render (pass on; the harness checks
       that the real render with the pass off is the same). *)
From TeraV Require Import Model.VFormat Model.VM Model.World0 Model.StackCheck Model.OptWorld
  Proofs.OptWorldBase.
Local Open Scope nat_scope.

Definition code_eqb : list instr -> list instr -> bool := list_eqb instr_eqb.

Definition template_eqb (a b : template) : bool :=
  str_eqb (t_name a) (t_name b) && code_eqb (t_chunk a) (t_chunk b) &&
  code_eqb (t_root_chunk a) (t_root_chunk b) &&
  list_eqb (fun x y => str_eqb (fst x) (fst y) && list_eqb code_eqb (snd x) (snd y))
           (t_lineage a) (t_lineage b) &&
  Bool.eqb (t_autoescape a) (t_autoescape b).

Record ow_render := { or_entry : str; or_block : option str; or_ctx : ctx; or_impl : res str }.

Record optworld_case := {
  ow_before : list (str * template);
  ow_after : list (str * template);
  ow_comp_before : list (str * list instr);
  ow_comp_after : list (str * list instr);
  ow_renders : list ow_render }.     (* empty outside the World0 subset *)

Definition ow_no_def : comp_def := {| cd_params := []; cd_rest := None |}.

Definition ow_world (tpls : list (str * template)) (comps : list (str * list instr)) : world :=
  let w := world0 tpls in
  {| w_templates := tpls;
     w_components := map (fun nc => (fst nc, (ow_no_def, snd nc))) comps;
     w_build_ctx := w_build_ctx w; w_filter := w_filter w; w_test := w_test w;
     w_function := w_function w; w_escape := w_escape w; w_format := w_format w;
     w_math := w_math w; w_negate := w_negate w; w_cmp := w_cmp w; w_eq := w_eq w;
     w_contains := w_contains w; w_as_key := w_as_key w; w_map_get := w_map_get w;
     w_get_attr := w_get_attr w; w_max_depth := w_max_depth w |}.

Definition ow_model_render (wd : world) (optimised : bool) (r : ow_render) : res str :=
  match assoc_get (w_templates wd) (or_entry r) with
  | None => RErr ErrOther
  | Some tpl =>
      match render_to str wr_str wd (N.to_nat 6000) tpl (or_block r) (or_ctx r) [] [] with
      | RDone _ (SinkTop out) => ROk out
      | RDone _ (SinkBuf _) => RErr ErrPanic
      | RFail e => RErr e
      | ROutOfFuel => RErr ErrOther
      end
  end.

Definition world_eqb (a : world) (tpls : list (str * template)) (comps : list (str * list instr)) : bool :=
  list_eqb (fun x y => str_eqb (fst x) (fst y) && template_eqb (snd x) (snd y)) (w_templates a) tpls &&
  list_eqb (fun x y => str_eqb (fst x) (fst y) && code_eqb (snd x) (snd y))
           (map (fun e => (fst e, snd (snd e))) (w_components a)) comps.

Definition check_optworld (c : optworld_case) : bool :=
  let wb := ow_world (ow_before c) (ow_comp_before c) in
  world_ok wb && opt_world_defined wb &&
  world_eqb (opt_world wb) (ow_after c) (ow_comp_after c) &&
  forallb (fun r => res_eqb str_eqb (ow_model_render wb false r) (or_impl r) &&
                    res_eqb str_eqb (ow_model_render (opt_world wb) true r) (or_impl r))
          (ow_renders c).

(* for replays: the side conditions, definedness, per-template equality, the model renders *)
Definition model_optworld (c : optworld_case)
  : bool * bool * list (str * bool) * list (res str * res str) :=
  let wb := ow_world (ow_before c) (ow_comp_before c) in
  (world_ok wb, opt_world_defined wb,
   map (fun nt => (fst nt, match assoc_get (ow_after c) (fst nt) with
                           | Some t => template_eqb (snd nt) t | None => false end))
       (w_templates (opt_world wb)),
   map (fun r => (ow_model_render wb false r, ow_model_render (opt_world wb) true r)) (ow_renders c)).
