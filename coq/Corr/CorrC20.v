(* Correspondence checkers for C20: model result vs the implementation's recorded result. *)
From TeraV Require Import Model.Value Model.Utf8 Gen.CodecTables Model.Codec Spec.Codec.
Open Scope N_scope.

Definition rstr_eqb : res str -> res str -> bool := res_eqb str_eqb.
Definition combos : list (bool * bool) := [(false, false); (false, true); (true, false); (true, true)].

(* enc: one string through the four b64 encoders (order of `combos` = (url_safe, padded)), each
   encoded text through the decoder with the same url_safe, and through the two percent-encoders *)
Record enc_case := {
  e_s : str;
  e_b64 : list (res str);
  e_b64dec : list (res str);
  e_url : res str;
  e_urls : res str }.

Definition model_enc (c : enc_case) : list (res str) * list (res str) * res str * res str :=
  let encs := map (fun up : bool * bool => b64_encode_filter (fst up) (snd up) (e_s c)) combos in
  let decs := map (fun p : (bool * bool) * res str =>
                     match snd p with
                     | ROk t => b64_decode_filter (fst (fst p)) t
                     | RErr e => RErr e
                     end) (combine combos encs) in
  (encs, decs, ROk (urlencode_filter (e_s c)), ROk (urlencode_strict_filter (e_s c))).

Definition check_enc (c : enc_case) : bool :=
  let '(encs, decs, u, us) := model_enc c in
  list_eqb rstr_eqb encs (e_b64 c) && list_eqb rstr_eqb decs (e_b64dec c)
  && rstr_eqb u (e_url c) && rstr_eqb us (e_urls c).

(* dec: the decoder on an arbitrary (mostly invalid) text *)
Record dec_case := { d_u : bool; d_s : str; d_impl : res str }.
Definition model_dec (c : dec_case) : res str := b64_decode_filter (d_u c) (d_s c).
Definition check_dec (c : dec_case) : bool := rstr_eqb (model_dec c) (d_impl c).

(* the float-text oracle as a table; a float missing from the table gets "?" (never valid JSON) *)
Fixpoint ft_of (tab : list (spec_float * list N)) (f : spec_float) : list N :=
  match tab with
  | [] => [63]
  | (g, t) :: r => if sf_eqb_syn g f then t else ft_of r f
  end.

(* json: j_v has its map entries sorted by the harness; compared as data (members sorted by name) *)
Record json_case := {
  j_v : value; j_pretty : bool; j_ft : list (spec_float * list N); j_impl : res (list N) }.

Definition oracle_ok (tab : list (spec_float * list N)) : bool :=
  forallb (fun p : spec_float * list N => float_text_ok (snd p) (fst p)) tab.

Definition model_json (c : json_case) : bool * option json :=
  (oracle_ok (j_ft c), Some (json_sort (canon (ft_of (j_ft c)) (j_v c)))).

Definition check_json (c : json_case) : bool :=
  oracle_ok (j_ft c) &&
  match j_impl c with
  | ROk text =>
      match json_read text with
      | Some j => json_eqb (json_sort j) (json_sort (canon (ft_of (j_ft c)) (j_v c)))
      | None => false
      end
  | RErr _ => false
  end.

(* jsontext: j_v has its map entries in the order the implementation iterated them; the text is
   compared byte for byte with the model writer (either layout, so that swapping
   to_string/to_string_pretty - both valid JSON - is not reported) *)
Definition model_jsontext (c : json_case) : res (list N) :=
  json_encode_filter (ft_of (j_ft c)) (j_pretty c) (j_v c).
Definition check_jsontext (c : json_case) : bool :=
  match j_impl c with
  | ROk text =>
      res_eqb (list_eqb N.eqb) (json_encode_filter (ft_of (j_ft c)) (j_pretty c) (j_v c)) (ROk text)
      || res_eqb (list_eqb N.eqb) (json_encode_filter (ft_of (j_ft c)) (negb (j_pretty c)) (j_v c)) (ROk text)
  | RErr _ => false
  end.

(* slug: g_deu lists deunicode_char for every non-ASCII char of g_s *)
Record slug_case := { g_s : str; g_deu : list (N * option (list N)); g_impl : res str }.
Fixpoint deu_of (tab : list (N * option (list N))) (c : N) : option (option (list N)) :=
  match tab with
  | [] => None
  | (c', r) :: t => if c' =? c then Some r else deu_of t c
  end.
Definition deu_total (tab : list (N * option (list N))) (c : N) : option (list N) :=
  match deu_of tab c with Some r => r | None => None end.
Definition model_slug (c : slug_case) : res str := ROk (slugify (deu_total (g_deu c)) (g_s c)).
Definition check_slug (c : slug_case) : bool :=
  forallb (fun ch => (ch <? 128) || match deu_of (g_deu c) ch with Some _ => true | None => false end) (g_s c)
  && rstr_eqb (model_slug c) (g_impl c).

(* encrl: the enc family on LONG strings given in run-length form (block, count) - the input and every
   implementation output are expanded here and compared in full with the model, element by element;
   only the printing is compact *)
Definition rl := list (list N * N).
Definition rl_expand (r : rl) : list N :=
  flat_map (fun p : list N * N => concat (repeat (fst p) (N.to_nat (snd p)))) r.
Definition res_map {A B} (f : A -> B) (r : res A) : res B :=
  match r with ROk a => ROk (f a) | RErr e => RErr e end.

Record encrl_case := {
  r_s : rl; r_b64 : list (res rl); r_b64dec : list (res rl); r_url : res rl; r_urls : res rl }.

Definition expand_encrl (c : encrl_case) : enc_case :=
  {| e_s := rl_expand (r_s c);
     e_b64 := map (res_map rl_expand) (r_b64 c);
     e_b64dec := map (res_map rl_expand) (r_b64dec c);
     e_url := res_map rl_expand (r_url c);
     e_urls := res_map rl_expand (r_urls c) |}.

Definition check_encrl (c : encrl_case) : bool := check_enc (expand_encrl c).

(* for replays: per output (length of the model's text, position of the first difference with the
   implementation's text if any) instead of the texts themselves *)
Fixpoint first_diff (a b : list N) (i : N) : option N :=
  match a, b with
  | [], [] => None
  | x :: a', y :: b' => if x =? y then first_diff a' b' (i + 1) else Some i
  | _, _ => Some i
  end.
Definition diff_res (m i : res str) : option (N * option N) :=
  match m, i with
  | ROk a, ROk b => Some (N.of_nat (length a), first_diff a b 0)
  | _, _ => None
  end.
Definition model_encrl (c : encrl_case) :=
  let e := expand_encrl c in
  let '(encs, decs, u, us) := model_enc e in
  (map (fun p => diff_res (fst p) (snd p)) (combine encs (e_b64 e)),
   map (fun p => diff_res (fst p) (snd p)) (combine decs (e_b64dec e)),
   diff_res u (e_url e), diff_res us (e_urls e)).
