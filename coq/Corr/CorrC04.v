(* Correspondence checker for C04: a registered template set, the implementation's
   accept/reject class, render(T) for every T and render_block(T, b) for every (T, b),
   against Model.Lineage (register + render_model + render_block_model). *)
From Coq Require Import List NArith Bool.
From TeraV Require Import Model.Value Model.Lineage.
Import ListNotations.

(* implementation outcome classes (harness: err_class / child-process status) *)
Inductive iclass := CSyntax | CMissingParent | CCircular | CMsg | CRender | CPanic | CDiverge | COther.
Inductive ires := IOk (o : list out) | IErr (c : iclass).

Definition iclass_eqb (a b : iclass) : bool :=
  match a, b with
  | CSyntax, CSyntax | CMissingParent, CMissingParent | CCircular, CCircular | CMsg, CMsg
  | CRender, CRender | CPanic, CPanic | CDiverge, CDiverge | COther, COther => true
  | _, _ => false
  end.

Definition class_of (e : lerr) : iclass :=
  match e with
  | ESyntax => CSyntax
  | EMissingParent => CMissingParent
  | ECircular => CCircular
  | EOrphanBlock | EBlockCycle => CMsg
  | ESuperOutside | ESuperTop => CRender
  | ENoLineage | EBlockNotFound | ENoTemplate => CMsg
  | EPanic => CPanic
  | EOutOfFuel => CDiverge      (* unbounded block recursion: the D13 class, child-process abort *)
  end.

Definition out_eqb (a b : out) : bool :=
  match a, b with
  | OText x, OText y => N.eqb x y
  | OOpen, OOpen | OClose, OClose => true
  | _, _ => false
  end.
Fixpoint outs_eqb (a b : list out) : bool :=
  match a, b with
  | [], [] => true
  | x :: a', y :: b' => out_eqb x y && outs_eqb a' b'
  | _, _ => false
  end.

Definition to_ires (r : rres (list out)) : ires :=
  match r with Ok o => IOk o | Err e => IErr (class_of e) end.
Definition ires_eqb (a b : ires) : bool :=
  match a, b with
  | IOk x, IOk y => outs_eqb x y
  | IErr c, IErr d => iclass_eqb c d
  | _, _ => false
  end.

(* depth of nested block/super activations the model follows before it reports CDiverge;
   finite renders of the generated sets (<= 6 templates, <= 5 block names, nesting <= 4)
   stay far below *)
Definition corr_fuel : nat := 80.

Record set_case := {
  sc_tpls : list template;                       (* listed in sorted-name order *)
  sc_reg : ires;                                 (* add_raw_templates: IOk [] or the error class *)
  sc_renders : list (name * ires);               (* Tera::render for every template *)
  sc_blocks : list (name * name * ires) }.       (* Tera::render_block for every (template, block) *)

Record set_result := {
  sr_reg : ires; sr_renders : list (name * ires); sr_blocks : list (name * name * ires) }.

Definition model_set_gen (fx : bool) (c : set_case) : set_result :=
  match register id_orders (sc_tpls c) with
  | Err e => {| sr_reg := IErr (class_of e); sr_renders := []; sr_blocks := [] |}
  | Ok fr =>
      {| sr_reg := IOk [];
         sr_renders := map (fun t => (t_name t, to_ires (render_model corr_fuel fr (t_name t)))) (sc_tpls c);
         sr_blocks := map (fun '(t, b, _) => (t, b, to_ires (render_block_gen fx corr_fuel fr t b)))
                          (sc_blocks c) |}
  end.
Definition model_set := model_set_gen true.

(* the set is in the D13 class: some template's render never finishes *)
Definition diverges (m : set_result) : bool :=
  existsb (fun '(_, r) => match r with IErr CDiverge => true | _ => false end) (sr_renders m).

Fixpoint renders_eqb (a b : list (name * ires)) : bool :=
  match a, b with
  | [], [] => true
  | (t, r) :: a', (t', r') :: b' => N.eqb t t' && ires_eqb r r' && renders_eqb a' b'
  | _, _ => false
  end.
Fixpoint blocks_eqb (a b : list (name * name * ires)) : bool :=
  match a, b with
  | [], [] => true
  | (t, x, r) :: a', (t', x', r') :: b' => N.eqb t t' && N.eqb x x' && ires_eqb r r' && blocks_eqb a' b'
  | _, _ => false
  end.

Definition check_gen (fx : bool) (c : set_case) : bool :=
  let m := model_set_gen fx c in
  match sr_reg m, sc_reg c with
  | IOk _, IOk _ => renders_eqb (sr_renders m) (sc_renders c) && blocks_eqb (sr_blocks m) (sc_blocks c)
  | IErr a, IErr b => iclass_eqb a b
  | _, _ => false
  end.

Definition check_set (c : set_case) : bool := check_gen true c.

(* the same comparison against the model of the pinned code (before fixes/D8): used to show
   that the only difference is the D8 class *)
Definition check_set_pinned (c : set_case) : bool := check_gen false c.
