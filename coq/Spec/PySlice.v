(* Specification of indexing and slicing, transcribed from the Python data model
   (slice.indices / PySlice_AdjustIndices, and range(start, stop, step)); written
   independently of the Rust code. *)
From Coq Require Import List ZArith Bool Lia.
Import ListNotations.
Open Scope Z_scope.

(* PySlice_AdjustIndices on one bound, for a slice of a sequence of length len *)
Definition py_adjust (len step : Z) (b : option Z) (is_start : bool) : Z :=
  match b with
  | None =>
      if is_start then (if step <? 0 then len - 1 else 0)
      else (if step <? 0 then -1 else len)
  | Some b =>
      if b <? 0 then
        let b' := b + len in
        if b' <? 0 then (if step <? 0 then -1 else 0) else b'
      else if len <=? b then (if step <? 0 then len - 1 else len)
      else b
  end.

(* len(range(start, stop, step)) *)
Definition py_range_len (start stop step : Z) : Z :=
  if 0 <? step then (if start <? stop then (stop - start - 1) / step + 1 else 0)
  else (if stop <? start then (start - stop - 1) / (- step) + 1 else 0).

Definition py_range (start stop step : Z) : list Z :=
  map (fun k => start + Z.of_nat k * step) (seq 0 (Z.to_nat (py_range_len start stop step))).

(* the indices x[start:stop:step] selects, for step <> 0 *)
Definition py_slice_indices (len : Z) (start stop : option Z) (step : Z) : list Z :=
  py_range (py_adjust len step start true) (py_adjust len step stop false) step.

(* the elements selected *)
Definition py_slice {A} (items : list A) (start stop : option Z) (step : Z) : list A :=
  flat_map (fun i => match nth_error items (Z.to_nat i) with Some x => [x] | None => [] end)
           (py_slice_indices (Z.of_nat (length items)) start stop step).

(* x[i]: element i, counted from the end when negative; None when out of range *)
Definition py_index {A} (items : list A) (i : Z) : option A :=
  let len := Z.of_nat (length items) in
  if (0 <=? i) && (i <? len) then nth_error items (Z.to_nat i)
  else if (- len <=? i) && (i <? 0) then nth_error items (Z.to_nat (i + len))
  else None.
