(* C04 — the specification of inheritance, written from the property text (properties.jsonl
   C04 and the documentation's "Inheritance" section), not from finalize_templates / the VM.

   A chain is the list  [T_n; ...; T_1; T_0]  (most-derived first; T_{i+1} extends T_i; T_0
   extends nothing).

   "every block, however deeply nested in other blocks or in filter sections, is replaced by
    its definition in the most-derived template of the chain that defines it":
        resolve chain b  =  the first template of the chain with a definition of b anywhere
                            in its body, together with the templates after it (its ancestors)
   "each super() inside a block yields the rendering of the same block in the nearest
    ancestor that defines it (recursively, skipping ancestors that do not), and is an error
    where no ancestor defines the block":
        super() in a definition found in T_i  =  resolve [T_{i-1}; ...; T_0] b
   "Rendering a single block by name returns exactly the text that block writes during the
    full render": the specification renders to a tree in which every block activation is a
    TBlock node, so "the text block b writes" is the text under the TBlock b nodes. *)
From Coq Require Import List NArith Bool.
From TeraV Require Import Model.Lineage.
Import ListNotations.

Definition chain := list template.

(* the definition of block b written anywhere in a body (first in document order) *)
Fixpoint find_def_node (b : name) (n : node) : option (list node) :=
  let find_list := fix find_list (l : list node) : option (list node) :=
    match l with
    | [] => None
    | x :: l' => match find_def_node b x with Some d => Some d | None => find_list l' end
    end in
  match n with
  | BlockDef b' body => if N.eqb b b' then Some body else find_list body
  | FilterSection _ body => find_list body
  | _ => None
  end.
Fixpoint find_def (b : name) (l : list node) : option (list node) :=
  match l with
  | [] => None
  | x :: l' => match find_def_node b x with Some d => Some d | None => find_def b l' end
  end.

Definition defines (t : template) (b : name) : option (list node) := find_def b (t_body t).

(* most-derived definition and the ancestors of the template it was found in *)
Fixpoint resolve (ch : chain) (b : name) : option (list node * chain) :=
  match ch with
  | [] => None
  | t :: anc =>
      match defines t b with
      | Some body => Some (body, anc)
      | None => resolve anc b
      end
  end.

(* ------------------------------------------------------------------ rendering *)

Inductive otree :=
| TText (id : N)
| TOpen | TClose                       (* what the wrapping filter adds around its section *)
| TBlock (b : name) (body : list otree).   (* everything block b wrote, nested blocks included *)

(* effect of a filter section / set-capture on the text of its body *)
Definition twrap (k : capkind) (body : list otree) : list otree :=
  match k with
  | KFilter => TOpen :: body ++ [TClose]
  | KSet => body
  end.

Definition list_bind {A B} (f : A -> rres (list B)) : list A -> rres (list B) :=
  fix go (l : list A) : rres (list B) :=
    match l with
    | [] => Ok []
    | x :: l' => a <- f x ;; r <- go l' ;; Ok (a ++ r)
    end.

(* [cur]: the block being rendered and the ancestors of the template its running definition
   comes from (None at the top level of the root body).  fuel bounds the depth of block /
   super() expansion only; an exhausted fuel is the explicit outcome EOutOfFuel. *)
Fixpoint spec_node (fuel : nat) (ch : chain) : option (name * chain) -> node -> rres (list otree) :=
  match fuel with
  | 0 => fun _ _ => Err EOutOfFuel
  | S f =>
      (* a definition's body expanded one level deeper *)
      let sub := fun (cur' : option (name * chain)) (body : list node) =>
        match f with
        | 0 => Err EOutOfFuel
        | S _ => list_bind (spec_node f ch cur') body
        end in
      fix sn (cur : option (name * chain)) (n : node) {struct n} : rres (list otree) :=
        match n with
        | Text i => Ok [TText i]
        | FilterSection k body => r <- list_bind (sn cur) body ;; Ok (twrap k r)
        | BlockDef b _ =>
            match resolve ch b with
            | None => Err ENoLineage          (* cannot happen: b is defined where it stands *)
            | Some (body, anc) =>
                r <- sub (Some (b, anc)) body ;; Ok [TBlock b r]
            end
        | Super =>
            match cur with
            | None => Err ESuperOutside
            | Some (b, anc) =>
                match resolve anc b with
                | None => Err ESuperTop       (* no ancestor defines the block *)
                | Some (body, anc') => sub (Some (b, anc')) body
                end
            end
        end
  end.

Definition spec_list (fuel : nat) (ch : chain) (cur : option (name * chain)) (ns : list node)
  : rres (list otree) :=
  match fuel with
  | 0 => Err EOutOfFuel
  | S _ => list_bind (spec_node fuel ch cur) ns
  end.

(* "renders the root ancestor's body in which every block ... is replaced ..." *)
Definition spec_render (fuel : nat) (ch : chain) : rres (list otree) :=
  spec_list fuel ch None (t_body (last ch {| t_name := 0%N; t_extends := None; t_body := [] |})).

(* the text of a tree *)
Fixpoint flat_node (t : otree) : list out :=
  match t with
  | TText i => [OText i]
  | TOpen => [OOpen]
  | TClose => [OClose]
  | TBlock _ body => flat_map flat_node body
  end.
Definition flat (ts : list otree) : list out := flat_map flat_node ts.

(* the texts block b wrote, one per (outermost) activation, in order *)
Fixpoint writes_node (b : name) (t : otree) : list (list out) :=
  match t with
  | TBlock b' body => if N.eqb b b' then [flat body] else flat_map (writes_node b) body
  | _ => []
  end.
Definition block_writes (b : name) (ts : list otree) : list (list out) := flat_map (writes_node b) ts.

(* an activation of b strictly inside an activation of b (impossible in a finite render) *)
Fixpoint self_nested_node (inside : bool) (b : name) (t : otree) : bool :=
  match t with
  | TBlock b' body =>
      if N.eqb b b' then inside || existsb (self_nested_node true b) body
      else existsb (self_nested_node inside b) body
  | _ => false
  end.
Definition self_nested (b : name) (ts : list otree) : bool := existsb (self_nested_node false b) ts.

(* ------------------------------------------------------------------ lineage *)

Fixpoint has_super_node (n : node) : bool :=
  match n with
  | Super => true
  | FilterSection _ body => existsb has_super_node body
  | _ => false          (* a nested block is a different block: its super() is its own *)
  end.
Definition has_super (ns : list node) : bool := existsb has_super_node ns.

(* "the definition in the most-derived template that defines b, followed — while the
    previous one calls super() — by the nearest ancestor that defines b" *)
Fixpoint spec_lineage (ch : chain) (b : name) : list (list node) :=
  match ch with
  | [] => []
  | t :: anc =>
      match defines t b with
      | Some body => body :: (if has_super body then spec_lineage anc b else [])
      | None => spec_lineage anc b
      end
  end.

(* ------------------------------------------------------------------ acceptance *)

(* "a child's top-level block must be defined by some ancestor; blocks a child introduces
    inside another block are allowed" *)
Fixpoint spec_top_node (n : node) : list name :=
  match n with
  | BlockDef b _ => [b]                                   (* not inside another block *)
  | FilterSection _ body => flat_map spec_top_node body   (* a filter section is not a block *)
  | _ => []
  end.
Definition spec_top (ns : list node) : list name := flat_map spec_top_node ns.

Definition defined_in (anc : chain) (b : name) : bool :=
  existsb (fun t => match defines t b with Some _ => true | None => false end) anc.

Fixpoint spec_accepts (ch : chain) : bool :=
  match ch with
  | [] => true
  | t :: anc =>
      (match anc with
       | [] => true
       | _ => forallb (defined_in anc) (spec_top (t_body t))
       end) && spec_accepts anc
  end.

(* ------------------------------------------------------------------ chains in a registry *)

Fixpoint is_chain (ts : list template) (ch : chain) : Prop :=
  match ch with
  | [] => False
  | [t] => In t ts /\ t_extends t = None
  | t :: ((p :: _) as anc) => In t ts /\ t_extends t = Some (t_name p) /\ is_chain ts anc
  end.
