(* Independent specification for C10/C11, written from the property text, not from the code:
   paths, reachability and cycles in a directed graph; name resolution "exact name first,
   then the prefixes in order"; the chain of parents of a template. *)
From Coq Require Import List NArith.
Import ListNotations.

Section Graph.
  Context {A : Type}.
  Variable edge : A -> A -> Prop.

  (* path x l y: leaving x and visiting the nodes of l one after the other ends in y *)
  Inductive path : A -> list A -> A -> Prop :=
  | path_nil : forall x, path x [] x
  | path_cons : forall x y l z, edge x y -> path y l z -> path x (y :: l) z.

  Definition reach (x y : A) : Prop := exists l, path x l y.
  (* self loops, long cycles: any non-empty closed walk *)
  Definition on_cycle (x : A) : Prop := exists l, l <> [] /\ path x l x.
  Definition acyclic : Prop := forall x, ~ on_cycle x.
  (* a cycle entered from a tail: x reaches a node that lies on a cycle *)
  Definition leads_to_cycle (x : A) : Prop := exists y, reach x y /\ on_cycle y.
End Graph.

(* "exists directly or through a fallback prefix, exact names first" *)
Section Resolve.
  Variable has : list N -> Prop.
  Inductive resolves (pre : list (list N)) (n : list N) : list N -> Prop :=
  | res_exact : has n -> resolves pre n n
  | res_prefix : forall l1 p l2,
      ~ has n -> pre = l1 ++ p :: l2 -> (forall q, In q l1 -> ~ has (q ++ n)) -> has (p ++ n) ->
      resolves pre n (p ++ n).
  Definition dangling (pre : list (list N)) (n : list N) : Prop :=
    ~ has n /\ forall p, In p pre -> ~ has (p ++ n).
End Resolve.
