(* UTF-8 at the level C12 needs it (RFC 3629 §3): which bytes start a character, how many
   continuation bytes follow a given lead byte, and "this byte string is a sequence of
   well-formed characters".  Written from the standard, not from the Rust code.  Overlong forms
   and surrogates are not excluded here: the theorems of C12 only use the *structure* (lead byte
   + the right number of continuation bytes), so they hold for a superset of the valid strings.
   Self-contained on purpose (no dependency on other model files). *)
From Coq Require Import List NArith Bool.
Import ListNotations.
Local Open Scope N_scope.

(* 10xxxxxx *)
Definition is_cont (b : N) : bool := (128 <=? b) && (b <? 192).

(* length of the character a lead byte announces: 0xxxxxxx -> 1, 110xxxxx (C2..DF) -> 2,
   1110xxxx -> 3, 11110xxx (F0..F4) -> 4; continuation bytes, C0, C1, F5..FF start nothing *)
Definition lead_len (b : N) : option nat :=
  if b <? 128 then Some 1%nat
  else if b <? 194 then None
  else if b <? 224 then Some 2%nat
  else if b <? 240 then Some 3%nat
  else if b <? 245 then Some 4%nat
  else None.

(* one encoded character: a lead byte followed by exactly the announced continuation bytes *)
Definition wf_char (c : list N) : Prop :=
  match c with
  | [] => False
  | b :: cs => lead_len b = Some (length c) /\ forallb is_cont cs = true
  end.

Definition wf_charb (c : list N) : bool :=
  match c with
  | [] => false
  | b :: cs =>
      match lead_len b with
      | Some n => Nat.eqb n (length c) && forallb is_cont cs
      | None => false
      end
  end.

(* a string is a concatenation of well-formed characters *)
Inductive valid_utf8 : list N -> Prop :=
| vu_nil : valid_utf8 []
| vu_char : forall c rest, wf_char c -> valid_utf8 rest -> valid_utf8 (c ++ rest).
