(* Specification of component argument binding, written from the documentation
   (docs/content/_index.md "Components") and the text of property C05 — not from the code.

   - a parameter may carry a type and a default; "an optional type that can be inferred if there
     is a default value"; the types are string, bool, integer, float, number (integer or
     float), array, map (and bytes);
   - "The component above is closed: any templates using an argument not listed will error";
     with a `...rest` parameter "any extra parameters ... will be collected into a map called
     rest";
   - a call binds each declared parameter to the supplied value, else to the declared default;
     a missing required argument or a value of the wrong type is rejected;
   - the body of a call is passed as the `body` variable; nothing else is visible.

   Only the data types (value, param, comp_def, the type names) are shared with the model. *)
From TeraV Require Import Model.Value Gen.TypeTables Model.Component.

(* what each type name admits, by the shape of the value *)
Definition doc_matches (t : ctype) (v : value) : bool :=
  match t, v with
  | TString, VStr _ _ => true
  | TBool, VBool _ => true
  | TInteger, VInt _ _ => true
  | TFloat, VFloat _ => true
  | TNumber, VInt _ _ => true
  | TNumber, VFloat _ => true
  | TArray, VArr _ => true
  | TMap, VMap _ => true
  | TBytes, VBytes _ => true
  | _, _ => false
  end.

(* the type a default value suggests; none for `none` *)
Definition doc_infer (v : value) : option ctype :=
  match v with
  | VStr _ _ => Some TString
  | VBool _ => Some TBool
  | VInt _ _ => Some TInteger
  | VFloat _ => Some TFloat
  | VArr _ => Some TArray
  | VMap _ => Some TMap
  | VBytes _ => Some TBytes
  | VNone | VUndef => None
  end.

Definition spec_type (p : param) : option ctype :=
  match p_declared p with
  | Some t => Some t
  | None => match p_default p with Some v => doc_infer v | None => None end
  end.

(* supplied arguments: a finite map given as an association list with distinct keys *)
Fixpoint lookup (s : list (str * value)) (k : str) : option value :=
  match s with
  | [] => None
  | (k', v) :: t => if str_eqb k' k then Some v else lookup t k
  end.

Definition is_param (d : comp_def) (k : str) : Prop := In k (map p_name (def_params d)).

(* what the parser guarantees about a definition (distinct parameter names; `body` reserved;
   the rest name differs from every parameter) *)
Definition wf_def (d : comp_def) : Prop :=
  NoDup (map p_name (def_params d)) /\
  ~ is_param d body_name /\
  def_rest d <> Some body_name /\
  (forall r, def_rest d = Some r -> ~ is_param d r).

(* a call is accepted iff ... *)
Definition accepts (d : comp_def) (s : list (str * value)) : Prop :=
  (* no undeclared argument, unless a rest parameter is declared *)
  ((forall k, In k (map fst s) -> is_param d k) \/ def_rest d <> None) /\
  (* every parameter without a default is supplied *)
  (forall p, In p (def_params d) -> p_default p = None -> In (p_name p) (map fst s)) /\
  (* every supplied declared value has the declared-or-inferred type *)
  (forall p v t, In p (def_params d) -> lookup s (p_name p) = Some v -> spec_type p = Some t ->
                 doc_matches t v = true).

(* the value a declared parameter is bound to *)
Definition bound_value (s : list (str * value)) (p : param) : option value :=
  match lookup s (p_name p) with Some v => Some v | None => p_default p end.

(* m is the map of the undeclared supplied pairs: string keys only, no key twice, and it maps k
   to v exactly when (k, v) is supplied and k is not a parameter *)
Definition key_is_str (k : key) : Prop := match k with KStr _ _ => True | _ => False end.
Definition key_name (k : key) : str := match k with KStr s _ => s | _ => [] end.

Definition is_rest_map (d : comp_def) (s : list (str * value)) (m : list (key * value)) : Prop :=
  (forall kv, In kv m -> key_is_str (fst kv)) /\
  NoDup (map (fun kv => key_name (fst kv)) m) /\
  (forall k v, (exists o, In (KStr k o, v) m) <-> (lookup s k = Some v /\ ~ is_param d k)).

(* the names a component body can see *)
Definition visible (d : comp_def) (body : option value) (n : str) : Prop :=
  is_param d n \/ def_rest d = Some n \/ (n = body_name /\ body <> None).
