(* Reference meaning of "the line and column of byte offset `off` of a source", written from the
   property text and the doc comments of `Span` (utils.rs:53-64: lines 1-based, columns 0-based),
   not from the lexer:
     line   = 1 + the number of '\n' bytes before the offset
     column = the number of characters between the last '\n' before the offset (or the
              beginning of the source) and the offset
   A character is counted where it starts (its lead byte); for an offset on a character boundary
   this is the number of whole characters.  `line_containing` is the text a report must quote:
   the maximal '\n'-free stretch of the source around the offset. *)
From Coq Require Import List NArith Bool.
From TeraV Require Import Spec.Utf8Chars.
Import ListNotations.

Definition NL : N := 10%N.

(* the bytes before the first '\n' *)
Fixpoint before_first_nl (l : list N) : list N :=
  match l with
  | [] => []
  | b :: t => if N.eqb b NL then [] else b :: before_first_nl t
  end.

(* the bytes after the last '\n' *)
Definition after_last_nl (l : list N) : list N := rev (before_first_nl (rev l)).

Definition count_nl (l : list N) : nat := count_occ N.eq_dec l NL.

(* number of characters that start in l *)
Definition char_starts (l : list N) : nat := length (filter (fun b => negb (is_cont b)) l).

Definition linecol (src : list N) (off : nat) : nat * nat :=
  let pre := firstn off src in
  (1 + count_nl pre, char_starts (after_last_nl pre)).

(* byte offset at which the line containing `off` starts *)
Definition line_start (src : list N) (off : nat) : nat :=
  length (firstn off src) - length (after_last_nl (firstn off src)).

Definition line_containing (src : list N) (off : nat) : list N :=
  after_last_nl (firstn off src) ++ before_first_nl (skipn off src).

(* number of lines of a source: one more than its '\n' bytes (the last line may be empty) *)
Definition num_lines (src : list N) : nat := 1 + count_nl src.
