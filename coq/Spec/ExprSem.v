(* Reference big-step evaluator for expressions (C02, evaluation half), written from the
   documentation (docs/content/_index.md: Literals, Variables, Dot/Square bracket notation,
   Optional chaining, Math, Comparisons, Logic, String concatenation, `in` checking, Spread,
   Ternary, List comprehension, Filters `default`/`length`, Tests `defined`/`undefined`/`odd`/
   `even`, function `throw`; MIGRATION.md "Changes to undefined variable access"), NOT from the
   compiler or the VM.  Three outcomes: a value, an error, or `Unspec` where the documentation
   leaves the result open or the fragment is another property's (floats and integer overflow: C13,
   slices: C14, equality/ordering beyond integers and strings: C15, other built-ins: C17).
   Integers are exact on Z; results outside i64 are Unspec here. *)
From TeraV Require Import Model.Value Model.Pratt.
From TeraV Require Model.Order.   (* key equality by mathematical value across integer widths: C15 *)
From Coq Require Import String.
Open Scope Z_scope.

Inductive ev := Val (v : value) | Err | Unspec.

Definition env := list (str * value).
Fixpoint lookup_var (x : str) (g : env) : value :=
  match g with
  | [] => VUndef                       (* "Undefined means the value doesn't exist" *)
  | (y, v) :: r => if str_eqb x y then v else lookup_var x r
  end.

Definition bind (r : ev) (f : value -> ev) : ev :=
  match r with Val v => f v | Err => Err | Unspec => Unspec end.

Definition small (z : Z) : bool := (- two63 <=? z) && (z <? two63).
Definition vint (z : Z) : ev := if small z then Val (VInt I64 z) else Unspec.

(* keys of map literals: "a key/value literal inside {..}" with string, integer or boolean keys *)
Definition mkey_key (k : mkey) : key :=
  match k with MKStr s => KStr s true | MKInt z => KInt I64 z | MKBool b => KBool b end.

Fixpoint const_val (c : const) : option value :=
  match c with
  | CInt z => Some (VInt I64 z)
  | CFloat _ => None
  | CStr s => Some (VStr s false)
  | CBool b => Some (VBool b)
  | CNone => Some VNone
  | CArr l =>
      option_map VArr
        (fold_right (fun x acc => match const_val x, acc with Some v, Some l => Some (v :: l) | _, _ => None end)
                    (Some []) l)
  | CMap m =>
      option_map VMap
        (fold_right (fun kv acc =>
           match kv with
           | (k, x) => match const_val x, acc with
                       | Some v, Some l => Some ((mkey_key k, v) :: l)
                       | _, _ => None
                       end
           end) (Some []) m)
  end.

(* ---- values *)
Definition map_get (m : list (key * value)) (k : str) : value :=
  match find (fun kv => match fst kv with KStr s _ => str_eqb s k | _ => false end) m with
  | Some kv => snd kv
  | None => VUndef
  end.

Definition nth_py {A} (l : list A) (i : Z) : option A :=
  let n := Z.of_nat (List.length l) in
  let j := if i <? 0 then n + i else i in
  if (0 <=? j) && (j <? n) then nth_error l (Z.to_nat j) else None.

(* simple equality: defined here for integers, strings, booleans and none of the same kind *)
Definition kind_class (v : value) : N :=
  match v with
  | VUndef => 0 | VNone => 1 | VBool _ => 2 | VInt _ _ | VFloat _ => 3 | VStr _ _ => 4
  | VArr _ => 5 | VMap _ => 6 | VBytes _ => 7
  end%N.

(* an f64 against an integer, as the comparison of the two rational numbers: a finite binary64
   datum is m * 2^e (Model.Order.fcls_of), compared exactly on Z (dy_cmp).  NaN: left open. *)
Definition cmp_float_int (x : spec_float) (n : Z) : option comparison :=
  match Order.fcls_of x with
  | Order.FNaN => None
  | Order.FInf neg => Some (if neg then Lt else Gt)
  | Order.FFin m e => Some (Order.dy_cmp m e n 0)
  end.

(* a number against a number where at least one side is an integer (float x float: C13/C15) *)
Definition num_cmp (a b : value) : option comparison :=
  match a, b with
  | VInt _ x, VInt _ y => Some (x ?= y)
  | VFloat x, VInt _ n => cmp_float_int x n
  | VInt _ n, VFloat y => option_map CompOpp (cmp_float_int y n)
  | _, _ => None
  end.

(* equality: integers (and an integer against a float) as numbers, strings, booleans, none;
   two defined values of different kinds are not equal; containers, float x float and anything
   against undefined are left open *)
Definition simple_eq (a b : value) : option bool :=
  match a, b with
  | VStr x _, VStr y _ => Some (str_eqb x y)
  | VBool x, VBool y => Some (Bool.eqb x y)
  | VNone, VNone => Some true
  | VUndef, _ | _, VUndef => None
  | _, _ =>
      if N.eqb (kind_class a) (kind_class b)
      then match num_cmp a b with Some c => Some (match c with Eq => true | _ => false end) | None => None end
      else Some false
  end.

Definition show_small (v : value) : option str :=
  match v with
  | VStr s _ => Some s
  | VInt _ z => Some (dec_Z z)
  | _ => None
  end.

Fixpoint is_infix (a b : str) : bool :=   (* a is a prefix of b *)
  match a, b with
  | [], _ => true
  | x :: a', y :: b' => N.eqb x y && is_infix a' b'
  | _ :: _, [] => false
  end.
Fixpoint substr (a b : str) : bool :=
  is_infix a b || match b with [] => false | _ :: b' => substr a b' end.

(* lookup of an integer / string / boolean key: keys are equal when they are the same string, the
   same boolean or the same integer as a mathematical value, whatever the width it is stored in
   (Model.Order.key_eq, the C15 model of `Eq for Key`) *)
Definition map_find (m : list (key * value)) (idx : value) : option value :=
  match Order.as_key idx with
  | Some k => Some (match Order.map_get m k with Some v => v | None => VUndef end)
  | None => None
  end.

(* ---- operators *)
(* Math: "only allowed with numbers, using them on any other kind of values will result in an error" *)
Definition arith (o : bop) (a b : value) : ev :=
  match a, b with
  | VInt _ x, VInt _ y =>
      match o with
      | OPlus => vint (x + y) | OMinus => vint (x - y) | OMul => vint (x * y)
      (* "%: performs a modulo", `//`: on a non-negative dividend and a positive divisor there is
         only one reading; signs, zero divisors, `/` and `**`: C13 *)
      | OMod => if (0 <=? x) && (0 <? y) then vint (x mod y) else Unspec
      | OFloorDiv => if (0 <=? x) && (0 <? y) then vint (x / y) else Unspec
      | _ => Unspec
      end
  | VInt _ _, VFloat _ | VFloat _, VInt _ _ | VFloat _, VFloat _ => Unspec   (* floats: C13 *)
  | _, _ => Err
  end.

Definition order (o : bop) (a b : value) : ev :=
  match a, b with
  | (VInt _ _ | VFloat _), (VInt _ _ | VFloat _) =>
      match num_cmp a b with
      | Some c =>
          Val (VBool (match o, c with
                      | OLt, Lt | OLe, Lt | OLe, Eq | OGt, Gt | OGe, Gt | OGe, Eq => true
                      | _, _ => false
                      end))
      | None => Unspec
      end
  | _, _ =>
      if N.eqb (kind_class a) (kind_class b) then
        (* two arrays, two strings, two booleans: the order of C15 (arrays element-wise, so a pair of
           elements that is not ordered makes the whole comparison an error, never a coerced result) *)
        match a, b with
        | VArr _, VArr _ | VStr _ _, VStr _ _ | VBool _, VBool _ =>
            match Order.vpcmp a b with
            | Some c =>
                Val (VBool (match o, c with
                            | OLt, Lt | OLe, Lt | OLe, Eq | OGt, Gt | OGe, Gt | OGe, Eq => true
                            | _, _ => false
                            end))
            | None => Err
            end
        | _, _ => Unspec
        end
      else Err   (* no ordering across kinds *)
  end.

Definition equality (neg : bool) (a b : value) : ev :=
  match simple_eq a b with
  | Some r => Val (VBool (if neg then negb r else r))
  | None => Unspec
  end.

(* "concatenate several strings/numbers/idents ... output will always be a string" *)
Definition concat (a b : value) : ev :=
  match show_small a, show_small b with
  | Some x, Some y => Val (VStr (x ++ y) false)
  | _, _ => Unspec
  end.

(* "Only ... an array, a string and a map are supported on the right hand side: everything else
   will raise an error.  On the left hand side only ... an integer, a string and a boolean" *)
Definition contains (needle hay : value) : ev :=
  match hay with
  | VArr l =>
      match needle with
      | VInt _ _ | VStr _ _ | VBool _ =>
          if forallb (fun x => match x with VInt _ _ | VStr _ _ | VBool _ | VNone => true | _ => false end) l
          then Val (VBool (existsb (fun x => match simple_eq needle x with Some true => true | _ => false end) l))
          else Unspec
      | _ => Unspec
      end
  | VStr h _ => match needle with VStr n _ => Val (VBool (substr n h)) | _ => Unspec end
  | VMap m =>
      match needle with
      | VStr _ _ | VInt _ _ | VBool _ =>
          match map_find m needle with
          | Some v => Val (VBool (match Order.as_key needle with
                                  | Some k => match Order.map_get m k with Some _ => true | None => false end
                                  | None => false end))
          | None => Unspec
          end
      | _ => Unspec
      end
  | _ => Err
  end.

Definition binop (o : bop) (a b : value) : ev :=
  match o with
  | OPlus | OMinus | OMul | ODiv | OFloorDiv | OMod | OPower => arith o a b
  | OLt | OLe | OGt | OGe => order o a b
  | OEq => equality false a b
  | ONe => equality true a b
  | OConcat => concat a b
  | OIn => contains a b
  | OAnd | OOr | OIs | OPipe => Unspec    (* and/or are not strict: handled in eval *)
  end.

(* "Since we only allow one level of undefined-ness": a lookup on an undefined base is an error,
   a missing field is undefined; `?.` / `?[` give undefined for a none/undefined base *)
Definition get_attr (base : value) (a : str) (opt : bool) : ev :=
  if opt && (is_undefined base || is_none base) then Val VUndef else
  match base with
  | VUndef => Err
  | VMap m => Val (map_get m a)
  | _ => Unspec
  end.

Definition get_item (base idx : value) (opt : bool) : ev :=
  if opt && (is_undefined base || is_none base) then Val VUndef else
  match base with
  | VUndef => Err
  | _ =>
    match idx with
    | VUndef => Err
    | VInt _ i =>
        match base with
        | VArr l => Val (match nth_py l i with Some v => v | None => VUndef end)
        | VMap m => match map_find m idx with Some v => Val v | None => Unspec end
        | _ => Unspec
        end
    | VStr k _ =>
        match base with
        | VMap m => match map_find m idx with Some v => Val v | None => Unspec end
        | VArr _ | VStr _ _ => Err
        | _ => Unspec
        end
    | VBool _ =>
        (* map literals may have boolean keys (parser.rs 580-595), so a boolean index into a map is a
           key lookup; the documentation does not mention it *)
        match base with
        | VMap m => match map_find m idx with Some v => Val v | None => Unspec end
        | _ => Err
        end
    | _ => Err       (* "Only ... string or integer number can be used as index: anything else will be an error" *)
    end
  end.

Definition s_ (s : string) : str := s2l s.

Definition kw_get (kw : list (str * ev)) (n : str) : option ev :=
  match find (fun p => str_eqb (fst p) n) kw with Some p => Some (snd p) | None => None end.

Definition run_test (v : value) (n : str) (kw : list (str * ev)) : ev :=
  match kw with
  | [] =>
    if str_eqb n (s_ "defined") then Val (VBool (negb (is_undefined v)))
    else if str_eqb n (s_ "undefined") then Val (VBool (is_undefined v))
    else if str_eqb n (s_ "string") then
      match v with VUndef => Unspec | VStr _ _ => Val (VBool true) | _ => Val (VBool false) end
    else if str_eqb n (s_ "odd") || str_eqb n (s_ "even") then
      match v with
      | VInt _ z => Val (VBool (if str_eqb n (s_ "odd") then Z.odd z else Z.even z))
      | VFloat _ => Unspec
      | _ => Err
      end
    else Unspec
  | _ => Unspec
  end.

Definition run_filter (v : value) (n : str) (kw : list (str * ev)) : ev :=
  if str_eqb n (s_ "default") then
    match kw with
    | [(k, d)] => if str_eqb k (s_ "value") then
                    bind d (fun dv => match v with VUndef => Val dv | _ => Val v end)
                  else Unspec
    | _ => Unspec
    end
  else if str_eqb n (s_ "length") then
    match kw, v with
    | [], VArr l => Val (VInt U64 (Z.of_nat (List.length l)))
    | [], VStr s _ => Val (VInt U64 (Z.of_nat (List.length s)))
    | [], VMap m => Val (VInt U64 (Z.of_nat (List.length m)))
    | [], VUndef => Err
    | _, _ => Unspec
    end
  else Unspec.

(* evaluate keyword arguments left to right; the first error wins *)
Fixpoint kw_first_err (kw : list (str * ev)) : option ev :=
  match kw with
  | [] => None
  | (_, Err) :: _ => Some Err
  | (_, Unspec) :: _ => Some Unspec
  | _ :: r => kw_first_err r
  end.

Definition run_call (n : str) (kw : list (str * ev)) : ev :=
  match kw_first_err kw with
  | Some e => e
  | None => if str_eqb n (s_ "throw") then Err else Unspec
  end.

(* ---- the evaluator *)
Fixpoint eval (g : env) (e : expr) {struct e} : ev :=
  let evkw := fix evkw (kw : list (str * expr)) : list (str * ev) :=
                match kw with [] => [] | (k, x) :: r => (k, eval g x) :: evkw r end in
  match e with
  | EConst c => match const_val c with Some v => Val v | None => Unspec end
  | EVar x => Val (lookup_var x g)
  | EAttr b a opt => bind (eval g b) (fun bv => get_attr bv a opt)
  | EItem b i opt =>
      bind (eval g b) (fun bv =>
        if opt && (is_undefined bv || is_none bv) then
          (* the index expression is still evaluated (strict), its errors count *)
          bind (eval g i) (fun _ => Val VUndef)
        else bind (eval g i) (fun iv => get_item bv iv opt))
  | ESlice _ _ _ _ _ => Unspec
  | EUn UNot a => bind (eval g a) (fun v => Val (VBool (negb (is_truthy v))))
  | EUn UMinus a =>
      bind (eval g a) (fun v => match v with VInt _ z => vint (- z) | VFloat _ => Unspec | _ => Err end)
  (* "and/or evaluate left to right, stop at the deciding operand and yield it" *)
  | EBin OAnd a b => bind (eval g a) (fun v => if is_truthy v then eval g b else Val v)
  | EBin OOr a b => bind (eval g a) (fun v => if is_truthy v then Val v else eval g b)
  | EBin o a b => bind (eval g a) (fun x => bind (eval g b) (fun y => binop o x y))
  | ETest a n kw =>
      bind (eval g a) (fun v =>
        match kw_first_err (evkw kw) with Some r => r | None => run_test v n (evkw kw) end)
  | EFilter a n kw =>
      bind (eval g a) (fun v =>
        match kw_first_err (evkw kw) with Some r => r | None => run_filter v n (evkw kw) end)
  | ECall n kw => run_call n (evkw kw)
  (* "the branches of a ternary not taken are not evaluated" *)
  | ETern c t f => bind (eval g c) (fun v => if is_truthy v then eval g t else eval g f)
  | EArr items =>
      (fix go (l : list (bool * expr)) : ev :=
         match l with
         | [] => Val (VArr [])
         | (spread, x) :: r =>
             bind (eval g x) (fun v =>
               bind (go r) (fun rest =>
                 match rest with
                 | VArr rl =>
                     if spread then match v with VArr vl => Val (VArr (vl ++ rl)) | _ => Err end
                     else match v with VUndef => Unspec | _ => Val (VArr (v :: rl)) end
                 | _ => Unspec
                 end))
         end) items
  (* entries left to right, a later binding of an equal key wins; "...base" merges a map, a
     spread of anything else is an error *)
  | EMap es =>
      (fix go (l : list (option mkey * expr)) (acc : list (key * value)) : ev :=
         match l with
         | [] => Val (VMap acc)
         | (Some k, x) :: r =>
             bind (eval g x) (fun v =>
               match v with
               | VUndef => Unspec
               | _ => go r (Order.map_insert acc (mkey_key k) v)
               end)
         | (None, x) :: r =>
             bind (eval g x) (fun v =>
               match v with
               | VMap mm => go r (fold_left (fun a kv => Order.map_insert a (fst kv) (snd kv)) mm acc)
               | _ => Err
               end)
         end) es []
  (* "You can use list comprehension similar to the ones in Python ... syntax sugar for a `for`
     loop": the target is evaluated once; for each element in order the loop variable is bound
     (shadowing an outer variable of that name), the condition - when there is one - is
     evaluated first and a falsy (or undefined: one level) condition skips the element, else the
     element expression is evaluated and appended; the first error ends the evaluation.
     Decided for an array target without a key variable (and for an empty map with key and
     value); other targets (maps in their iteration order, strings, `k, v` over an array, an
     undefined element value) are left open here. *)
  | EComp e k v target cond =>
      bind (eval g target) (fun tv =>
        match tv, k with
        | VArr l, None =>
            (fix go (l : list value) : ev :=
               match l with
               | [] => Val (VArr [])
               | x :: r =>
                   let g' := (v, x) :: g in
                   bind (match cond with Some c => eval g' c | None => Val (VBool true) end) (fun cv =>
                     if is_truthy cv then
                       bind (eval g' e) (fun y =>
                         match y with
                         | VUndef => Unspec
                         | _ => bind (go r) (fun rest =>
                                  match rest with VArr rl => Val (VArr (y :: rl)) | _ => Unspec end)
                         end)
                     else go r)
               end) l
        | VMap [], Some _ => Val (VArr [])
        | _, _ => Unspec
        end)
  end.

(* what `{{ e }}` does with the value: printing an undefined value is an error *)
Definition printed (r : ev) : ev :=
  match r with Val VUndef => Err | _ => r end.
