(* Independent specifications for C20, written from the RFCs and the property text, not from the
   tera-contrib / crate code:
   * the base64 alphabets as character classes (RFC 4648 §4, §5);
   * the URI "unreserved" class and a strict percent-decoder (RFC 3986 §2.1, §2.3);
   * a JSON data type and a reference reader for the RFC 8259 grammar;
   * the slug alphabet and hyphen law;
   * `canon`: the JSON data a template value denotes (member names = the key's text, integers
     exact, a float = the decimal its text denotes, which must round to the float).
   Executable definitions only.  (Model.Codec is imported only for the decimal text of integer map
   keys, `key_text`.) *)
From TeraV Require Import Model.Value Model.Utf8 Model.Codec.
Open Scope N_scope.

Definition is_upper (c : N) : bool := in_range 65 90 c.
Definition is_lower (c : N) : bool := in_range 97 122 c.
Definition is_digit (c : N) : bool := in_range 48 57 c.

(* RFC 4648 table 1 ("+", "/") and table 2 ("-", "_") *)
Definition is_b64_char (url_safe : bool) (c : N) : bool :=
  is_upper c || is_lower c || is_digit c ||
  (if url_safe then (c =? 45) || (c =? 95) else (c =? 43) || (c =? 47)).

(* RFC 3986 §2.3: ALPHA / DIGIT / "-" / "." / "_" / "~" *)
Definition is_unreserved (c : N) : bool :=
  is_upper c || is_lower c || is_digit c || (c =? 45) || (c =? 46) || (c =? 95) || (c =? 126).

Definition is_hex (c : N) : bool := is_digit c || in_range 65 70 c || in_range 97 102 c.

Definition unhex_digit (c : N) : option N :=
  if is_digit c then Some (c - 48)
  else if in_range 65 70 c then Some (c - 55)
  else if in_range 97 102 c then Some (c - 87)
  else None.

(* strict percent-decoding: "%" must be followed by two hex digits *)
Fixpoint pct_decode (l : list N) : option (list N) :=
  match l with
  | [] => Some []
  | b :: t =>
      if b =? 37 then
        match t with
        | h :: lo :: t' =>
            match unhex_digit h, unhex_digit lo with
            | Some x, Some y => option_map (cons (16 * x + y)) (pct_decode t')
            | _, _ => None
            end
        | _ => None
        end
      else option_map (cons b) (pct_decode t)
  end.

(* the shape "unreserved characters (plus extra) and %XX escapes" *)
Fixpoint pct_shape (extra : N -> bool) (l : list N) : bool :=
  match l with
  | [] => true
  | b :: t =>
      if b =? 37 then
        match t with
        | h :: lo :: t' => is_hex h && is_hex lo && pct_shape extra t'
        | _ => false
        end
      else (is_unreserved b || extra b) && pct_shape extra t
  end.

(* ------------------------------------------------------------------------------ JSON (RFC 8259) *)

(* a number token: (-1)^neg * mant * 10^exp10; isint = the token has neither fraction nor exponent *)
Record jnum := JN { jn_neg : bool; jn_mant : N; jn_exp10 : Z; jn_isint : bool }.

(* strings and member names are kept as UTF-8 byte lists; members in document order *)
Inductive json :=
| JNull | JBool (b : bool) | JNum (n : jnum) | JStr (s : list N)
| JArr (l : list json) | JObj (m : list (list N * json)).

Definition is_ws (c : N) : bool := (c =? 32) || (c =? 9) || (c =? 10) || (c =? 13).
Fixpoint skip_ws (l : list N) : list N :=
  match l with
  | c :: t => if is_ws c then skip_ws t else l
  | [] => []
  end.

Fixpoint span (p : N -> bool) (l : list N) : list N * list N :=
  match l with
  | c :: t => if p c then let '(a, b) := span p t in (c :: a, b) else ([], l)
  | [] => ([], [])
  end.

Definition digits_val (l : list N) : N := fold_left (fun acc d => acc * 10 + (d - 48)) l 0.
Definition is_nil {A} (l : list A) : bool := match l with [] => true | _ => false end.

(* number = [ minus ] int [ frac ] [ exp ];  int = zero / ( digit1-9 *DIGIT ) *)
Definition parse_number_tok (tok : list N) : option jnum :=
  let '(neg, r0) := match tok with
                    | c :: r => if c =? 45 then (true, r) else (false, tok)
                    | [] => (false, tok)
                    end in
  let '(ip, r1) := span is_digit r0 in
  if is_nil ip || match ip with c :: _ :: _ => c =? 48 | _ => false end then None else
  let frac := match r1 with
              | c :: r =>
                  if c =? 46 then
                    let '(fp, r') := span is_digit r in
                    if is_nil fp then None else Some (Some fp, r')
                  else Some (None, r1)
              | [] => Some (None, r1)
              end in
  match frac with
  | None => None
  | Some (fp, r2) =>
      let ex := match r2 with
                | c :: r =>
                    if (c =? 101) || (c =? 69) then
                      let '(eneg, r') := match r with
                                         | s :: r' => if s =? 45 then (true, r')
                                                      else if s =? 43 then (false, r') else (false, r)
                                         | [] => (false, r)
                                         end in
                      let '(ep, r'') := span is_digit r' in
                      if is_nil ep then None
                      else Some (Some (if eneg then (- Z.of_N (digits_val ep))%Z else Z.of_N (digits_val ep)), r'')
                    else Some (None, r2)
                | [] => Some (None, r2)
                end in
      match ex with
      | None => None
      | Some (e, r3) =>
          if negb (is_nil r3) then None else
          let fd := match fp with Some d => d | None => [] end in
          Some {| jn_neg := neg;
                  jn_mant := digits_val (ip ++ fd);
                  jn_exp10 := ((match e with Some x => x | None => 0 end) - Z.of_nat (length fd))%Z;
                  jn_isint := match fp, e with None, None => true | _, _ => false end |}
      end
  end.

(* characters that can continue a number token *)
Definition is_numchar (c : N) : bool :=
  is_digit c || (c =? 45) || (c =? 43) || (c =? 46) || (c =? 101) || (c =? 69).

Definition hex4 (a b c d : N) : option N :=
  match unhex_digit a, unhex_digit b, unhex_digit c, unhex_digit d with
  | Some x, Some y, Some z, Some w => Some (((x * 16 + y) * 16 + z) * 16 + w)
  | _, _, _, _ => None
  end.

(* after the opening quote: chars until the closing quote; escapes decoded; \uXXXX yields the UTF-8
   of the code point (a high surrogate must be followed by an escaped low surrogate); raw control
   characters are not allowed *)
Fixpoint parse_string_body (l : list N) : option (list N * list N) :=
  match l with
  | [] => None
  | c :: t =>
      if c =? 34 then Some ([], t)
      else if c =? 92 then
        match t with
        | e :: t1 =>
            let simple (b : N) := match parse_string_body t1 with
                                  | Some (s, r) => Some (b :: s, r) | None => None end in
            if e =? 34 then simple 34
            else if e =? 92 then simple 92
            else if e =? 47 then simple 47
            else if e =? 98 then simple 8
            else if e =? 102 then simple 12
            else if e =? 110 then simple 10
            else if e =? 114 then simple 13
            else if e =? 116 then simple 9
            else if e =? 117 then
              match t1 with
              | h1 :: h2 :: h3 :: h4 :: t5 =>
                  match hex4 h1 h2 h3 h4 with
                  | None => None
                  | Some u =>
                      if in_range 55296 56319 u then
                        match t5 with
                        | 92 :: 117 :: g1 :: g2 :: g3 :: g4 :: t11 =>
                            match hex4 g1 g2 g3 g4 with
                            | Some lo =>
                                if in_range 56320 57343 lo then
                                  match parse_string_body t11 with
                                  | Some (s, r) =>
                                      Some (utf8_encode_char (65536 + (u - 55296) * 1024 + (lo - 56320)) ++ s, r)
                                  | None => None
                                  end
                                else None
                            | None => None
                            end
                        | _ => None
                        end
                      else if in_range 56320 57343 u then None
                      else match parse_string_body t5 with
                           | Some (s, r) => Some (utf8_encode_char u ++ s, r)
                           | None => None
                           end
                  end
              | _ => None
              end
            else None
        | [] => None
        end
      else if c <? 32 then None
      else match parse_string_body t with
           | Some (s, r) => Some (c :: s, r)
           | None => None
           end
  end.

Definition expect (lit : list N) (l : list N) : option (list N) :=
  if list_eqb N.eqb (firstn (length lit) l) lit then Some (skipn (length lit) l) else None.

(* value = false / null / true / object / array / number / string, with insignificant whitespace;
   every recursive call spends one unit of fuel *)
Fixpoint parse_value (fuel : nat) (l : list N) {struct fuel} : option (json * list N) :=
  match fuel with
  | O => None
  | S f =>
      match skip_ws l with
      | [] => None
      | c :: r =>
          if c =? 110 then match expect [117; 108; 108] r with Some r' => Some (JNull, r') | None => None end
          else if c =? 116 then match expect [114; 117; 101] r with Some r' => Some (JBool true, r') | None => None end
          else if c =? 102 then match expect [97; 108; 115; 101] r with Some r' => Some (JBool false, r') | None => None end
          else if c =? 34 then
            match parse_string_body r with Some (s, r') => Some (JStr s, r') | None => None end
          else if c =? 91 then
            match skip_ws r with
            | [] => None
            | d :: r' =>
                if d =? 93 then Some (JArr [], r')
                else match parse_elems f r with Some (xs, r'') => Some (JArr xs, r'') | None => None end
            end
          else if c =? 123 then
            match skip_ws r with
            | [] => None
            | d :: r' =>
                if d =? 125 then Some (JObj [], r')
                else match parse_members f r with Some (ms, r'') => Some (JObj ms, r'') | None => None end
            end
          else
            let '(tok, r') := span is_numchar (c :: r) in
            match parse_number_tok tok with Some n => Some (JNum n, r') | None => None end
      end
  end
with parse_elems (fuel : nat) (l : list N) {struct fuel} : option (list json * list N) :=
  match fuel with
  | O => None
  | S f =>
      match parse_value f l with
      | None => None
      | Some (x, r) =>
          match skip_ws r with
          | [] => None
          | d :: r' =>
              if d =? 44 then
                match parse_elems f r' with Some (xs, r'') => Some (x :: xs, r'') | None => None end
              else if d =? 93 then Some ([x], r')
              else None
          end
      end
  end
with parse_members (fuel : nat) (l : list N) {struct fuel} : option (list (list N * json) * list N) :=
  match fuel with
  | O => None
  | S f =>
      match skip_ws l with
      | [] => None
      | q :: r0 =>
          if negb (q =? 34) then None else
          match parse_string_body r0 with
          | None => None
          | Some (k, r1) =>
              match skip_ws r1 with
              | [] => None
              | cl :: r2 =>
                  if negb (cl =? 58) then None else
                  match parse_value f r2 with
                  | None => None
                  | Some (x, r3) =>
                      match skip_ws r3 with
                      | [] => None
                      | d :: r4 =>
                          if d =? 44 then
                            match parse_members f r4 with
                            | Some (ms, r5) => Some ((k, x) :: ms, r5) | None => None end
                          else if d =? 125 then Some ([(k, x)], r4)
                          else None
                      end
                  end
              end
          end
      end
  end.

(* JSON-text = ws value ws (the fuel is generous: two units per input byte) *)
Definition json_read (l : list N) : option json :=
  match parse_value (S (2 * length l)) l with
  | Some (j, r) => if is_nil (skip_ws r) then Some j else None
  | None => None
  end.

(* ------------------------------------------------------------------------------ slug *)
Definition is_slug_char (c : N) : bool := is_lower c || is_digit c || (c =? 45).

(* no leading hyphen, no trailing hyphen, no two hyphens in a row *)
Fixpoint no_double_hyphen (l : list N) : bool :=
  match l with
  | 45 :: ((45 :: _) as t) => false
  | _ :: t => no_double_hyphen t
  | [] => true
  end.
Definition slug_shape (l : list N) : bool :=
  forallb is_slug_char l && negb (hd 0 l =? 45) && negb (last l 0 =? 45) && no_double_hyphen l.

(* ------------------------------------------------------------------------------ values as JSON data *)

(* the decimal (-1)^neg * mant * 10^exp10 lies in the round-to-nearest-even interval of the
   binary64 f (canonical significand: 2^52 <= m < 2^53, or e = -1074), i.e. any correctly rounding
   reader returns exactly f.  Units of 2^(e-2): f = 4m, upper midpoint 4m+2, lower midpoint 4m-2
   (4m-1 just above a power of two, where the gap below is half as wide). *)
Definition cmp_dec_bin (M : N) (q : Z) (K : N) (g : Z) : comparison :=
  (* compare M * 10^q with K * 2^g *)
  let a := (Z.of_N M * 10 ^ Z.max q 0 * 2 ^ Z.max (- g) 0)%Z in
  let b := (Z.of_N K * 2 ^ Z.max g 0 * 10 ^ Z.max (- q) 0)%Z in
  (a ?= b)%Z.

Definition rounds_to (d : jnum) (f : spec_float) : bool :=
  match f with
  | S754_zero s => Bool.eqb (jn_neg d) s && (jn_mant d =? 0)
  | S754_finite s m e =>
      let m' := Npos m in
      let lo := if (m' =? 4503599627370496) && (-1074 <? e)%Z then 4 * m' - 1 else 4 * m' - 2 in
      let hi := 4 * m' + 2 in
      let even := N.even m' in
      Bool.eqb (jn_neg d) s &&
      match cmp_dec_bin (jn_mant d) (jn_exp10 d) lo (e - 2) with
      | Gt => true | Eq => even | Lt => false end &&
      match cmp_dec_bin (jn_mant d) (jn_exp10 d) hi (e - 2) with
      | Lt => true | Eq => even | Gt => false end
  | _ => false
  end.

(* what the float-text oracle must satisfy for a finite f: a complete JSON number token that is not
   an integer token and denotes a decimal that rounds to f *)
Definition float_text_ok (t : list N) (f : spec_float) : bool :=
  forallb is_numchar t &&
  match parse_number_tok t with
  | Some d => negb (jn_isint d) && rounds_to d f
  | None => false
  end.

Section Canon.
  Variable ft : spec_float -> list N.
  (* None and Undefined both denote null; bytes denote an array of numbers; representation tags,
     the safe flag and the kind of a map key are not JSON data *)
  Fixpoint canon (v : value) : json :=
    match v with
    | VUndef | VNone => JNull
    | VBool b => JBool b
    | VInt _ z => JNum (JN (z <? 0)%Z (Z.abs_N z) 0 true)
    | VFloat f =>
        if sf_finite f
        then match parse_number_tok (ft f) with Some d => JNum d | None => JNull end
        else JNull
    | VStr s _ => JStr (utf8_encode s)
    | VBytes b => JArr (map (fun x => JNum (JN false x 0 true)) b)
    | VArr l => JArr (map canon l)
    | VMap m => JObj (map (fun kv : key * value => (key_text (fst kv), canon (snd kv))) m)
    end.
End Canon.

Definition jnum_eqb (a b : jnum) : bool :=
  Bool.eqb (jn_neg a) (jn_neg b) && (jn_mant a =? jn_mant b) && (jn_exp10 a =? jn_exp10 b)%Z
  && Bool.eqb (jn_isint a) (jn_isint b).

Fixpoint json_eqb (a b : json) {struct a} : bool :=
  match a, b with
  | JNull, JNull => true
  | JBool x, JBool y => Bool.eqb x y
  | JNum x, JNum y => jnum_eqb x y
  | JStr x, JStr y => list_eqb N.eqb x y
  | JArr l, JArr l' =>
      (fix go (l l' : list json) : bool :=
         match l, l' with
         | [], [] => true
         | x :: t, y :: t' => json_eqb x y && go t t'
         | _, _ => false
         end) l l'
  | JObj m, JObj m' =>
      (fix go (m m' : list (list N * json)) : bool :=
         match m, m' with
         | [], [] => true
         | (k, x) :: t, (k', y) :: t' => list_eqb N.eqb k k' && json_eqb x y && go t t'
         | _, _ => false
         end) m m'
  | _, _ => false
  end.

(* members sorted by name (stable), recursively: the order of members is not data *)
Fixpoint bytes_leb (a b : list N) : bool :=
  match a, b with
  | [], _ => true
  | _ :: _, [] => false
  | x :: a', y :: b' => if x <? y then true else if y <? x then false else bytes_leb a' b'
  end.
Fixpoint insert_member (kv : list N * json) (l : list (list N * json)) : list (list N * json) :=
  match l with
  | [] => [kv]
  | h :: t => if bytes_leb (fst kv) (fst h) then kv :: l else h :: insert_member kv t
  end.
Fixpoint json_sort (j : json) : json :=
  match j with
  | JArr l => JArr (map json_sort l)
  | JObj m => JObj (fold_right insert_member [] (map (fun kv => (fst kv, json_sort (snd kv))) m))
  | _ => j
  end.
