(* Specification of C13, written from the property text, not from the Rust code:
   - exact integer arithmetic on Z, "fits in 128-bit signed range";
   - Euclidean division: the unique q, r with a = q*b + r and 0 <= r < |b|;
   - the exact mathematical value of a number (an integer or an IEEE double) as an extended
     dyadic rational, and the exact order on those values with NaN equal to itself and above
     everything. *)
From Coq Require Import ZArith Bool Lia.
From Coq Require Import Floats.SpecFloat.
Open Scope Z_scope.

(* ---------------------------------------------------------------- 128-bit signed range *)
Definition fits_i128 (z : Z) : Prop := - 2 ^ 127 <= z <= 2 ^ 127 - 1.

(* ---------------------------------------------------------------- Euclidean division *)
(* defined through floor division by the POSITIVE number |b| *)
Definition euclid_mod (a b : Z) : Z := a mod (Z.abs b).
Definition euclid_div (a b : Z) : Z := Z.sgn b * (a / Z.abs b).

(* what the property asks of a quotient/remainder pair *)
Definition is_euclid (a b q r : Z) : Prop := q * b + r = a /\ 0 <= r < Z.abs b.

(* ---------------------------------------------------------------- exact values *)
(* XFin m e is the rational m * 2^e *)
Inductive xreal := XNegInf | XFin (m e : Z) | XPosInf | XNaN.

(* m1 * 2^e1 compared with m2 * 2^e2: scale both by 2^(-min e1 e2), compare the integers *)
Definition dy_cmp (m1 e1 m2 e2 : Z) : comparison :=
  let k := Z.min e1 e2 in
  (m1 * 2 ^ (e1 - k)) ?= (m2 * 2 ^ (e2 - k)).

(* the total order: -inf < every rational < +inf < NaN, NaN = NaN *)
Definition xcmp (a b : xreal) : comparison :=
  match a, b with
  | XNaN, XNaN => Eq
  | XNaN, _ => Gt
  | _, XNaN => Lt
  | XPosInf, XPosInf => Eq
  | XPosInf, _ => Gt
  | _, XPosInf => Lt
  | XNegInf, XNegInf => Eq
  | XNegInf, _ => Lt
  | _, XNegInf => Gt
  | XFin m1 e1, XFin m2 e2 => dy_cmp m1 e1 m2 e2
  end.

(* equality of exact values (XFin 1 1 and XFin 2 0 denote the same rational) *)
Definition xeq (a b : xreal) : Prop := xcmp a b = Eq.

(* value of an integer and of a double *)
Definition xval_int (z : Z) : xreal := XFin z 0.
Definition xval_float (f : spec_float) : xreal :=
  match f with
  | S754_zero _ => XFin 0 0                      (* -0 = +0 = 0 *)
  | S754_infinity s => if s then XNegInf else XPosInf
  | S754_nan => XNaN
  | S754_finite s m e => XFin (if s then Zneg m else Zpos m) e
  end.
