(* Spec/Doc.v — the independent specification for C08, written from the property text:

     "Text outside tags, expressions and comments is written to the output byte-for-byte and in
      order; a `-` inside a delimiter removes exactly the whitespace at the facing end of the
      directly adjacent literal text (up to the next tag, expression or comment; a raw block's
      body counts as literal text here) and nothing else; comments produce nothing; the body of
      a raw block is emitted verbatim without interpreting any delimiters inside it."

   A template is a document: a list of items.  `print` spells it with a delimiter set,
   `wf_doc` says when that spelling reads back as the same document (exactly the side
   conditions the property allows), `spec_out` is what it must render to.

   This file does not mention the lexer model.  It uses Model/Utf8.v for bytes, White_Space
   trimming and ASCII whitespace, and is parametric in the six delimiters (a plain record of
   its own) and in `inside_ends`: the judgement "an expression/tag interior starting here ends
   there" — expressions are opaque for this property. *)
From TeraV Require Import Model.Utf8Lex.
Local Open Scope N_scope.

Inductive item :=
| Text (s : bytes)
| Comment (l : bool) (body : bytes) (r : bool)
| Raw (l il : bool) (body : bytes) (ir r : bool)
| Expr (l : bool) (src : bytes) (r : bool)
| Tag (l : bool) (src : bytes) (r : bool).

Definition doc := list item.

(* delimiter spelling: block_start block_end variable_start variable_end comment_start comment_end *)
Record spelling := mkSpelling { bs : bytes; be : bytes; vs : bytes; ve : bytes; cs : bytes; ce : bytes }.

Definition mk (b : bool) : bytes := if b then [dash] else [].
Definition sp : bytes := [0x20].
Definition kw_raw : bytes := [0x72; 0x61; 0x77].
Definition kw_endraw : bytes := [0x65; 0x6E; 0x64; 0x72; 0x61; 0x77].

(* `{%- raw -%}` and `{%- endraw -%}` spelled with single spaces *)
Definition raw_open (d : spelling) (l il : bool) : bytes :=
  bs d ++ mk l ++ sp ++ kw_raw ++ sp ++ mk il ++ be d.
Definition raw_close (d : spelling) (ir r : bool) : bytes :=
  bs d ++ mk ir ++ sp ++ kw_endraw ++ sp ++ mk r ++ be d.

Definition print_item (d : spelling) (it : item) : bytes :=
  match it with
  | Text s => s
  | Comment l body r => cs d ++ mk l ++ body ++ mk r ++ ce d
  | Raw l il body ir r => raw_open d l il ++ body ++ raw_close d ir r
  | Expr l src r => vs d ++ mk l ++ src ++ mk r ++ ve d
  | Tag l src r => bs d ++ mk l ++ src ++ mk r ++ be d
  end.

Fixpoint print (d : spelling) (dc : doc) : bytes :=
  match dc with
  | [] => []
  | it :: rest => print_item d it ++ print d rest
  end.

(* ---------------------------------------------------------------- what must be rendered *)

Definition starts_dash (it : item) : bool :=
  match it with
  | Text _ => false
  | Comment l _ _ | Raw l _ _ _ _ | Expr l _ _ | Tag l _ _ => l
  end.
Definition ends_dash (it : item) : bool :=
  match it with
  | Text _ => false
  | Comment _ _ r | Raw _ _ _ _ r | Expr _ _ r | Tag _ _ r => r
  end.

Definition lead_of (prev : option item) : bool :=
  match prev with Some p => ends_dash p | None => false end.
Definition trail_of (next : doc) : bool :=
  match next with n :: _ => starts_dash n | [] => false end.

Definition trim_start_if (b : bool) (s : bytes) : bytes := if b then trim_start s else s.
Definition trim_end_if (b : bool) (s : bytes) : bytes := if b then trim_end s else s.

(* output segments: literal text, or the place where an expression / a tag acts *)
Inductive seg :=
| SText (s : bytes)
| SExpr (l r : bool)
| STag (l r : bool).

Definition text_seg (s : bytes) : list seg := match s with [] => [] | _ => [SText s] end.

(* Each Text / raw body loses leading White_Space iff the directly preceding item ends with `-`,
   trailing White_Space iff the directly following item starts with `-`; raw bodies
   additionally by the inner markers of their own tags; comments yield nothing; texts that
   become empty vanish; nothing else changes. *)
Fixpoint spec_segs (prev : option item) (dc : doc) : list seg :=
  match dc with
  | [] => []
  | it :: rest =>
    let lead := lead_of prev in
    let trail := trail_of rest in
    (match it with
     | Text s => text_seg (trim_end_if trail (trim_start_if lead s))
     | Comment _ _ _ => []
     | Raw _ il body ir _ => text_seg (trim_end_if (ir || trail) (trim_start_if (il || lead) body))
     | Expr l _ r => [SExpr l r]
     | Tag l _ r => [STag l r]
     end) ++ spec_segs (Some it) rest
  end.

Definition spec_out (dc : doc) : list seg := spec_segs None dc.

(* bytes written when the k-th expression (from the left) prints `out_of k` and tags print
   nothing *)
Fixpoint segs_bytes (out_of : nat -> bytes) (k : nat) (l : list seg) : bytes :=
  match l with
  | [] => []
  | SText s :: r => s ++ segs_bytes out_of k r
  | SExpr _ _ :: r => out_of k ++ segs_bytes out_of (S k) r
  | STag _ _ :: r => segs_bytes out_of k r
  end.

Definition spec_render (out_of : nat -> bytes) (dc : doc) : bytes :=
  segs_bytes out_of O (spec_out dc).

(* ---------------------------------------------------------------- well-formedness *)

(* the 2-byte window of s at position p *)
Definition window (s : bytes) (p : nat) : bytes := firstn 2 (skipn p s).
Definition occurs (d s : bytes) (p : nat) : Prop := window s p = d.

Definition start_at (d : spelling) (s : bytes) (p : nat) : Prop :=
  occurs (vs d) s p \/ occurs (bs d) s p \/ occurs (cs d) s p.

Definition no_dash_first (s : bytes) : Prop :=
  match s with b :: _ => b <> dash | [] => True end.
Definition no_dash_last (s : bytes) : Prop := no_dash_first (rev s).

Definition all_ascii_ws (w : bytes) : Prop := Forall (fun b => is_ascii_ws b = true) w.

(* the first byte is neither `-` nor ASCII whitespace *)
Definition plain_first (s : bytes) : Prop :=
  match s with b :: _ => b <> dash /\ is_ascii_ws b = false | [] => True end.

(* `s` reads as `-? ws* name ws* -? end …` (the shape of a raw / endraw tag after the start
   delimiter) *)
Definition tag_named (name e s : bytes) : Prop :=
  exists m1 w1 w2 m2 rest,
    s = mk m1 ++ w1 ++ name ++ w2 ++ mk m2 ++ e ++ rest /\ all_ascii_ws w1 /\ all_ascii_ws w2.

Section WF.
  Variable d : spelling.
  (* inside_ends e s r tail: reading an expression/tag interior from `s` (just after the start
     delimiter and its marker) with end delimiter `e`, the end delimiter is found with marker
     `r` and `tail` is what follows it. *)
  Variable inside_ends : bytes -> bytes -> bool -> bytes -> Prop.

  (* `tail` is the spelling of the rest of the document *)
  Definition wf_item (it : item) (tail : bytes) : Prop :=
    match it with
    | Text s =>
      (* no start delimiter begins inside the text (a window may straddle its end only if it
         is the real next delimiter, i.e. begins at |s|) *)
      s <> [] /\ forall p, (p < length s)%nat -> ~ start_at d (s ++ tail) p
    | Comment l body r =>
      (* the markers are the ones written, and the first comment end is the real one *)
      (l = false -> no_dash_first (body ++ mk r ++ ce d))
      /\ (r = false -> no_dash_last body)
      /\ forall p, (p < length (body ++ mk r))%nat -> ~ occurs (ce d) (body ++ mk r ++ ce d) p
    | Raw l il body ir r =>
      (* with a block end that begins with `-` or a blank an unmarked tag cannot be spelled *)
      (il = false -> plain_first (be d)) /\ (r = false -> plain_first (be d))
      (* no block start inside the body begins an endraw tag, none straddles the body's end *)
      /\ forall p, (p < length body)%nat -> occurs (bs d) (body ++ bs d) p ->
           (p + 2 <= length body)%nat
           /\ ~ tag_named kw_endraw (be d) (skipn (p + 2) (body ++ raw_close d ir r ++ tail))
    | Expr l src r =>
      (l = false -> no_dash_first (src ++ mk r ++ ve d))
      /\ inside_ends (ve d) (src ++ mk r ++ ve d ++ tail) r tail
    | Tag l src r =>
      (l = false -> no_dash_first (src ++ mk r ++ be d))
      /\ ~ tag_named kw_raw (be d) (src ++ mk r ++ be d ++ tail)
      /\ inside_ends (be d) (src ++ mk r ++ be d ++ tail) r tail
    end.

  Definition is_text (it : item) : bool := match it with Text _ => true | _ => false end.

  (* two texts never touch (they would be one text) *)
  Fixpoint wf_doc (dc : doc) : Prop :=
    match dc with
    | [] => True
    | it :: rest =>
      wf_item it (print d rest)
      /\ (is_text it = true -> match rest with n :: _ => is_text n = false | [] => True end)
      /\ wf_doc rest
    end.
End WF.

(* accepted delimiter sets: six 2-byte strings, start delimiters pairwise distinct *)
Definition spelling_ok (d : spelling) : Prop :=
  length (bs d) = 2%nat /\ length (be d) = 2%nat /\ length (vs d) = 2%nat /\
  length (ve d) = 2%nat /\ length (cs d) = 2%nat /\ length (ce d) = 2%nat /\
  bs d <> vs d /\ bs d <> cs d /\ vs d <> cs d.
