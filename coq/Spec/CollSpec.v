(* Independent specifications for C16, written from the property text (not from filters.rs). *)
From Coq Require Import List Bool.
Import ListNotations.

Section FirstOcc.
  Context {A : Type}.
  Variable eq : A -> A -> bool.
  (* "exactly one representative of every class of equal elements, in first-occurrence order":
     an element is kept iff no EARLIER ELEMENT OF THE INPUT (kept or not) is equal to it *)
  Fixpoint first_occurrences (pre l : list A) : list A :=
    match l with
    | [] => []
    | x :: t =>
        if existsb (fun p => eq p x) pre then first_occurrences (pre ++ [x]) t
        else x :: first_occurrences (pre ++ [x]) t
    end.
End FirstOcc.
