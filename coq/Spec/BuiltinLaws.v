(* Independent statements of what the built-ins are documented to do (docs/content/_index.md
   "Built-ins", the property text of C17, the Unicode White_Space list, IEEE/decimal arithmetic
   on Z).  Nothing here mentions the model of the code. *)
From Coq Require Import List ZArith NArith Bool Lia.
Import ListNotations.
Open Scope Z_scope.

Definition text := list N.

(* ------------------------------------------------------------------ prefixes, occurrences *)

Definition is_prefix {A} (p s : list A) : Prop := exists r, s = p ++ r.
Definition is_suffix {A} (p s : list A) : Prop := exists r, s = r ++ p.
Definition is_infix {A} (p s : list A) : Prop := exists a r, s = a ++ p ++ r.

(* p occurs in s with `a` before it and `r` after it, and nowhere further left *)
Definition leftmost {A} (p s a r : list A) : Prop :=
  s = a ++ p ++ r /\ forall a' r', s = a' ++ p ++ r' -> (length a <= length a')%nat.

(* the pieces between the leftmost non-overlapping occurrences of p (p not empty) *)
Inductive split_at {A} (p : list A) : list A -> list (list A) -> Prop :=
| split_none s : ~ is_infix p s -> split_at p s [s]
| split_one s a r l : leftmost p s a r -> split_at p r l -> split_at p s (a :: l).

Fixpoint join_with {A} (sep : list A) (l : list (list A)) : list A :=
  match l with
  | [] => []
  | [x] => x
  | x :: t => x ++ sep ++ join_with sep t
  end.

(* n copies of p *)
Fixpoint copies {A} (n : nat) (p : list A) : list A :=
  match n with O => [] | S k => p ++ copies k p end.

(* ------------------------------------------------------------------ White_Space *)

(* Unicode PropList.txt, White_Space: 25 code points *)
Definition white_space : list N :=
  [9; 10; 11; 12; 13; 32; 133; 160; 5760; 8192; 8193; 8194; 8195; 8196; 8197; 8198; 8199; 8200;
   8201; 8202; 8232; 8233; 8239; 8287; 12288]%N.
Definition ws (c : N) : Prop := In c white_space.

Definition starts_with_ws (s : text) : Prop := match s with c :: _ => ws c | [] => False end.
Definition ends_with_ws (s : text) : Prop := starts_with_ws (rev s).

(* r is s without its leading / trailing / surrounding white space *)
Definition trimmed_start (s r : text) : Prop :=
  exists w, s = w ++ r /\ Forall ws w /\ ~ starts_with_ws r.
Definition trimmed_end (s r : text) : Prop :=
  exists w, s = r ++ w /\ Forall ws w /\ ~ ends_with_ws r.
Definition trimmed (s r : text) : Prop :=
  exists w1 w2, s = w1 ++ r ++ w2 /\ Forall ws w1 /\ Forall ws w2 /\
                ~ starts_with_ws r /\ ~ ends_with_ws r.

(* r is s without the copies of the non-empty pattern p at its start / end *)
Definition pat_trimmed_start (p s r : text) : Prop :=
  exists n, s = copies n p ++ r /\ ~ is_prefix p r.
Definition pat_trimmed_end (p s r : text) : Prop :=
  exists n, s = r ++ copies n p /\ ~ is_suffix p r.

(* ------------------------------------------------------------------ newlines_to_br *)

Definition br_text : text := [60; 98; 114; 62]%N.   (* <br> *)

(* one left-to-right pass: "\r\n", "\n" and "\r" each become <br>, every other character is kept *)
Fixpoint nl2br (s : text) : text :=
  match s with
  | [] => []
  | c :: t =>
      if N.eqb c 13 then
        match t with
        | d :: t' => if N.eqb d 10 then br_text ++ nl2br t' else br_text ++ nl2br t
        | [] => br_text
        end
      else if N.eqb c 10 then br_text ++ nl2br t
      else c :: nl2br t
  end.

(* ------------------------------------------------------------------ escaping *)

(* out is s with every character that has a table entry replaced by it, every other one copied *)
Definition escaped_by (tbl : list (N * list N)) (s out : text) : Prop :=
  exists pieces, out = concat pieces /\
    Forall2 (fun c piece =>
               (exists rep, In (c, rep) tbl /\ piece = rep) \/
               ((forall rep, ~ In (c, rep) tbl) /\ piece = [c])) s pieces.

Definition html_special (c : N) : Prop := c = 60%N \/ c = 62%N \/ c = 34%N \/ c = 39%N.

(* ------------------------------------------------------------------ arithmetic progressions *)

(* number of i >= 0 for which start + i*step lies before end_ (in the direction of step) *)
Definition range_count (start end_ step : Z) : Z :=
  if 0 <? step then (if start <? end_ then (end_ - start + step - 1) / step else 0)
  else if step <? 0 then (if end_ <? start then (start - end_ + (- step) - 1) / (- step) else 0)
  else 0.

Definition progression (start step : Z) (n : nat) : list Z :=
  map (fun i => start + Z.of_nat i * step) (seq 0 n).

Definition I128_MIN : Z := - 2 ^ 127.
Definition I128_MAX : Z := 2 ^ 127 - 1.
Definition fits_i128 (z : Z) : Prop := I128_MIN <= z <= I128_MAX.
