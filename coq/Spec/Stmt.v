(* Reference interpreter for the statement language of templates, written from the
   documentation (docs/content/_index.md: "Variables", "Logic", "Filters", "Control structures",
   "Assignments", "Include") and the text of property C03 -- NOT from the virtual machine.

   Big-step, structural (no fuel): `exec` is a Fixpoint on the statement tree; a `for` recurses
   on the list of items; an `include` recurses on the template library, which is a list in which
   a template may only include templates that come later (every acyclic include graph can be
   listed that way; cyclic graphs are rejected at registration: C11).

   The four scopes of a name (property text): innermost loop first (per-iteration assignments,
   then the loop variables), then assignments (`set` outside loops, `set_global`), then -- in an
   included template -- the includer's scopes, then the render context, then the global
   context.  Values, truthiness, formatting, escaping, attribute lookup, equality and the
   built-in filters/tests are parameters (`builtins`): they are the subject of other properties. *)
From TeraV Require Import Model.Value.
Local Open Scope nat_scope.

(* ---------- finite maps name -> value ---------- *)
Definition bindings := list (str * value).

Fixpoint lookup (b : bindings) (n : str) : option value :=
  match b with
  | [] => None
  | (k, v) :: t => if str_eqb k n then Some v else lookup t n
  end.

(* binding a name replaces its previous binding *)
Definition bind (b : bindings) (n : str) (v : value) : bindings :=
  (n, v) :: filter (fun kv => negb (str_eqb (fst kv) n)) b.

(* ---------- syntax ---------- *)
Inductive loop_field := LIndex | LIndex0 | LFirst | LLast | LLength.

(* the binary operators other than and / or / == (docs "Math", "Comparisons", "Concatenation",
   "`in` checking"); `a not in b` is `not (a in b)` *)
Inductive binop :=
| BMul | BDiv | BFloorDiv | BMod | BPlus | BMinus | BPower
| BLt | BGt | BLe | BGe | BNe
| BConcat                                  (* a ~ b *)
| BIn.                                     (* a in b *)

Inductive expr :=
| EConst (v : value)
| EVar (n : str)
| ELoop (f : loop_field)                 (* loop.index, loop.index0, loop.first, loop.last, loop.length *)
| EAttr (e : expr) (a : str)             (* e.a *)
| ENot (e : expr)
| EAnd (a b : expr)
| EOr (a b : expr)
| EEq (a b : expr)
| ETest (e : expr) (name : str)          (* e is name *)
| EFilter (e : expr) (name : str) (kw : list (str * expr))    (* e | name(k=v, ...) *)
| EBin (op : binop) (a b : expr)         (* a op b: both operands are evaluated, left first *)
| ENeg (e : expr)                        (* -e *)
| ETernary (c a b : expr)                (* a if c else b: only the chosen branch is evaluated *)
| EAttrOpt (e : expr) (a : str)          (* e?.a: Undefined when e is Undefined or none *)
| ESub (opt : bool) (e i : expr)         (* e[i], e?[i] *)
| ESlice (opt : bool) (e : expr) (start stop step : option expr)   (* e[a:b:c], e?[a:b:c] *)
| ECall (name : str) (kw : list (str * expr))                       (* name(k=v, ...) *)
| EArr (items : list (bool * expr))      (* [a, ...b]: true marks a spread entry *)
| EMap (entries : list (option value * expr)).   (* {k: v, ...m}: None marks a spread entry *)

Definition filter_call := (str * list (str * expr))%type.

Inductive stmt :=
| SText (t : str)
| SPrint (e : expr)                                          (* {{ e }} *)
| SIf (c : expr) (body els : list stmt)                      (* elif = an SIf alone in `els` *)
| SFor (key : option str) (val : str) (target : expr) (body els : list stmt)
| SAssign (global : bool) (name : str) (e : expr)            (* set / set_global *)
| SSetBlock (global : bool) (name : str) (body : list stmt) (filters : list filter_call)
| SFilter (name : str) (kw : list (str * expr)) (body : list stmt)   (* filter section *)
| SInclude (name : str)
| SBreak
| SContinue.

Notation SSet := (SAssign false).
Notation SSetGlobal := (SAssign true).

(* if / elif* / else as the documentation writes it *)
Fixpoint if_chain (branches : list (expr * list stmt)) (els : list stmt) : list stmt :=
  match branches with
  | [] => els
  | (c, body) :: rest => [SIf c body (if_chain rest els)]
  end.

(* ---------- environments ---------- *)
Record loop_scope := {
  ls_key_name : option str;
  ls_val_name : str;
  ls_item : option value * value;     (* (key when iterating a map, value) *)
  ls_index0 : nat;
  ls_length : nat;
  ls_locals : bindings }.             (* assignments made during the current iteration *)

Inductive env :=
| Env (loops : list loop_scope)       (* innermost first *)
      (assigned : bindings)           (* set outside loops, set_global *)
      (includer : option env)         (* the scopes of the template that included this one *)
      (context : bindings)            (* render context *)
      (global : bindings).            (* global context; an included template reaches it through its includer *)

Definition e_loops (e : env) := match e with Env l _ _ _ _ => l end.
Definition e_assigned (e : env) := match e with Env _ a _ _ _ => a end.
Definition e_includer (e : env) := match e with Env _ _ i _ _ => i end.
Definition e_context (e : env) := match e with Env _ _ _ c _ => c end.
Definition e_global (e : env) := match e with Env _ _ _ _ g => g end.

Definition with_locals (l : loop_scope) (b : bindings) : loop_scope :=
  {| ls_key_name := ls_key_name l; ls_val_name := ls_val_name l; ls_item := ls_item l;
     ls_index0 := ls_index0 l; ls_length := ls_length l; ls_locals := b |}.

(* a loop scope: the iteration's own assignments shadow the loop variables *)
Definition loop_lookup (l : loop_scope) (n : str) : option value :=
  match lookup (ls_locals l) n with
  | Some v => Some v
  | None =>
      if str_eqb (ls_val_name l) n then Some (snd (ls_item l))
      else match ls_key_name l with
           | Some k => if str_eqb k n
                       then Some (match fst (ls_item l) with Some kv => kv | None => VNone end)
                       else None
           | None => None
           end
  end.

Fixpoint loops_lookup (ls : list loop_scope) (n : str) : option value :=
  match ls with
  | [] => None
  | l :: t => match loop_lookup l n with Some v => Some v | None => loops_lookup t n end
  end.

(* name resolution; a name nobody binds is Undefined ("one level of undefined-ness"); the
   includer's scopes answer only when they resolve the name to something defined *)
Fixpoint env_lookup (e : env) (n : str) : value :=
  match e with
  | Env loops assigned includer context global =>
      match loops_lookup loops n with
      | Some v => v
      | None =>
          match lookup assigned n with
          | Some v => v
          | None =>
              let from_includer := match includer with Some p => env_lookup p n | None => VUndef end in
              if negb (is_undefined from_includer) then from_includer
              else match lookup context n with
                   | Some v => v
                   | None => match lookup global n with Some v => v | None => VUndef end
                   end
          end
      end
  end.

Definition loop_field_value (l : loop_scope) (f : loop_field) : value :=
  match f with
  | LIndex => VInt U64 (Z.of_nat (S (ls_index0 l)))
  | LIndex0 => VInt U64 (Z.of_nat (ls_index0 l))
  | LFirst => VBool (Nat.eqb (ls_index0 l) 0)
  | LLast => VBool (Nat.eqb (S (ls_index0 l)) (ls_length l))
  | LLength => VInt U64 (Z.of_nat (ls_length l))
  end.

(* `set` inside a loop body is local to the current iteration; outside loops it is render-wide *)
Definition assign_local (e : env) (n : str) (v : value) : env :=
  match e with
  | Env (l :: t) a i c g => Env (with_locals l (bind (ls_locals l) n v) :: t) a i c g
  | Env [] a i c g => Env [] (bind a n v) i c g
  end.
Definition assign_global (e : env) (n : str) (v : value) : env :=
  match e with Env l a i c g => Env l (bind a n v) i c g end.
Definition assign (global : bool) := if global then assign_global else assign_local.

Definition push_loop (e : env) (l : loop_scope) : env :=
  match e with Env ls a i c g => Env (l :: ls) a i c g end.
Definition pop_loop (e : env) : env :=
  match e with Env ls a i c g => Env (tl ls) a i c g end.

(* an included template: no loops or assignments of its own, the includer's scopes behind it *)
Definition included_env (e : env) : env := Env [] [] (Some e) (e_context e) [].

(* ---------- what a `for` visits ---------- *)
Definition key_value (k : key) : value :=
  match k with KBool b => VBool b | KInt r z => VInt r z | KStr s _ => VStr s false end.

Definition items_of (v : value) : option (list (option value * value)) :=
  match v with
  | VArr l => Some (map (fun x => (None, x)) l)                       (* elements, in order *)
  | VStr s _ => Some (map (fun c => (None, VStr [c] false)) s)       (* characters, in order *)
  | VMap m => Some (map (fun kv => (Some (key_value (fst kv)), snd kv)) m)   (* each entry once *)
  | VBytes b => Some (map (fun x => (None, VInt U64 (Z.of_N x))) b)
  | _ => None
  end.

(* ---------- built-ins (parameters) ---------- *)
Record builtins := {
  b_get_attr : value -> str -> option value;
  b_eq : value -> value -> bool;
  b_test : str -> value -> option (res bool);                               (* None: no such test *)
  b_filter : str -> value -> list (str * value) -> option (res value * bool);   (* result, marks-safe *)
  b_format : value -> str;
  b_escape : str -> str;
  b_binop : binop -> value -> value -> res value;     (* arithmetic, ordering, !=, ~, in *)
  b_neg : value -> res value;
  b_subscript : bool -> value -> value -> res value;                 (* optional?, container, index *)
  b_slice : bool -> value -> value -> value -> value -> res value;   (* optional?, container, start, stop, step *)
  b_function : str -> list (str * value) -> option (res value * bool);   (* result, marks-safe; None: no such function *)
  b_build_map : list (option value * value) -> res value }.          (* entries in source order *)

Definition mark_safe_value (v : value) : value :=
  match v with VStr s _ => VStr s true | v => v end.

(* what is printed without escaping: safe strings and scalars *)
Definition prints_raw (v : value) : bool :=
  match v with
  | VStr _ safe => safe
  | VArr _ | VMap _ | VBytes _ => false
  | _ => true
  end.

Inductive signal := SigNormal | SigBreak | SigContinue.

Section Sem.
  Variable B : builtins.
  Variable autoescape : bool.                       (* of the template being rendered *)
  Variable inc : str -> env -> res str.             (* rendering of an included template *)

  Definition eval_kws (ev : expr -> res value) : list (str * expr) -> res (list (str * value)) :=
    fix go l :=
      match l with
      | [] => ROk []
      | (k, e) :: t =>
          match ev e with
          | ROk v => match go t with ROk r => ROk ((k, v) :: r) | RErr x => RErr x end
          | RErr x => RErr x
          end
      end.

  (* the entries of an array literal, in order; a spread entry must be an array and contributes
     its elements *)
  Definition eval_items (ev : expr -> res value) : list (bool * expr) -> res (list value) :=
    fix go l :=
      match l with
      | [] => ROk []
      | (sp, e) :: t =>
          match ev e with
          | ROk v =>
              match (if sp : bool then match v with VArr l' => ROk l' | _ => RErr ErrRender end else ROk [v]) with
              | ROk vs => match go t with ROk r => ROk (vs ++ r) | RErr x => RErr x end
              | RErr x => RErr x
              end
          | RErr x => RErr x
          end
      end.

  Definition eval_entries (ev : expr -> res value)
    : list (option value * expr) -> res (list (option value * value)) :=
    fix go l :=
      match l with
      | [] => ROk []
      | (k, e) :: t =>
          match ev e with
          | ROk v => match go t with ROk r => ROk ((k, v) :: r) | RErr x => RErr x end
          | RErr x => RErr x
          end
      end.

  Definition apply_filter (name : str) (v : value) (kws : list (str * value)) : res value :=
    match b_filter B name v kws with
    | Some (ROk r, safe) => ROk (if safe then mark_safe_value r else r)
    | Some (RErr x, _) => RErr x
    | None => RErr ErrOther
    end.

  Fixpoint eval (e : expr) (en : env) {struct e} : res value :=
    match e with
    | EConst v => ROk v
    | EVar n => ROk (env_lookup en n)
    | ELoop f => match e_loops en with
                 | l :: _ => ROk (loop_field_value l f)
                 | [] => RErr ErrOther               (* `loop` is only special inside a for *)
                 end
    | EAttr e1 a =>
        match eval e1 en with
        | ROk v => if is_undefined v then RErr ErrRender
                   else ROk (match b_get_attr B v a with Some x => x | None => VUndef end)
        | RErr x => RErr x
        end
    | ENot e1 => match eval e1 en with ROk v => ROk (VBool (negb (is_truthy v))) | RErr x => RErr x end
    | EAnd a b =>   (* as in Python: the left operand when it is falsy, otherwise the right one *)
        match eval a en with ROk v => if is_truthy v then eval b en else ROk v | RErr x => RErr x end
    | EOr a b =>
        match eval a en with ROk v => if is_truthy v then ROk v else eval b en | RErr x => RErr x end
    | EEq a b =>
        match eval a en with
        | ROk va => match eval b en with ROk vb => ROk (VBool (b_eq B va vb)) | RErr x => RErr x end
        | RErr x => RErr x
        end
    | ETest e1 name =>
        match eval e1 en with
        | ROk v => match b_test B name v with
                   | Some (ROk r) => ROk (VBool r)
                   | Some (RErr x) => RErr x
                   | None => RErr ErrOther
                   end
        | RErr x => RErr x
        end
    | EFilter e1 name kw =>
        match eval e1 en with
        | ROk v => match eval_kws (fun x => eval x en) kw with
                   | ROk kws => apply_filter name v kws
                   | RErr x => RErr x
                   end
        | RErr x => RErr x
        end
    | EBin op a b =>
        match eval a en with
        | ROk va => match eval b en with ROk vb => b_binop B op va vb | RErr x => RErr x end
        | RErr x => RErr x
        end
    | ENeg e1 => match eval e1 en with ROk v => b_neg B v | RErr x => RErr x end
    | ETernary c a b =>
        match eval c en with
        | ROk v => if is_truthy v then eval a en else eval b en
        | RErr x => RErr x
        end
    | EAttrOpt e1 a =>
        match eval e1 en with
        | ROk v => if is_undefined v || is_none v then ROk VUndef
                   else ROk (match b_get_attr B v a with Some x => x | None => VUndef end)
        | RErr x => RErr x
        end
    | ESub opt e1 i =>
        match eval e1 en with
        | ROk v => match eval i en with ROk iv => b_subscript B opt v iv | RErr x => RErr x end
        | RErr x => RErr x
        end
    | ESlice opt e1 a b c =>     (* absent bounds are none, an absent step is 1 *)
        match eval e1 en with
        | ROk v =>
            match (match a with Some x => eval x en | None => ROk VNone end) with
            | ROk va =>
                match (match b with Some x => eval x en | None => ROk VNone end) with
                | ROk vb =>
                    match (match c with Some x => eval x en | None => ROk (VInt I64 1) end) with
                    | ROk vc => b_slice B opt v va vb vc
                    | RErr x => RErr x
                    end
                | RErr x => RErr x
                end
            | RErr x => RErr x
            end
        | RErr x => RErr x
        end
    | ECall name kw =>
        match eval_kws (fun x => eval x en) kw with
        | ROk kws => match b_function B name kws with
                     | Some (ROk r, safe) => ROk (if safe then mark_safe_value r else r)
                     | Some (RErr x, _) => RErr x
                     | None => RErr ErrOther
                     end
        | RErr x => RErr x
        end
    | EArr items =>
        match eval_items (fun x => eval x en) items with ROk l => ROk (VArr l) | RErr x => RErr x end
    | EMap entries =>
        match eval_entries (fun x => eval x en) entries with ROk l => b_build_map B l | RErr x => RErr x end
    end.

  (* {{ v }}: printing Undefined is an error; unsafe values are escaped when autoescaping *)
  Definition render_value (v : value) : res str :=
    if is_undefined v then RErr ErrRender
    else ROk (if negb autoescape || prints_raw v then b_format B v else b_escape B (b_format B v)).

  Fixpoint apply_filters (fs : list filter_call) (v : value) (en : env) : res value :=
    match fs with
    | [] => ROk v
    | (name, kw) :: t =>
        match eval_kws (fun x => eval x en) kw with
        | ROk kws => match apply_filter name v kws with
                     | ROk r => apply_filters t r en
                     | RErr x => RErr x
                     end
        | RErr x => RErr x
        end
    end.

  Definition outcome := res (env * str * signal).

  (* statements in sequence: the first break/continue/error ends the sequence *)
  Definition exec_seq (ex : stmt -> env -> outcome) : list stmt -> env -> outcome :=
    fix go l en :=
      match l with
      | [] => ROk (en, [], SigNormal)
      | s :: t =>
          match ex s en with
          | ROk (en1, t1, SigNormal) =>
              match go t en1 with
              | ROk (en2, t2, sg) => ROk (en2, t1 ++ t2, sg)
              | RErr x => RErr x
              end
          | r => r
          end
      end.

  (* one body execution per item, in order; iteration i (0-based) of n sees a fresh loop scope:
     its assignments are gone when the iteration ends; `continue` ends the iteration, `break`
     ends the loop *)
  Definition exec_iter (body : env -> outcome) (key : option str) (val : str) (n : nat)
    : list (option value * value) -> nat -> env -> outcome :=
    fix go items i en :=
      match items with
      | [] => ROk (en, [], SigNormal)
      | it :: rest =>
          let scope := {| ls_key_name := key; ls_val_name := val; ls_item := it;
                          ls_index0 := i; ls_length := n; ls_locals := [] |} in
          match body (push_loop en scope) with
          | RErr x => RErr x
          | ROk (en1, t1, SigBreak) => ROk (pop_loop en1, t1, SigNormal)
          | ROk (en1, t1, _) =>
              match go rest (S i) (pop_loop en1) with
              | ROk (en2, t2, sg) => ROk (en2, t1 ++ t2, sg)
              | RErr x => RErr x
              end
          end
      end.

  Fixpoint exec (s : stmt) (en : env) {struct s} : outcome :=
    match s with
    | SText t => ROk (en, t, SigNormal)
    | SPrint e =>
        match eval e en with
        | ROk v => match render_value v with ROk t => ROk (en, t, SigNormal) | RErr x => RErr x end
        | RErr x => RErr x
        end
    | SIf c body els =>
        match eval c en with
        | ROk v => if is_truthy v then exec_seq exec body en else exec_seq exec els en
        | RErr x => RErr x
        end
    | SFor key val target body els =>
        match eval target en with
        | RErr x => RErr x
        | ROk c =>
            match items_of c with
            | None => RErr ErrRender                          (* not iterable *)
            | Some items =>
                if (match key with Some _ => true | None => false end) && negb (is_map c)
                then RErr ErrRender                           (* key, value needs a map *)
                else match items with
                     | [] => exec_seq exec els en             (* nothing to iterate *)
                     | _ => exec_iter (exec_seq exec body) key val (length items) items 0 en
                     end
            end
        end
    | SAssign g n e =>
        match eval e en with
        | ROk v => ROk (assign g en n v, [], SigNormal)
        | RErr x => RErr x
        end
    | SSetBlock g n body filters =>
        match exec_seq exec body en with
        | ROk (en1, text, SigNormal) =>
            match apply_filters filters (VStr text true) en1 with
            | ROk v => ROk (assign g en1 n v, [], SigNormal)
            | RErr x => RErr x
            end
        | ROk _ => RErr ErrOther        (* break/continue cannot leave a capture (syntax error) *)
        | RErr x => RErr x
        end
    | SFilter name kw body =>
        match exec_seq exec body en with
        | ROk (en1, text, SigNormal) =>
            match apply_filters [(name, kw)] (VStr text true) en1 with
            | ROk v => match render_value v with
                       | ROk t => ROk (en1, t, SigNormal)
                       | RErr x => RErr x
                       end
            | RErr x => RErr x
            end
        | ROk _ => RErr ErrOther
        | RErr x => RErr x
        end
    | SInclude name =>
        match inc name en with
        | ROk t => ROk (en, t, SigNormal)
        | RErr x => RErr x
        end
    | SBreak => ROk (en, [], SigBreak)
    | SContinue => ROk (en, [], SigContinue)
    end.

  Definition exec_list : list stmt -> env -> outcome := exec_seq exec.

  (* a whole template body *)
  Definition render_body (body : list stmt) (en : env) : res str :=
    match exec_list body en with
    | ROk (_, t, SigNormal) => ROk t
    | ROk _ => RErr ErrOther             (* break/continue outside a loop (syntax error) *)
    | RErr x => RErr x
    end.
End Sem.

(* ---------- template libraries ---------- *)
Record tdef := { td_name : str; td_autoescape : bool; td_body : list stmt }.

Section Lib.
  Variable B : builtins.
  Variable ae : option bool.        (* autoescape override of the render, None = per template *)

  Definition effective_autoescape (t : tdef) : bool :=
    match ae with Some b => b | None => td_autoescape t end.

  (* render template `name` of `lib` in environment `en`; it can include the templates listed
     after it *)
  Fixpoint template_sem (lib : list tdef) (name : str) (en : env) {struct lib} : res str :=
    match lib with
    | [] => RErr ErrOther                                      (* template not found *)
    | t :: rest =>
        if str_eqb (td_name t) name
        then render_body B (effective_autoescape t)
                         (fun n includer => template_sem rest n (included_env includer))
                         (td_body t) en
        else template_sem rest name en
    end.

  (* `include` renders the named template against the includer's current variables *)
  Definition include_sem (lib : list tdef) (name : str) (includer : env) : res str :=
    template_sem lib name (included_env includer).

  (* Tera::render: nothing but the context and the global context is visible at the start *)
  Definition render (lib : list tdef) (name : str) (context global : bindings) : res str :=
    template_sem lib name (Env [] [] None context global).
End Lib.
